# Reproduction for DESIGN.md section 4.1 (design-round note, not part of the checks).
# Run: PYTHONPATH=/repo/lib /venv/bin/python F7_stale_queue_size.py
import os, tempfile
_root = tempfile.mkdtemp(prefix='carbon-repro-')
os.makedirs(os.path.join(_root, 'conf'))
with open(os.path.join(_root, 'conf', 'storage-schemas.conf'), 'w') as _f:
    _f.write('[default]\npattern = .*\nretentions = 60:1440\n')
os.environ['GRAPHITE_ROOT']=_root
from carbon.conf import settings
settings.MAX_QUEUE_SIZE=10; settings.QUEUE_LOW_WATERMARK_PCT=0.8; settings.MAX_DATAPOINTS_PER_MESSAGE=500
settings.USE_FLOW_CONTROL=True
from carbon import events, state, instrumentation
state.events=events; state.instrumentation=instrumentation
events.cacheFull.addHandler(events.pauseReceivingMetrics)
events.cacheSpaceAvailable.addHandler(events.resumeReceivingMetrics)
import carbon.client as cl
from twisted.internet.task import Clock
from twisted.internet.testing import StringTransport
clock=Clock(); cl.reactor=clock
from carbon.routers import ConstantRouter
router=ConstantRouter(settings)
f=cl.CarbonPickleClientFactory(('h',2004,'a'), router)
router.addDestination(('h',2004,'a'))
for i in range(10+1):
    f.sendDatapoint('m',(i,i))
print('queue', f.queueSize, 'paused', state.metricReceiversPaused, 'cacheTooFull', state.cacheTooFull)
p=f.buildProtocol(None); t=StringTransport(); p.makeConnection(t)
clock.advance(1); clock.advance(1)
print('after connect+drain: queue', f.queueSize, 'paused', state.metricReceiversPaused, 'cacheTooFull', state.cacheTooFull, 'delayed', clock.getDelayedCalls())

import shutil; shutil.rmtree(_root, ignore_errors=True)
