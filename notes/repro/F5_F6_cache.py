# Reproduction for DESIGN.md section 4.1 (design-round note, not part of the checks).
# Run: PYTHONPATH=/repo/lib /venv/bin/python F5_F6_cache.py
import os, tempfile
_root = tempfile.mkdtemp(prefix='carbon-repro-')
os.makedirs(os.path.join(_root, 'conf'))
with open(os.path.join(_root, 'conf', 'storage-schemas.conf'), 'w') as _f:
    _f.write('[default]\npattern = .*\nretentions = 60:1440\n')
os.environ['GRAPHITE_ROOT']=_root
from carbon.conf import settings
from carbon import events, state, instrumentation
state.events=events; state.instrumentation=instrumentation
from carbon.cache import _MetricCache, BucketMaxStrategy, NaiveStrategy, SortedStrategy, MaxStrategy
# (b) auto-vivify on refused store
settings.MAX_CACHE_SIZE=2; settings.CACHE_SIZE_HARD_MAX=2; settings.CACHE_SIZE_LOW_WATERMARK=1.9
ov=[]; events.cacheOverflow.addHandler(lambda: ov.append(1))
for strat in (NaiveStrategy, SortedStrategy, MaxStrategy, BucketMaxStrategy, None):
    c=_MetricCache(strat)
    c.store('a',(1,1)); c.store('a',(2,1))
    n0=len(c)
    c.store('b',(1,1))
    print(strat and strat.__name__, 'len before', n0, 'after refused', len(c), dict(c), 'size', c.size, 'new_metrics', list(c.new_metrics))
    try:
        print('   drains', c.drain_metric(), c.drain_metric(), c.drain_metric())
    except Exception as e:
        print('   drain raised', type(e).__name__, e)
# (c) bucketmax race emulation
settings.MAX_CACHE_SIZE=float('inf'); settings.CACHE_SIZE_HARD_MAX=float('inf')
c=_MetricCache(BucketMaxStrategy)
c.store('m',(1,1)); c.store('m',(2,1))
with c.lock:
    chosen=c.strategy.choose_item()
print('chosen', chosen)
try:
    c.store('m',(3,1))
    print('store ok')
except Exception as e:
    print('store raised', type(e).__name__, e, 'size', c.size, 'held', sum(len(v) for v in c.values()))
print(c.pop(chosen))
# pickled big int
from carbon.protocols import MetricPickleReceiver
from twisted.internet.testing import StringTransport
import pickle, struct
p=MetricPickleReceiver(); p.makeConnection(StringTransport())
pl=pickle.dumps([('a',(10**400,1))],protocol=2)
try:
    p.dataReceived(struct.pack('!L',len(pl))+pl); print('ok')
except Exception as e: print('big int ESCAPE', type(e).__name__, e)

import shutil; shutil.rmtree(_root, ignore_errors=True)
