# Reproduction for DESIGN.md section 4.1 (design-round note, not part of the checks).
# Run: PYTHONPATH=/repo/lib /venv/bin/python F12_event_dispatch_race.py
import os, tempfile
_root = tempfile.mkdtemp(prefix='carbon-repro-')
os.makedirs(os.path.join(_root, 'conf'))
with open(os.path.join(_root, 'conf', 'storage-schemas.conf'), 'w') as _f:
    _f.write('[default]\npattern = .*\nretentions = 60:1440\n')
# Thread-affinity probe: cacheSpaceAvailable fired from the writer thread iterates
# resumeReceivingMetrics.handlers while the reactor thread removes a handler.
import os, threading
os.environ['GRAPHITE_ROOT']=_root
from carbon.conf import settings
settings.USE_FLOW_CONTROL=True
settings.MAX_CACHE_SIZE=2; settings.CACHE_SIZE_HARD_MAX=2.1; settings.CACHE_SIZE_LOW_WATERMARK=1.9
from carbon import events, state, instrumentation
state.events=events; state.instrumentation=instrumentation
events.cacheFull.addHandler(events.pauseReceivingMetrics)
events.cacheSpaceAvailable.addHandler(events.resumeReceivingMetrics)
from carbon.protocols import MetricLineReceiver
from twisted.internet.testing import StringTransport
from twisted.python.failure import Failure
from twisted.internet.error import ConnectionDone
from carbon.cache import _MetricCache, NaiveStrategy
in_resume=threading.Event(); go=threading.Event()
class T(StringTransport):
    hook=False
    def resumeProducing(self):
        StringTransport.resumeProducing(self)
        if self.hook and threading.current_thread() is not threading.main_thread():
            in_resume.set(); go.wait(5)   # writer thread preempted here
def mk(hook=False):
    p=MetricLineReceiver(); t=T(); t.hook=hook; p.makeConnection(t); return p,t
r1,t1=mk(True); r2,t2=mk(); r3,t3=mk()
c=_MetricCache(NaiveStrategy)
c.store('a',(1,1)); c.store('a',(2,1)); c.store('a',(3,1))   # third store sees nearly-full -> pause
print('paused', state.metricReceiversPaused, [t.producerState for t in (t1,t2,t3)])
w=threading.Thread(target=c.drain_metric); w.start()      # writer thread: pop -> cacheSpaceAvailable
in_resume.wait(5)
r1.connectionLost(Failure(ConnectionDone()))              # reactor thread: r1 disconnects meanwhile
go.set(); w.join()
print('paused flag', state.metricReceiversPaused, 'size', c.size, 'transports', [t.producerState for t in (t1,t2,t3)])

import shutil; shutil.rmtree(_root, ignore_errors=True)
