# Reproduction for DESIGN.md section 4.1 (design-round note, not part of the checks).
# Run: PYTHONPATH=/repo/lib /venv/bin/python F8_destination_down.py
import os, tempfile
_root = tempfile.mkdtemp(prefix='carbon-repro-')
os.makedirs(os.path.join(_root, 'conf'))
with open(os.path.join(_root, 'conf', 'storage-schemas.conf'), 'w') as _f:
    _f.write('[default]\npattern = .*\nretentions = 60:1440\n')
os.environ['GRAPHITE_ROOT']=_root
from carbon.conf import settings
settings.MAX_QUEUE_SIZE=10; settings.QUEUE_LOW_WATERMARK_PCT=0.8; settings.MAX_DATAPOINTS_PER_MESSAGE=2
settings.USE_FLOW_CONTROL=True; settings.DYNAMIC_ROUTER=True; settings.DYNAMIC_ROUTER_MAX_RETRIES=1
settings.RELAY_METHOD='consistent-hashing'; settings.REPLICATION_FACTOR=1
from carbon import events, state, instrumentation
state.events=events; state.instrumentation=instrumentation
events.cacheFull.addHandler(events.pauseReceivingMetrics)
events.cacheSpaceAvailable.addHandler(events.resumeReceivingMetrics)
import carbon.client as cl
from twisted.internet.task import Clock
from twisted.internet.testing import StringTransport
from twisted.python.failure import Failure
from twisted.internet.error import ConnectionRefusedError
clock=Clock(); cl.reactor=clock
from carbon.routers import ConsistentHashingRouter
from carbon.pipeline import run_pipeline_generated
router=ConsistentHashingRouter(settings)
mgr=cl.CarbonClientManager(router); state.client_manager=mgr
state.pipeline_processors_generated=[cl.RelayProcessor()]
events.metricGenerated.addHandler(run_pipeline_generated)
A=('a',2004,'x'); B=('b',2004,'y')
class Conn: 
    host='h'; port=1; state='disconnected'
    def connect(self): pass
    def stopConnecting(self): pass
fa=cl.CarbonPickleClientFactory(A, router); fb=cl.CarbonPickleClientFactory(B, router)
fa.clock=clock; fb.clock=clock
mgr.client_factories[A]=fa; mgr.client_factories[B]=fb
# both come up
def up(f):
    p=f.buildProtocol(None); t=StringTransport(); p.makeConnection(t); return p,t
pa,ta=up(fa); pb,tb=up(fb)
print('dests', router.countDestinations())
# A's transport pauses (slow peer) -> queue builds up
pa.pauseProducing()
i=0
while not state.metricReceiversPaused:
    mgr.sendDatapoint('metric.%d'%i,(1,1)); i+=1
    clock.advance(0.001)
print('sent',i,'qa',fa.queueSize,'qb',fb.queueSize,'paused',state.metricReceiversPaused)
pa.resumeProducing(); pa.pauseProducing()
print('A drained a bit: qa',fa.queueSize,'paused',state.metricReceiversPaused)
# A goes down
fa.retries=5
pa.connectionLost(Failure(ConnectionRefusedError()))
fa.clientConnectionLost(Conn(), Failure(ConnectionRefusedError()))
for _ in range(50): clock.advance(1)
print('after A removed: qa',fa.queueSize,'qb',fb.queueSize,'paused',state.metricReceiversPaused,'tooFull',state.cacheTooFull, 'dests', router.countDestinations())
print('pending', [c for c in clock.getDelayedCalls()])

import shutil; shutil.rmtree(_root, ignore_errors=True)
