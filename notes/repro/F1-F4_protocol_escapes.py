# Reproduction for DESIGN.md section 4.1 (design-round note, not part of the checks).
# Run: PYTHONPATH=/repo/lib /venv/bin/python F1-F4_protocol_escapes.py
import os, tempfile
_root = tempfile.mkdtemp(prefix='carbon-repro-')
os.makedirs(os.path.join(_root, 'conf'))
with open(os.path.join(_root, 'conf', 'storage-schemas.conf'), 'w') as _f:
    _f.write('[default]\npattern = .*\nretentions = 60:1440\n')
import os, sys
os.environ['GRAPHITE_ROOT']=_root
from carbon.conf import settings
from carbon import events, state, instrumentation
state.events=events; state.instrumentation=instrumentation
from carbon.protocols import MetricLineReceiver, MetricDatagramReceiver, MetricPickleReceiver
from twisted.internet.testing import StringTransport
import pickle, struct
got=[]
events.metricReceived.addHandler(lambda m,d: got.append((m,d)))
def line(data):
    p=MetricLineReceiver(); t=StringTransport(); p.makeConnection(t)
    try:
        p.dataReceived(data); print('line ok', data, got[-3:])
    except Exception as e:
        print('line ESCAPE', data, type(e).__name__, e)
line(b'a 1 2\n\xff\xfe 1 2\nb 1 2\n')
line(b'a 1 nan\nb 1 2\n')
line(b'a 1 inf\nb 1 2\n')
line(b'a 1 1e400\nb 1 2\n')
def udp(data):
    p=MetricDatagramReceiver()
    try:
        p.datagramReceived(data,('h',1)); print('udp ok', data, got[-3:])
    except Exception as e:
        print('udp ESCAPE', data, type(e).__name__, e)
udp(b'a 1 2\n\xff 1 2\nb 1 2')
udp(b'a 1 nan\nb 1 2')
udp(b'a 1 inf\nb 1 2')
def pk(obj, raw=None):
    p=MetricPickleReceiver(); t=StringTransport(); p.makeConnection(t)
    payload = raw if raw is not None else pickle.dumps(obj, protocol=2)
    try:
        p.dataReceived(struct.pack('!L',len(payload))+payload); print('pk ok', obj, got[-3:], t.disconnecting)
    except Exception as e:
        print('pk ESCAPE', obj, type(e).__name__, e)
pk([('a',(1,2)),('b',(float('nan'),2)),('c',(3,4))])
pk([('a',(1,2)),('b',(float('inf'),2)),('c',(3,4))])
pk([('a',(1,2)),(5,(1,2)),('c',(3,4))])
pk([('a',(1,2)),(None,(1,2)),('c',(3,4))])
pk(5)
pk(None)
pk([('a',(1,2)),(b'bytes',(1,2)),('c',(3,4))])
pk(None, raw=b'\x80\x02]q\x00(')  # truncated
pk(None, raw=b'garbage')
pk(None, raw=b'')
pk(None, raw=b'\x80\x05\x95\xff\xff\xff\xff\xff\xff\xff\x7f.')
pk(None, raw=b'(lp0\nI1\naI2\nat.')  
pk(None, raw=b'0.')  # POP on empty stack
pk(None, raw=b'h\x05.')  # BINGET missing memo
pk(None, raw=b'a.')  # APPEND with empty stack
pk(None, raw=b'\x80\x02X\x02\x00\x00\x00\xff\xfeq\x00.')  # bad utf8 BINUNICODE
pk(None, raw=b'F1.0.0\n.')
pk(None, raw=b'I1x\n.')
pk(None, raw=b'\x80\x02\x8a\x01\x01\x8a\x01\x01\x85R.')  # REDUCE non callable
pk(None, raw=b'\x80\x02]b.')  # BUILD
pk(None, raw=b'\x80\x02}(K\x01]K\x02u.')  # unhashable? no.. dict {1: [] ...}
pk(None, raw=b'\x80\x02}(]K\x02u.')  # dict with list key -> TypeError unhashable
pk(None, raw=b'\x80\x02\x82\x01.')  # EXT1

import shutil; shutil.rmtree(_root, ignore_errors=True)
