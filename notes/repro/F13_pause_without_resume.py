# Reproduction for DESIGN.md section 4.1 (design-round note, not part of the checks).
# Run: PYTHONPATH=/repo/lib /venv/bin/python F13_pause_without_resume.py
import os, tempfile
_root = tempfile.mkdtemp(prefix='carbon-repro-')
os.makedirs(os.path.join(_root, 'conf'))
with open(os.path.join(_root, 'conf', 'storage-schemas.conf'), 'w') as _f:
    _f.write('[default]\npattern = .*\nretentions = 60:1440\n')
os.environ['GRAPHITE_ROOT']=_root
from carbon.conf import settings
settings.USE_FLOW_CONTROL=False
from carbon import events, state, instrumentation
state.events=events; state.instrumentation=instrumentation
from carbon.protocols import MetricLineReceiver
from twisted.internet.testing import StringTransport
# dynamic router lost its last destination -> client.destinationDown() calls this:
events.pauseReceivingMetrics()
p=MetricLineReceiver(); t=StringTransport(); p.makeConnection(t)
print('new connection while paused:', t.producerState)
# destination comes back -> client.destinationUp() calls this:
events.resumeReceivingMetrics()
print('after resume: flag', state.metricReceiversPaused, 'transport', t.producerState)

import shutil; shutil.rmtree(_root, ignore_errors=True)
