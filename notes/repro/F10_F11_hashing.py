# Reproduction for DESIGN.md section 4.1 (design-round note, not part of the checks).
# Run: PYTHONPATH=/repo/lib /venv/bin/python F10_F11_hashing.py
import os, tempfile
_root = tempfile.mkdtemp(prefix='carbon-repro-')
os.makedirs(os.path.join(_root, 'conf'))
with open(os.path.join(_root, 'conf', 'storage-schemas.conf'), 'w') as _f:
    _f.write('[default]\npattern = .*\nretentions = 60:1440\n')
os.environ['GRAPHITE_ROOT']=_root
from carbon.conf import settings
from carbon import events, state, instrumentation
state.events=events; state.instrumentation=instrumentation
from carbon.hashing import ConsistentHashRing
from carbon.routers import ConsistentHashingRouter
# (a) single node dup
r=ConsistentHashRing([('a','1')])
print('single-node get_nodes:', list(r.get_nodes('foo')))
class S(dict):
    __getattr__=dict.__getitem__
s=S(REPLICATION_FACTOR=2, DIVERSE_REPLICAS=False, ROUTER_HASH_TYPE=None)
ro=ConsistentHashingRouter(s); ro.addDestination(('h',2004,'a'))
print('router RF=2, one dest:', list(ro.getDestinations('foo.bar')))
s2=S(REPLICATION_FACTOR=2, DIVERSE_REPLICAS=True, ROUTER_HASH_TYPE=None)
ro=ConsistentHashingRouter(s2); ro.addDestination(('h',2004,'a'))
print('router diverse RF=2, one dest:', list(ro.getDestinations('foo.bar')))
# (f) collision history dependence
import itertools
from carbon.hashing import carbonHash
pos={}
found=None
names=[('h%d'%i, 'a') for i in range(40)]
for n in names:
    for i in range(100):
        p=carbonHash("%s:%d"%(n,i),'carbon_ch')
        if p in pos and pos[p][0]!=n:
            found=(pos[p][0], n, p); break
        pos[p]=(n,i)
    if found: break
print('collision', found)
A,B,p=found
# F11: same live destinations, different membership history -> different ring
fresh=ConsistentHashRing([A,B])                      # freshly started relay, config order A,B
hist=ConsistentHashRing([A,B])
hist.remove_node(A); hist.remove_node(B)             # both go down ...
hist.add_node(B); hist.add_node(A)                   # ... and come back in the other order
print('same nodes', fresh.nodes==hist.nodes, '| same ring', fresh.ring==hist.ring)
diff=[(x,y) for x,y in zip(fresh.ring,hist.ring) if x!=y]
print('differing entries', diff)
# a key hashing exactly onto the colliding position is routed differently
import itertools
for n in itertools.count():
    k='metric.%d'%n
    if carbonHash(k,'carbon_ch')==p:
        print('key', k, 'fresh ->', list(fresh.get_nodes(k))[0], '| after history ->', list(hist.get_nodes(k))[0]); break

import shutil; shutil.rmtree(_root, ignore_errors=True)
