# Reproduction for DESIGN.md section 4.1 (design-round note, not part of the checks).
# Run: PYTHONPATH=/repo/lib /venv/bin/python F9_shutdown_idle_sleep.py
import os, tempfile
_root = tempfile.mkdtemp(prefix='carbon-repro-')
os.makedirs(os.path.join(_root, 'conf'))
with open(os.path.join(_root, 'conf', 'storage-schemas.conf'), 'w') as _f:
    _f.write('[default]\npattern = .*\nretentions = 60:1440\n')
os.environ['GRAPHITE_ROOT']=_root
from carbon.conf import settings
settings.CONF_DIR=os.path.join(_root, 'conf')
settings.MAX_UPDATES_PER_SECOND=float('inf')
settings.TAG_QUEUE_SIZE=10; settings.TAG_UPDATE_INTERVAL=1; settings.ENABLE_TAGS=False
settings.CACHE_SIZE_HARD_MAX=float('inf'); settings.CACHE_SIZE_LOW_WATERMARK=float('inf')
from carbon import events, state, instrumentation
state.events=events; state.instrumentation=instrumentation
from carbon.database import TimeSeriesDatabase
class MemDB(TimeSeriesDatabase):
    plugin_name='mem'
    def __init__(self): self.files={}; self.log=[]
    def exists(self,m): return m in self.files
    def create(self,m,*a): self.files[m]=[]; self.log.append(('create',m,a))
    def write(self,m,dps): self.files[m].extend(dps); self.log.append(('write',m,list(dps)))
state.database=MemDB()
import carbon.writer as w
from carbon.cache import MetricCache
cache=MetricCache()
class R: running=True
w.reactor=R
calls=[]
class T:
    @staticmethod
    def time(): return 1000.0
    @staticmethod
    def sleep(s):
        calls.append(s)
        # datapoint accepted during the writer's idle sleep, then stop is initiated
        cache.store('late.metric',(1,1))
        R.running=False
w.time=T
cache.store('early',(1,1))
w.writeForever()
print('sleep calls',calls)
print('db log',state.database.log)
print('left in cache at writer exit:', dict(cache))

import shutil; shutil.rmtree(_root, ignore_errors=True)
