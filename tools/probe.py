#!/usr/bin/env python3
"""Hand-written mutation probes: quick textual edits of scratch copies of /repo (temp dirs, removed), each expected to be
reported (exit 1) by the named property's check.  Used while developing rules; not part of the registered checks.
usage: probe.py [PROP ...]"""
import os
import subprocess
import sys

REPO = os.environ.get('SA_REPO_ROOT', '/repo')
P = 'lib/carbon/'

PROBES = [
  # (id, property, file, old, new)
  ('C01a', 'C01', P + 'protocols.py', "      metric, value, timestamp = line.strip().split()\n      datapoint = (float(timestamp), float(value))\n    except ValueError:\n      line = repr(line.strip())\n      if len(line) > 400:\n        line = line[:400] + '...'\n      log.listener('invalid line received from client",
   "      metric, value, timestamp = line.strip().split()\n      datapoint = (float(value), float(timestamp))\n    except ValueError:\n      line = repr(line.strip())\n      if len(line) > 400:\n        line = line[:400] + '...'\n      log.listener('invalid line received from client"),
  ('C01b', 'C01', P + 'protocols.py', "    for line in data.splitlines():", "    for line in sorted(set(data.splitlines())):"),
  ('C01c', 'C01', P + 'protocols.py', "    for raw in datapoints:", "    for raw in datapoints[:500]:"),
  ('C01d', 'C01', P + 'protocols.py', "    events.metricReceived(metric, datapoint)\n    self.resetTimeout()", "    events.metricReceived(metric, datapoint)\n    if res:\n      events.metricReceived(metric, datapoint)\n    self.resetTimeout()"),
  ('C01e', 'C01', P + 'protocols.py', "      datapoint = (float(timestamp), float(value))\n      except ValueError:", "      datapoint = (int(float(timestamp)), float(value))\n      except ValueError:"),
  ('C02a', 'C02', P + 'cache.py', "          if not datapoints:\n            self.new_metrics.append(metric)\n          self.size += 1", "          if not datapoints:\n            self.new_metrics.append(metric)\n            self.size += 1"),
  ('C02b', 'C02', P + 'cache.py', "    self._check_available_space()\n\n    return sorted(datapoint_index.items(), key=by_timestamp)", "    self._check_available_space()\n\n    return sorted(datapoint_index.items(), key=by_timestamp)[:1000]"),
  ('C02c', 'C02', P + 'cache.py', "    self.size -= len(datapoint_index)", "    self.size -= 1"),
  ('C02d', 'C02', P + 'cache.py', "    return sorted(self.get(metric, {}).items(), key=by_timestamp)", "    return self.get(metric, {})"),
  ('C02e', 'C02', P + 'cache.py', "        datapoints[timestamp] = value\n", "        datapoints.setdefault(timestamp, value)\n"),
  ('C02f', 'C02', P + 'instrumentation.py', "    cache_size = cache.MetricCache().size", "    cache_size = cache.MetricCache().size\n    cache.MetricCache().size = max(cache_size, 0)"),
  ('C03a', 'C03', P + 'writer.py', "      log.msg(\"Error writing to %s: %s\" % (metric, e))\n      instrumentation.increment('errors')", "      log.msg(\"Error writing to %s: %s\" % (metric, e))"),
  ('C03b', 'C03', P + 'writer.py', "      instrumentation.increment('droppedCreates')\n      continue", "      continue"),
  ('C03c', 'C03', P + 'writer.py', "      state.database.write(metric, datapoints)", "      state.database.write(metric.lower(), datapoints)"),
  ('C03d', 'C03', P + 'writer.py', "      datapoints = dict(datapoints).items()", "      datapoints = list(dict(datapoints).items())[-100:]"),
  ('C03e', 'C03', P + 'writer.py', "    try:\n      writeCachedDataPoints()\n    except Exception:\n      log.err()\n      # Back-off", "    try:\n      writeCachedDataPoints()\n    except IOError:\n      log.err()\n      # Back-off"),
  ('C04b', 'C04', P + 'writer.py', "  cache = MetricCache()\n  while cache:", "  cache = MetricCache()\n  while cache and reactor.running:"),
  ('C04c', 'C04', P + 'writer.py', "        reactor.callInThread(writeForever)", "        import threading\n        threading.Thread(target=writeForever).start()"),
  ('C04d', 'C04', P + 'writer.py', "        reactor.addSystemEventTrigger('before', 'shutdown', shutdownModifyUpdateSpeed)", "        reactor.addSystemEventTrigger('after', 'shutdown', shutdownModifyUpdateSpeed)"),
  ('C05b', 'C05', P + 'routers.py', "          used_servers.add(server)\n          port", "          port"),
  ('C05c', 'C05', P + 'hashing.py', "        nodes.add(next_node)\n        nodes_len += 1", "        nodes_len += 1"),
  ('C05d', 'C05', P + 'routers.py', "        port = self.instance_ports[(server, instance)]\n        yield (server, port, instance)\n\n  def getKey", "        port = self.instance_ports.get((server, instance), 2004)\n        yield (server, port, instance)\n\n  def getKey"),
  ('C05e', 'C05', P + 'routers.py', "    del self.instance_ports[(server, instance)]\n    self.ring.remove_node((server, instance))", "    del self.instance_ports[(server, instance)]"),
  ('C06a', 'C06', P + 'hashing.py', 'replica_key = "%s:%d" % (key, i)', 'replica_key = "%s-%d" % (key, i)'),
  ('C06b', 'C06', P + 'hashing.py', "replica_count=100", "replica_count=128"),
  ('C06c', 'C06', P + 'hashing.py', "    index = bisect.bisect_left(self.ring, search_entry) % self.ring_len\n    entry = self.ring[index]", "    index = bisect.bisect_right(self.ring, search_entry) % self.ring_len\n    entry = self.ring[index]"),
  ('C06d', 'C06', P + 'hashing.py', "    small_hash = int(big_hash[:4], 16)", "    small_hash = int(big_hash[:5], 16)"),
  ('C06e', 'C06', P + 'client.py', "      self.router.removeDestination(destination)\n      # Do not receive", "      self.router.ring.remove_node((destination[0], destination[2]))\n      # Do not receive"),
  ('C07a', 'C07', P + 'client.py', "      if self.queueSize < SEND_QUEUE_HARD_MAX:\n        self.enqueue(metric, datapoint)", "      if self.queueSize <= SEND_QUEUE_HARD_MAX * 2:\n        self.enqueue(metric, datapoint)"),
  ('C07b', 'C07', P + 'client.py', "  def disconnect(self):\n    self.queueEmpty.addCallbacks(lambda result: self.stopConnecting(), log.err)\n    readyToStop = DeferredList(\n      [self.connectionLost, self.connectFailed],\n      fireOnOneCallback=True,\n      fireOnOneErrback=True)\n    self.checkQueue()", "  def disconnect(self):\n    self.queueEmpty.addCallbacks(lambda result: self.stopConnecting(), log.err)\n    readyToStop = DeferredList(\n      [self.connectionLost, self.connectFailed],\n      fireOnOneCallback=True,\n      fireOnOneErrback=True)"),
  ('C07c', 'C07', P + 'client.py', "          yield self.queue.popleft()", "          yield self.queue.pop()"),
  ('C07d', 'C07', P + 'client.py', "      else:\n        instrumentation.increment(self.fullQueueDrops)", "      else:\n        pass"),
  ('C07e', 'C07', P + 'client.py', "    self._sendDatapointsNow(datapoints)\n    instrumentation.increment(self.sent, len(datapoints))", "    self._sendDatapointsNow(datapoints[:-1])\n    instrumentation.increment(self.sent, len(datapoints))"),
  ('C08a', 'C08', P + 'aggregator/buffers.py', "value = self.aggregation_func(buffer.values)", "value = self.aggregation_func(buffer.values[-100:])"),
  ('C08b', 'C08', P + 'aggregator/buffers.py', "        buffer.mark_inactive(current_interval)\n", "        pass\n"),
  ('C08c', 'C08', P + 'aggregator/rules.py', "regex_part = '%s(?P<%s>[^.]+?)%s' % (pre, field_name, post)", "regex_part = '%s(?P<%s>.+?)%s' % (pre, field_name, post)"),
  ('C08d', 'C08', P + 'aggregator/rules.py', "regex_pattern = '\\\\.'.join(regex_pattern_parts) + '$'", "regex_pattern = '\\\\.'.join(regex_pattern_parts)"),
  ('C08e', 'C08', P + 'aggregator/buffers.py', "    self.values.append(datapoint[1])\n    self.inactive_since = None", "    self.values.append(datapoint[1])"),
  ('C08f', 'C08', P + 'aggregator/processor.py', "    if settings.FORWARD_ALL and metric not in aggregate_metrics:", "    if metric not in aggregate_metrics:"),
  ('C09a', 'C09', P + 'cache.py', "    if state.cacheTooFull and self.size < settings.CACHE_SIZE_LOW_WATERMARK:", "    if state.cacheTooFull and len(self) < settings.CACHE_SIZE_LOW_WATERMARK:"),
  ('C09b', 'C09', P + 'service.py', "  RewriteRuleManager.read_from(rewrite_rules_path)\n\n  if settings.USE_FLOW_CONTROL:\n    events.cacheFull.addHandler(events.pauseReceivingMetrics)\n    events.cacheSpaceAvailable.addHandler(events.resumeReceivingMetrics)", "  RewriteRuleManager.read_from(rewrite_rules_path)\n\n  if settings.USE_FLOW_CONTROL:\n    events.cacheFull.addHandler(events.pauseReceivingMetrics)"),
  ('C09c', 'C09', P + 'protocols.py', "      events.pauseReceivingMetrics.removeHandler(self.pauseReceiving)\n      events.resumeReceivingMetrics.removeHandler(self.resumeReceiving)", "      events.pauseReceivingMetrics.removeHandler(self.pauseReceiving)"),
  ('C09d', 'C09', P + 'cache.py', "      datapoint_index = self._pop(metric)\n    self._check_available_space()\n\n    return sorted", "      datapoint_index = self._pop(metric)\n\n    return sorted"),
  ('C09e', 'C09', P + 'client.py', "      state.events.cacheSpaceAvailable()\n    self.queueHasSpace = Deferred()", "    self.queueHasSpace = Deferred()"),
  ('C10a', 'C10', P + 'cache.py', "      return self.size >= settings.CACHE_SIZE_HARD_MAX", "      return self.size > settings.CACHE_SIZE_HARD_MAX + 10"),
  ('C10b', 'C10', P + 'conf.py', "settings.MAX_CACHE_SIZE * 1.05", "settings.MAX_CACHE_SIZE * 1.5"),
  ('C10c', 'C10', P + 'cache.py', "          events.cacheOverflow()\n", "          events.cacheOverflow()\n          self.new_metrics.append(metric)\n"),
  ('C10d', 'C10', P + 'events.py', "cacheOverflow.addHandler(lambda: state.instrumentation.increment('cache.overflow'))", "cacheOverflow.addHandler(lambda: None)"),
  ('C11a', 'C11', P + 'protocols.py', "      except (ValueError, TypeError, OverflowError):\n        continue", "      except (ValueError, TypeError):\n        continue"),
  ('C11b', 'C11', P + 'protocols.py', "      log.listener('invalid line received from client %s, ignoring [%s]' %\n                   (self.peerName, line))", "      log.listener('invalid line received from client %s, ignoring [%s] starting with %s' %\n                   (self.peerName, line, line.split()[0]))"),
  ('C11c', 'C11', P + 'protocols.py', "    except (ValueError, OverflowError):  # NaN or infinite timestamp", "    except ValueError:  # NaN or infinite timestamp"),
  ('C11d', 'C11', P + 'protocols.py', "      except Exception as e:\n        log.listener('Error decoding pickle: %s' % e)\n        continue\n\n      try:\n        datapoint", "      except Exception as e:\n        log.listener('Error decoding pickle: %s' % e)\n        return\n\n      try:\n        datapoint"),
  ('C12a', 'C12', P + 'protocols.py', "    if WhiteList and metric not in WhiteList:", "    if WhiteList and metric in WhiteList:"),
  ('C12b', 'C12', P + 'protocols.py', "    if datapoint[1] != datapoint[1]:  # filter out NaN values", "    if datapoint[0] != datapoint[0]:  # filter out NaN values"),
  ('C12c', 'C12', P + 'protocols.py', "      datapoint = (timestamp // res * res, datapoint[1])", "      datapoint = (timestamp // res * res, round(datapoint[1], 6))"),
  ('C12d', 'C12', P + 'regexlist.py', "      if regex.search(value):\n        return True\n    return False", "      if not regex.search(value):\n        return False\n    return True"),
  ('C12e', 'C12', P + 'protocols.py', "    if BlackList and metric in BlackList:\n      instrumentation.increment('blacklistMatches')\n      return", "    if BlackList and metric in BlackList:\n      instrumentation.increment('blacklistMatches')\n      return\n    if len(metric) > 255:\n      return"),
  ('C13a', 'C13', P + 'util.py', "      '__builtin__': set(['object']),\n    }\n\n    def find_class(self, module, name):", "      '__builtin__': set(['object', 'eval']),\n    }\n\n    def find_class(self, module, name):"),
  ('C13b', 'C13', P + 'util.py', "def get_unpickler(insecure=False):\n  if insecure:", "def get_unpickler(insecure=False):\n  if insecure is not None:"),
  ('C13c', 'C13', P + 'util.py', "      if name not in self.PICKLE_SAFE[module]:", "      if module == '__builtin__' and name not in self.PICKLE_SAFE[module]:"),
  ('C13d', 'C13', P + 'protocols.py', "    self.unpickler = get_unpickler(insecure=settings.USE_INSECURE_UNPICKLER)\n\n  def stringReceived(self, data):", "    self.unpickler = get_unpickler(insecure=True)\n\n  def stringReceived(self, data):"),
  ('C14a', 'C14', P + 'util.py', "    return metric.replace('.', sep).lstrip(sep)", "    return metric.replace('.', sep)"),
  ('C14b', 'C14', P + 'database.py', "      path = self.getFilesystemPath(metric)\n      whisper.update_many(path, datapoints)", "      path = join(self.data_dir, metric.replace('.', sep) + '.wsp')\n      whisper.update_many(path, datapoints)"),
  ('C14c', 'C14', P + 'util.py', "metric_hash if hash_only else metric.replace('.', '_DOT_')", "metric_hash if hash_only else metric"),
  ('C15a', 'C15', P + 'client.py', '"%.10f" % datapoint[1]', '"%.6f" % datapoint[1]'),
  ('C15b', 'C15', P + 'client.py', 'to_send = "%s %s %d" % (metric, value, datapoint[0])', 'to_send = "%s %d %s" % (metric, datapoint[0], value)'),
  ('C15c', 'C15', P + 'client.py', "    for _ in range(settings.MAX_DATAPOINTS_PER_MESSAGE):", "    for _ in range(len(self.queue)):"),
  ('C15d', 'C15', P + 'client.py', "self.sendString(pickle.dumps(datapoints, protocol=2))", "self.sendString(pickle.dumps(sorted(datapoints), protocol=2))"),
  ('C16a', 'C16', P + 'routers.py', "        if not rule.continue_matching:\n          return", "        pass"),
  ('C16b', 'C16', P + 'relayrules.py', "  rules.append(defaultRule)\n  return rules", "  rules.insert(0, defaultRule)\n  return rules"),
  ('C16c', 'C16', P + 'routers.py', "    if len(resolved_metrics) == 0:\n      resolved_metrics.append(key)", "    resolved_metrics.append(key)"),
  ('C16d', 'C16', P + 'routers.py', "          if destination in self.destinations:\n            yield destination", "          yield destination"),
  ('C17a', 'C17', P + 'cache.py', "        metric_counts = sorted(self.cache.counts, key=lambda x: x[1])", "        metric_counts = sorted(self.cache.counts, key=lambda x: x[1])[-1000:]"),
  ('C17b', 'C17', P + 'cache.py', "if t - x[1] > settings.MIN_TIMESTAMP_LAG", "if t - x[2] > settings.MIN_TIMESTAMP_LAG"),
  ('C17c', 'C17', P + 'cache.py', "  if settings.CACHE_WRITE_STRATEGY == 'max':\n    write_strategy = MaxStrategy", "  if settings.CACHE_WRITE_STRATEGY == 'max':\n    write_strategy = SortedStrategy"),
  ('C17d', 'C17', P + 'cache.py', "        while metric_names:\n          yield metric_names.pop()", "        while metric_names:\n          yield metric_names.pop()\n          if len(metric_names) > 10000:\n            break"),
  ('C18a', 'C18', P + 'util.py', "    return tags.get('name', '') + ''.join(sorted([", "    return tags.get('name', '') + ''.join(([" ),
  ('C18b', 'C18', P + 'cache.py', "    except Exception as err:\n      log.msg('Error parsing metric %s: %s' % (metric, err))\n\n    self.cache.store", "    except ValueError as err:\n      log.msg('Error parsing metric %s: %s' % (metric, err))\n\n    self.cache.store"),
  ('C18c', 'C18', P + 'util.py', "      cls.validateTagAndValue(*tag)\n\n      tags[tag[0]] = tag[1]", "      tags[tag[0]] = tag[1]"),
  ('C19a', 'C19', P + 'writer.py', "          archiveConfig = [archive.getTuple() for archive in schema.archives]\n          break", "          archiveConfig = [archive.getTuple() for archive in schema.archives]"),
  ('C19b', 'C19', P + 'util.py', "  'w': 60 * 60 * 24 * 7,", "  'w': 60 * 60 * 24 * 5,"),
  ('C19c', 'C19', P + 'storage.py', "      schemaList.append(mySchema)\n    except ValueError as e:", "      schemaList.insert(0, mySchema)\n    except ValueError as e:"),
  ('C19d', 'C19', P + 'writer.py', "        state.database.create(metric, archiveConfig, xFilesFactor, aggregationMethod)", "        state.database.create(metric, archiveConfig, aggregationMethod, xFilesFactor)"),
  ('C20a', 'C20', P + 'writer.py', "      UPDATE_BUCKET.drain(1, blocking=True)", "      UPDATE_BUCKET.peek(1)"),
  ('C20b', 'C20', P + 'util.py', "      sleep(time_to_sleep)\n\n    self._tokens -= cost\n    return True", "      sleep(time_to_sleep)\n\n    return True"),
  ('C20c', 'C20', P + 'util.py', "      self._tokens = min(self.capacity, self._tokens + delta)", "      self._tokens = self._tokens + delta"),
  ('C20d', 'C20', P + 'writer.py', "      if CREATE_BUCKET and not CREATE_BUCKET.drain(1):", "      if CREATE_BUCKET and len(cache) < 100 and not CREATE_BUCKET.drain(1):"),
  ('C20e', 'C20', P + 'writer.py', "  fill_rate = float(settings.MAX_CREATES_PER_MINUTE) / 60", "  fill_rate = float(settings.MAX_CREATES_PER_MINUTE)"),
]


def sh(cmd, cwd=None):
  p = subprocess.run(cmd, shell=True, cwd=cwd, stdout=subprocess.PIPE, stderr=subprocess.STDOUT)
  return p.returncode, p.stdout.decode('utf-8', 'replace')


def one(args):
  pid, prop, rel, old, new = args
  import shutil, tempfile
  src_path = os.path.join(REPO, rel)
  src = open(src_path).read()
  if src.count(old) != 1:
    return pid, prop, 'anchor text found %d times - probe skipped' % src.count(old), []
  tmp = tempfile.mkdtemp(prefix='sa-probe-')
  try:
    for sub in ('lib', 'bin'):
      shutil.copytree(os.path.join(REPO, sub), os.path.join(tmp, sub), ignore=shutil.ignore_patterns('__pycache__', 'tests'))
    path = os.path.join(tmp, rel)
    open(path, 'w').write(src.replace(old, new))
    rc, _ = sh('python3 -c "import ast,sys; ast.parse(open(sys.argv[1]).read())" %s' % path)
    rc2, out = sh('python3 -m sa check %s --root %s' % (prop, tmp), cwd='/verif')
    rules = sorted({l.split()[1] for l in out.splitlines() if l.startswith('  lib/') and len(l.split()) > 1})
    status = {0: 'MISSED', 1: 'caught', 2: 'undecided(exit 2)'}.get(rc2, 'exit %d' % rc2)
    if rc != 0:
      status = 'SYNTAX-ERROR in probe'
    return pid, prop, status, rules
  finally:
    shutil.rmtree(tmp, ignore_errors=True)


def main():
  from concurrent.futures import ProcessPoolExecutor
  want = set(a.upper() for a in sys.argv[1:])
  jobs = [p for p in PROBES if not want or p[1] in want or p[0].upper() in want]
  missed = []
  with ProcessPoolExecutor(16) as ex:
    for pid, prop, status, rules in ex.map(one, jobs):
      print('%-5s %-4s %-18s %s' % (pid, prop, status, ' '.join(rules)))
      if status != 'caught':
        missed.append(pid)
  print('%d probes; missed/undecided: %s' % (len(jobs), missed))


if __name__ == '__main__':
  main()
