#!/usr/bin/env python3
"""install_round.py <round> <outdir>: copy every change of that round confirmed in /tmp/mut/confirm_<round>.jsonl into
/verif/seeded/<PROP>-<round><name>/ with a meta.json; which checks report it is filled in afterwards by
`tools/evalall.py seeded --all --write-meta`."""
import json, os, re, shutil, sys
rnd, out = sys.argv[1:3]
for l in open('/tmp/mut/confirm_%s.jsonl' % os.environ.get('CONFIRM_FILE', rnd)):
  conf = json.loads(l)
  if not conf.get('confirmed'):
    print('skipped (not confirmed):', conf['property'], conf['name'])
    continue
  prop, name = conf['property'], conf['name']
  mdir = '/tmp/mut/%s/%s/%s' % (prop, out, name)
  dest = '/verif/seeded/%s-%s%s' % (prop, rnd, name)
  os.makedirs(dest, exist_ok=True)
  for f in ('patch.diff', 'demo.py', 'notes.md'):
    if os.path.exists(os.path.join(mdir, f)):
      shutil.copy(os.path.join(mdir, f), os.path.join(dest, f))
  notes = open(os.path.join(mdir, 'notes.md')).read() if os.path.exists(os.path.join(mdir, 'notes.md')) else ''
  m = re.search(r'(?is)(needs?[^\n]*manifest[^\n]*\n.*?)(\n\n|\Z)', notes)
  first = {p: v for p, v in conf.get('checks', {}).items()}
  meta = dict(
    id=os.path.basename(dest), property=prop, origin='independent sub-agent, given only the property record (round %s)' % rnd,
    breaks=prop, needs_to_manifest=(m.group(1).strip()[:900] if m else notes.strip()[:900]),
    confirmed=dict(suite_with_change=conf['suite'], demo_exit_with_change=conf['demo_with'], demo_exit_without_change=conf['demo_without'],
                   demo_last_line=conf.get('demo_with_tail', ''),
                   how='git apply patch.diff in a scratch worktree of /repo HEAD; pinned pytest command with PYTHONPATH=<worktree>/lib; '
                       '/venv/bin/python demo.py with and without the change; worktree reset afterwards'),
    first_verdict={p: dict(exit=v['exit'], rules=v['rules']) for p, v in first.items()},
    expected={prop: []},
    detected_by={},
  )
  json.dump(meta, open(os.path.join(dest, 'meta.json'), 'w'), indent=1)
  print(dest, meta['first_verdict'])
