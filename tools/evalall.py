#!/usr/bin/env python3
"""Evaluate the checkers against the stored variants, in parallel, on scratch copies of /repo (never /repo itself).

  evalall.py benign [NAME-PREFIX...]   every /verif/benign/<id>/patch.diff: ALL 20 checks must stay silent
  evalall.py seeded [NAME-PREFIX...]   every /verif/seeded/<id>/patch.diff: the property's own check must report

Scratch copies live under a temp dir outside /repo and /verif and are removed.  Output: one line per variant, plus details
for the failures (-v: first lines of each failing report).
"""
import glob
import json
import os
import shutil
import subprocess
import sys
import tempfile
from concurrent.futures import ProcessPoolExecutor

VERIF = os.path.dirname(os.path.dirname(os.path.abspath(__file__)))
sys.path.insert(0, VERIF)
REPO = os.environ.get('SA_REPO_ROOT', '/repo')
PROPS = ['C%02d' % i for i in range(1, 21)]


def scratch(patch):
  tmp = tempfile.mkdtemp(prefix='sa-eval-')
  for sub in ('lib', 'bin', 'conf'):
    src = os.path.join(REPO, sub)
    if os.path.isdir(src):
      shutil.copytree(src, os.path.join(tmp, sub), ignore=shutil.ignore_patterns('__pycache__', '*.pyc', 'tests'))
  p = subprocess.run(['git', 'apply', '--whitespace=nowarn', '--exclude=*/tests/*', patch], cwd=tmp, stdout=subprocess.PIPE,
                     stderr=subprocess.STDOUT)
  if p.returncode != 0:
    shutil.rmtree(tmp, ignore_errors=True)
    return None, p.stdout.decode()[:300]
  return tmp, ''


def run_checks(tmp, pids):
  out = {}
  for pid in pids:
    p = subprocess.run([sys.executable, '-m', 'sa', 'check', pid, '--root', tmp], cwd=VERIF,
                       stdout=subprocess.PIPE, stderr=subprocess.STDOUT)
    txt = p.stdout.decode()
    lines = [l for l in txt.split('\n') if l.startswith('  lib') or l.startswith('  bin') or 'ANALYSIS-ERROR' in l or
             (l.startswith('  ') and not l.startswith('   ') and 'construct:' not in l and 'path:' not in l)]
    rules = sorted({w for l in txt.split('\n') if l.startswith('  lib') or l.startswith('  bin') for w in l.split() if w.startswith('R-')})
    out[pid] = (p.returncode, rules, lines[:12])
  return out


def job(args):
  mode, name, patch, pids = args
  tmp, err = scratch(patch)
  if tmp is None:
    return name, None, err
  try:
    return name, run_checks(tmp, pids), ''
  finally:
    shutil.rmtree(tmp, ignore_errors=True)


def main():
  mode = sys.argv[1]
  verbose = '-v' in sys.argv
  only = None
  for a in sys.argv[2:]:
    if a.startswith('--checks='):
      only = a.split('=', 1)[1].split(',')
  prefixes = [a for a in sys.argv[2:] if not a.startswith('-')]
  jobs = []
  for d in sorted(glob.glob(os.path.join(VERIF, mode.replace('pending', 'benign-pending'), '*'))):
    name = os.path.basename(d)
    patch = os.path.join(d, 'patch.diff')
    if not os.path.isfile(patch) or (prefixes and not any(name.startswith(p) for p in prefixes)):
      continue
    if mode in ('benign', 'pending'):
      pids = only or PROPS
    else:
      meta = json.load(open(os.path.join(d, 'meta.json')))
      pids = sorted(meta.get('expected', {})) or [meta['property']]
      if '--all' in sys.argv:
        pids = PROPS
    jobs.append((mode, name, patch, pids))
  bad = 0
  with ProcessPoolExecutor(16) as ex:
    for name, res, err in ex.map(job, jobs):
      if res is None:
        print('%-22s PATCH DOES NOT APPLY %s' % (name, err.strip().split('\n')[0]))
        continue
      if mode in ('benign', 'pending'):
        noisy = {p: r for p, r in res.items() if r[0] != 0}
        if noisy:
          bad += 1
          print('%-22s NOT SILENT: %s' % (name, '; '.join('%s(%d) %s' % (p, r[0], ','.join(r[1])) for p, r in sorted(noisy.items()))))
          if verbose:
            for p, r in sorted(noisy.items()):
              for l in r[2]:
                print('      ' + l[:250])
        else:
          print('%-22s silent' % name)
      else:
        if '--write-meta' in sys.argv and '--all' in sys.argv:
          mp = os.path.join(VERIF, mode, name, 'meta.json')
          meta = json.load(open(mp))
          meta['detected_by'] = {p: r[1] for p, r in sorted(res.items()) if r[0] == 1}
          own = meta['property']
          exp = meta.setdefault('expected', {})
          if own in meta['detected_by'] and not (set(exp.get(own, [])) & set(meta['detected_by'][own])):
            exp[own] = meta['detected_by'][own]
          with open(mp, 'w') as f:
            json.dump(meta, f, indent=1)
          res = {p: r for p, r in res.items() if p in exp or p == own}
        missed = {p: r for p, r in res.items() if r[0] != 1}
        if missed:
          bad += 1
          print('%-22s MISSED by %s' % (name, ', '.join('%s(exit %d)' % (p, r[0]) for p, r in missed.items())))
          if verbose:
            for p, r in missed.items():
              for l in r[2]:
                print('      ' + l[:250])
        else:
          print('%-22s killed: %s' % (name, '; '.join('%s %s' % (p, ','.join(r[1])) for p, r in sorted(res.items()))))
  print('%s: %d variants, %d %s' % (mode, len(jobs), bad, 'not silent' if mode in ('benign', 'pending') else 'missed'))


if __name__ == '__main__':
  main()
