#!/usr/bin/env python3
"""Regenerate the generated blocks of DESIGN.md (between <!-- BEGIN:name --> / <!-- END:name --> markers)
from evidence/*.json and seeded/*/meta.json."""
import glob
import json
import os
import re

VERIF = os.path.dirname(os.path.dirname(os.path.abspath(__file__)))


def rules_block():
  out = []
  for f in sorted(glob.glob(os.path.join(VERIF, 'evidence', 'C*.json'))):
    ev = json.load(open(f))
    pid = ev['property_id']
    cov = ev['coverage']
    out.append('**%s** - %d rules, %d instances on the current tree (%d functions analysed):\n' % (
      pid, len(cov['rules']), cov['evaluations'], len(cov.get('functions_analysed', []))))
    for r in cov['rules']:
      doc = ' '.join((r.get('doc') or '').split())
      out.append('* `%s` (%d instance%s, min %d) - %s' % (r['rule'], r['instances'], '' if r['instances'] == 1 else 's', r['min'], doc))
    out.append('')
  return '\n'.join(out)


def seeded_block():
  rows = []
  for f in sorted(glob.glob(os.path.join(VERIF, 'seeded', '*', 'meta.json'))):
    m = json.load(open(f))
    det = m.get('detected_by', {})
    own = det.get(m['property'], [])
    others = ', '.join('%s (%s)' % (p, ', '.join(r.replace('R-%s-' % p, '') for r in rs)) for p, rs in sorted(det.items()) if p != m['property'])
    diff = open(os.path.join(os.path.dirname(f), 'patch.diff')).read()
    files = sorted({l[6:].replace('lib/carbon/', '') for l in diff.splitlines() if l.startswith('+++ b/')})
    what = m.get('what') or ' '.join((m.get('needs_to_manifest') or '').split())[:150]
    rows.append('| %s | %s | %s | %s | %s | %s |' % (m['id'], m['property'], ', '.join(files), what.replace('|', '/'),
                                                  ', '.join(own) if own else '**missed**', others or '-'))
  head = '| change | breaks | files | what it needs to manifest (abridged) | reported by (own property) | also reported by |\n|---|---|---|---|---|---|\n'
  return head + '\n'.join(rows) + '\n'


def main():
  p = os.path.join(VERIF, 'DESIGN.md')
  s = open(p).read()
  for name, fn in (('rules', rules_block), ('seeded', seeded_block)):
    pat = re.compile(r'(<!-- BEGIN:%s -->\n).*?(<!-- END:%s -->)' % (name, name), re.S)
    if pat.search(s):
      s = pat.sub(lambda mo: mo.group(1) + fn() + mo.group(2), s)
  open(p, 'w').write(s)


if __name__ == '__main__':
  main()
