#!/bin/bash
# usage: runon.sh <variant dir with patch.diff> <CHECK...> : full report of the checks on a scratch copy of /repo with the patch applied
p=$(realpath "$1")/patch.diff
d=$(mktemp -d /tmp/sa-runon-XXXX); cp -r /repo/lib /repo/bin $d/; (cd $d && git apply --exclude='*/tests/*' --exclude='conf/*' "$p") || exit 3
shift; for c in "$@"; do (cd /verif && python3 -m sa check $c --root $d); done; rm -rf $d
