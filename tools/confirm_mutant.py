#!/usr/bin/env python3
"""Confirm one candidate seeded change:  confirm_mutant.py <worktree> <mutdir> <PROP> <name>
 - applies patch.diff to a clean worktree, runs the pinned suite (must equal the baseline counts),
 - runs demo.py with the change (must fail) and without (must pass),
 - runs the property's static check against the changed tree (records whether it is detected),
and prints one JSON line.  Nothing is written to /repo."""
import json, os, subprocess, sys, re

wt, mdir, prop, name = sys.argv[1:5]
env = dict(os.environ, PYTHONPATH=os.path.join(wt, 'lib'))

def sh(cmd, cwd=None, timeout=900, env=env):
  p = subprocess.run(cmd, shell=True, cwd=cwd, env=env, stdout=subprocess.PIPE, stderr=subprocess.STDOUT, timeout=timeout)
  return p.returncode, p.stdout.decode('utf-8', 'replace')

res = dict(property=prop, name=name, round=os.environ.get('MUT_ROUND', 'r1'))
sh('git checkout -q -- . && git clean -fdq lib', cwd=wt)
rc, out = sh('git apply %s' % os.path.join(mdir, 'patch.diff'), cwd=wt)
res['applies'] = rc == 0
if rc == 0:
  rc, out = sh('/venv/bin/python -m pytest -q -p no:cacheprovider --timeout=900 --continue-on-collection-errors 2>&1 | tail -3', cwd=wt)
  m = re.search(r'(\d+) failed, (\d+) passed.*?(\d+) errors', out)
  res['suite'] = m.group(0) if m else out[-200:]
  res['suite_ok'] = bool(m) and m.group(1) == '2' and m.group(2) == '179' and m.group(3) == '5'
  rc, out = sh('/venv/bin/python %s' % os.path.join(mdir, 'demo.py'), cwd='/tmp', timeout=1200)
  res['demo_with'] = rc
  res['demo_with_tail'] = out.strip().splitlines()[-1][:200] if out.strip() else ''
  checks = {}
  for p in [prop] + sys.argv[5:]:
    rc2, out2 = sh('python3 -m sa check %s --root %s' % (p, wt), cwd='/verif', env=dict(os.environ))
    rules = sorted(set(re.findall(r'\s(R-C\d+[-\w]+)\s+in ', out2)))
    checks[p] = dict(exit=rc2, rules=rules)
  res['checks'] = checks
  sh('git checkout -q -- . && git clean -fdq lib', cwd=wt)
  rc, out = sh('/venv/bin/python %s' % os.path.join(mdir, 'demo.py'), cwd='/tmp', timeout=1200)
  res['demo_without'] = rc
res['confirmed'] = bool(res.get('applies') and res.get('suite_ok') and res.get('demo_with', 0) != 0 and res.get('demo_without', 1) == 0)
print(json.dumps(res))
