#!/bin/bash
# usage: trymut2.sh <PROP> [check-ids...] : apply each round-2 change of PROP (from /tmp/mut/PROP/out2) to the private
# scratch worktree /tmp/eval and run the named checks (default: PROP) against it.
P=$1; shift; CHECKS=${@:-$P}
cd /verif
for m in /tmp/mut/$P/out2/m*; do
  [ -s $m/patch.diff ] || continue
  git -C /tmp/eval checkout -q -- . ; git -C /tmp/eval apply $m/patch.diff || { echo "apply failed $m"; continue; }
  for c in $CHECKS; do
    echo "=== $P/out2/$(basename $m) check $c"; python3 -m sa check $c --root /tmp/eval | grep -E "VIOLATION|ANALYSIS-ERROR|^  lib|violations=" | head -${LINES_MAX:-6}
  done
  git -C /tmp/eval checkout -q -- .
done
