#!/bin/bash
# usage: confirm_round.sh <round> <outdir> <PROP...> : confirm the candidate changes of the given properties (in parallel per property)
R=$1; O=$2; shift 2
for P in "$@"; do
  ( for m in m1 m2; do
      [ -s /tmp/mut/$P/$O/$m/patch.diff ] || { echo "{\"property\": \"$P\", \"name\": \"$m\", \"round\": \"$R\", \"confirmed\": false, \"missing\": true}"; continue; }
      MUT_ROUND=$R python3 /verif/tools/confirm_mutant.py /tmp/mut/$P /tmp/mut/$P/$O/$m $P $m
    done ) >> /tmp/mut/confirm_$R.jsonl &
done
wait
