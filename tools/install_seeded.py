#!/usr/bin/env python3
"""install_seeded.py <worktree> <mutdir> <PROP> <name> <round>: copy a confirmed change into /verif/seeded/<PROP>-<round><name>/
with meta.json, recording which of the 20 checks report it (run against a scratch worktree, never /repo)."""
import json, os, re, shutil, subprocess, sys
wt, mdir, prop, name, rnd = sys.argv[1:6]
conf = None
for l in open('/tmp/mut/confirm.jsonl'):
  r = json.loads(l)
  if r['property'] == prop and r['name'] == name and r.get('round', 'r1') == rnd:
    conf = r
assert conf and conf['confirmed'], (prop, name)
def sh(cmd, cwd=None):
  p = subprocess.run(cmd, shell=True, cwd=cwd, stdout=subprocess.PIPE, stderr=subprocess.STDOUT)
  return p.returncode, p.stdout.decode('utf-8', 'replace')
sh('git checkout -q -- . && git clean -fdq lib', cwd=wt)
rc, out = sh('git apply %s' % os.path.join(mdir, 'patch.diff'), cwd=wt)
assert rc == 0, out
detected = {}
for i in range(1, 21):
  p = 'C%02d' % i
  rc2, out2 = sh('python3 -m sa check %s --root %s' % (p, wt), cwd='/verif')
  rules = sorted(set(re.findall(r'\s(R-C\d+[-\w]+)\s+in ', out2)))
  if rc2 == 1:
    detected[p] = rules
  elif rc2 == 2:
    detected[p] = ['ANALYSIS-ERROR'] + rules
sh('git checkout -q -- . && git clean -fdq lib', cwd=wt)
dest = '/verif/seeded/%s-%s%s' % (prop, rnd, name)
os.makedirs(dest, exist_ok=True)
for f in ('patch.diff', 'demo.py', 'notes.md'):
  if os.path.exists(os.path.join(mdir, f)):
    shutil.copy(os.path.join(mdir, f), os.path.join(dest, f))
notes = open(os.path.join(mdir, 'notes.md')).read() if os.path.exists(os.path.join(mdir, 'notes.md')) else ''
needs = ''
m = re.search(r'(?is)(needs?[^\n]*manifest[^\n]*\n.*?)(\n\n|\Z)', notes)
meta = dict(
  id=os.path.basename(dest), property=prop, origin='independent sub-agent, given only the property record (round %s)' % rnd,
  breaks=prop, needs_to_manifest=(m.group(1).strip()[:900] if m else notes.strip()[:900]),
  confirmed=dict(suite_with_change=conf['suite'], demo_exit_with_change=conf['demo_with'], demo_exit_without_change=conf['demo_without'],
                 demo_last_line=conf.get('demo_with_tail', ''),
                 how='git apply patch.diff in a scratch worktree of /repo HEAD; pinned pytest command with PYTHONPATH=<worktree>/lib; '
                     '/venv/bin/python demo.py with and without the change; worktree reset afterwards'),
  expected={prop: detected.get(prop, [])},
  detected_by=detected,
)
json.dump(meta, open(os.path.join(dest, 'meta.json'), 'w'), indent=1)
print(dest, detected)
