#!/bin/bash
# usage: tryben.sh <PROP> : apply each benign refactoring of PROP (from /tmp/ben/PROP/out) to /tmp/eval and run ALL 20 checks;
# every check must stay exit 0 (a refactoring touches code shared by several properties).
P=$1
cd /verif
for b in /tmp/ben/$P/out/b*; do
  [ -s $b/patch.diff ] || continue
  git -C /tmp/eval checkout -q -- . ; git -C /tmp/eval apply $b/patch.diff || { echo "apply failed $b"; continue; }
  echo "=== $P/$(basename $b)"
  for i in $(seq -w 1 20); do
    out=$(python3 -m sa check C$i --root /tmp/eval 2>&1); rc=$?
    if [ $rc -ne 0 ]; then echo "  C$i exit=$rc"; echo "$out" | grep -E "VIOLATION|ANALYSIS-ERROR|^  lib|^  [a-z]" | head -${LINES_MAX:-8} | cut -c1-260; fi
  done
  git -C /tmp/eval checkout -q -- .
done
