#!/usr/bin/env python3
"""shownorm.py <benign-or-seeded-dir | root> <module> <qualname>: print the normalised (helpers spliced in) body of a function."""
import ast, os, shutil, subprocess, sys, tempfile
VERIF = os.path.dirname(os.path.dirname(os.path.abspath(__file__)))
sys.path.insert(0, VERIF)
from sa.inline import load_program
src, mod, q = sys.argv[1:4]
tmp = None
if os.path.isfile(os.path.join(src, 'patch.diff')):
  tmp = tempfile.mkdtemp(prefix='sa-show-')
  for sub in ('lib', 'bin'):
    shutil.copytree(os.path.join('/repo', sub), os.path.join(tmp, sub), ignore=shutil.ignore_patterns('__pycache__', 'tests'))
  subprocess.run(['git', 'apply', '--exclude=*/tests/*', os.path.join(os.path.abspath(src), 'patch.diff')], cwd=tmp, check=True)
  root = tmp
else:
  root = src
try:
  repo, T = load_program(root=root)
  f = repo.func(mod, q)
  print('# inlined_from:', f.inlined_from)
  print(ast.unparse(f.node))
finally:
  if tmp:
    shutil.rmtree(tmp, ignore_errors=True)
