#!/bin/bash
# usage: trymut.sh <PROP> [check-ids...]  : run checks on HEAD, /tmp/orig and each agent mutant of PROP
P=$1; shift; CHECKS=${@:-$P}
cd /verif
for m in /tmp/mut/$P/out/m*; do
  [ -f $m/patch.diff ] || continue
  git -C /tmp/mut/$P checkout -q -- . ; git -C /tmp/mut/$P apply $m/patch.diff || { echo "apply failed $m"; continue; }
  for c in $CHECKS; do
    echo "=== $P/$(basename $m) check $c"; python3 -m sa check $c --root /tmp/mut/$P | grep -E "VIOLATION|ANALYSIS-ERROR|^  lib|violations=" | head -8
  done
  git -C /tmp/mut/$P checkout -q -- .
done
