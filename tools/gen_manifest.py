#!/usr/bin/env python3
"""Regenerate /verif/MANIFEST.json from the table below + which sa/props modules exist."""
import json
import os
import subprocess

VERIF = os.path.dirname(os.path.dirname(os.path.abspath(__file__)))

# id -> (technique, level text, level note, design ref)
TABLE = {
  'C01': ('symbolic field-routing + CFG dispatch count + MRO/ownership (static)',
          'Static: one dispatch per parsed item in wire order on every CFG path; decoder field routing is the inverse '
          'of the client encoder; receivers keep no per-connection parse state and leave framing to Twisted. '
          'Decides these structural clauses for every input/segmentation; not float() exactness.',
          'trusts Twisted LineOnlyReceiver/Int32StringReceiver framing and CPython float()', '3/C01'),
  'C02': ('lockset + per-critical-section size-delta + ownership/escape analysis (static)',
          'Static inductive-invariant argument: every mutation of cache state holds the one lock, size delta equals '
          'key delta in each critical section, pop hands out the whole removed dict sorted, no alias of a per-metric '
          'dict is used outside the critical section that looked it up. Covers every interleaving; not returned values.',
          'trusts CPython dict/GIL atomicity and threading.Lock', '3/C02'),
  'C03': ('CFG typestate with exception edges + reaching definitions (static)',
          'Static typestate over the drained batch on every CFG path of the writer, including the exception edge out '
          'of every call: exactly one of written / dropped-counted / error-reported; own metric; exists-first. '
          'Covers every fault sequence because faults are those edges; not that the backend persisted.',
          'trusts the storage backend and CPython exception semantics', '3/C03'),
  'C04': ('CFG must-pass-through (static)',
          'Static must-pass: after every read of reactor.running (wherever the stop can be observed) the writer passes a drain '
          'before it returns (infeasible paths pruned on constants); the drain loop only exits on an empty cache; the shutdown trigger is registered and zeroes the '
          'lag on every path. Covers every stop moment relative to the loop; not Twisted shutdown ordering.',
          'trusts Twisted to join the thread pool and run before-shutdown triggers', '3/C04'),
  'C05': ('yield-pair dedup discipline on the CFG + dataflow on yielded tuples + effect purity (static)',
          'Static: every pair of yields on a path is separated by the seen-set discipline, ports come from the '
          'configured map, the replication cut-off is on every yield-to-yield path and counts what the property '
          'counts, routing is pure. Not the cardinality arithmetic.',
          'index arithmetic of FastHashRing and mmh3 are outside the claim', '3/C05'),
  'C06': ('dependence analysis + who-may-write ownership + symbolic replica-key terms (static)',
          'Static: ring mutated only by local insert/filter of the affected node; ring position depends only on '
          '(node, replica index, hash type); replica-key templates and hash parameters equal the published ones. '
          'One known finding (collision bump makes positions history dependent).',
          'hash values themselves are not computed', '3/C06'),
  'C07': ('who-may-mutate ownership + CFG dominance/must-pass + batch-builder shape analysis (static)',
          'Static: queue touched only through FIFO operations in their owners, popped batch is sent whole, enqueue '
          'bounded by the hard limit, drops counted, re-injection covers the whole queue before clear, stop only '
          'after empty; sends go through the live connection.',
          'trusts Twisted transports/timers', '3/C07'),
  'C08': ('ownership + CFG dominance + regex-AST inspection (static)',
          'Static: interval values only grow and are aggregated whole from the live buffer table; re-emit only after '
          'new input; prune/release on every flush; pass-through once, unchanged, guarded; <field> excludes dots; '
          'anchored match. Not the aggregate arithmetic.',
          'trusts LoopingCall timing and the aggregation functions', '3/C08'),
  'C09': ('CFG pairing/must-pass + stale-snapshot dataflow + handler registry (static)',
          'Static: every shrink of a buffer is followed by a fresh watermark check; state that records "full" is only '
          'reset by the space path; full-signal raised inside the critical section that observed it; pause/resume '
          'registered in pairs; dispatch over a snapshot. Not liveness over timers.',
          'trusts Twisted transport pause/resume', '3/C09'),
  'C10': ('lockset + CFG dominance + constant folding (static)',
          'Static inductive bound: the only size increment is dominated by a not-full test in the same critical '
          'section; limits derived as stated; refusal signals once and mutates nothing.',
          'trusts threading.Lock', '3/C10'),
  'C11': ('exception-effect analysis with wire-taint kinds (static)',
          'Static: abstract interpretation of the three receiver callbacks with taint-typed wire values and a '
          'may-raise table; nothing input-caused escapes, per-item isolation in loops, no close from handlers.',
          'may-raise table = documented CPython behaviour; exceptions not caused by input are out of scope', '3/C11'),
  'C12': ('CFG guard classification + reaching definitions + who-may-call (static)',
          'Static: every drop path of metricReceived is under one of the classified guards; only the two '
          'normalisations redefine the datapoint, in the stated order; single gate for all listeners; list '
          'semantics = any-pattern search.',
          'regex semantics are trusted', '3/C12'),
  'C13': ('who-may-call + CFG dominance + literal allow-list (static)',
          'Static: single door to unpickling; every global returned only past both allow-list membership checks on '
          'the exact (module, name); allow-list literal, frozen and a subset of the documented one.',
          'trusts CPython pickle to route every global through find_class', '3/C13'),
  'C14': ('taint to filesystem sinks + symbolic path-shape terms (static)',
          'Static: every filesystem sink is reached only through encode() + join(data_dir, ...); no dot segment or '
          'leading separator survives encode(); nothing rewrites the encoded path afterwards.',
          'Ceres path mapping is external', '3/C14'),
  'C15': ('symbolic encoder/decoder term agreement + batch-builder shape analysis (static)',
          'Static: encoder and decoder agree on field positions; float spec is fixed-point with precision >= 10 on '
          'every branch; one independent frame per batch; batches popped in order.',
          'numeric round-trip of float() is not decided', '3/C15'),
  'C16': ('CFG must-pass + reaching definitions + load-order dataflow (static)',
          'Static: first match then stop unless continue; only configured destinations; rules in file order with '
          'per-section state; every aggregate of a metric is hashed and all its replicas are returned.',
          'regex semantics are trusted', '3/C16'),
  'C17': ('atomicity (one critical section) + generator pass-shape analysis + tuple-layout agreement (static)',
          'Static: a drain chooses and removes in one critical section; no empty entry can exist; generator '
          'strategies take full snapshots and drain them completely; lag filter reads the min; bucket bookkeeping '
          'written only by store/choose.',
          'which metric is "max" is a value question', '3/C17'),
  'C18': ('order-erasure dataflow + CFG exception fallback (static)',
          'Static: tag order is erased by sorting before formatting; both parsers set the name last and validate '
          'every tag; processors parse unconditionally inside a try whose handler keeps the raw name.',
          'idempotence as a string function is not decided', '3/C18'),
  'C19': ('path-sensitive first-match / argument-routing terms + load-order dataflow + constant folding of unit table (static)',
          'Static: schema loops break on first match; sections appended in file order from a per-read list; create() '
          'arguments routed from the right loops; unit multipliers folded; duration divided by scaled precision.',
          'regex semantics and int parsing are trusted', '3/C19'),
  'C20': ('CFG must-pass gate + who-may-write + per-path refill discipline (static)',
          'Static: every write/create is gated by its bucket object (never rebound); every refill path caps at '
          'capacity and advances the clock; cost charged once per grant.',
          'window and waiting-time bounds are arithmetic over clocks: not decided', '3/C20'),
}


def main():
  checks = []
  na = []
  for pid in sorted(TABLE):
    tech, text, note, ref = TABLE[pid]
    if os.path.exists(os.path.join(VERIF, 'sa', 'props', pid.lower() + '.py')):
      checks.append(dict(
        property_id=pid,
        quick_cmd='python3 -m sa check %s --tier quick' % pid,
        thorough_cmd='python3 -m sa check %s --tier thorough' % pid,
        evidence_file='evidence/%s.json' % pid,
        replay_cmd_template='python3 -m sa replay {path}',
        engine='sa',
        level_claimed=dict(category='other', text=text, design_ref='DESIGN.md section ' + ref),
        level_note=note,
        technique=tech,
      ))
    else:
      na.append(dict(property_id=pid, reason='checker not built yet in this round (planned: %s)' % tech))
  hooks_commits = []
  manifest = dict(
    version=1,
    setup_cmd='python3 -m sa --version',
    hooks=dict(
      guard='GRAPHITE_PROJECT_CARBON_VERIF',
      enable='none needed: the checks parse /repo, nothing is instrumented or executed',
      baseline_off_cmd='cd /repo && /venv/bin/python -m pytest -ra -q -p no:cacheprovider --timeout=900 '
                       '--continue-on-collection-errors',
      source_commits=hooks_commits,
      add_only=True,
    ),
    engines=[dict(name='sa', path='sa/', serves_properties=[c['property_id'] for c in checks],
                  kind_free_text='repository-specific static analyser: ast program model, whole-program normalisation '
                                 '(helpers, generators, flags, dispatch tables and template methods spliced into their callers), '
                                 'type-based call resolution, CFG with exception edges, reachability-after-removal queries, '
                                 'path-sensitive propagation of shape terms, reaching definitions / value numbers, '
                                 'exception-effect/taint analysis, lockset model')],
    checks=checks,
    notes='All checks are static analysis of /repo\'s current working tree (python3 -m sa). Exit 0 holds / 1 '
          'VIOLATION / 2 ANALYSIS-ERROR. Genuine defects found were repaired in /repo as "fix:" commits and are '
          'listed in known_findings.txt (fixed: lines); one known finding (C06) remains. The thorough tier re-runs each check on '
          'scratch copies with every stored seeded change (must be reported) and every stored refactoring (must stay silent).',
    not_applicable=na,
  )
  with open(os.path.join(VERIF, 'MANIFEST.json'), 'w') as f:
    json.dump(manifest, f, indent=1)
  print('claimed: %s' % ' '.join(c['property_id'] for c in checks))
  print('not_applicable: %s' % ' '.join(n['property_id'] for n in na))


if __name__ == '__main__':
  main()
