"""Rule results, known findings, evidence files, exit codes (DESIGN 1.2, 2.7, 2.8, 5)."""
import hashlib
import json
import os
import re
import time
import traceback

from .model import AnalysisError, norm

VERIF = os.path.dirname(os.path.dirname(os.path.abspath(__file__)))
KNOWN_FILE = os.path.join(VERIF, 'known_findings.txt')
EVIDENCE_DIR = os.path.join(VERIF, 'evidence')
REPORT_DIR = os.path.join(VERIF, 'reports')


class Violation(object):
  def __init__(self, pid, rule, fn_key, construct, message, loc, path=None):
    self.pid = pid
    self.rule = rule
    self.fn_key = fn_key
    self.construct = ' '.join(str(construct).split())
    self.message = message
    self.loc = loc
    self.path = path
    self.known = None

  @property
  def key(self):
    return 'rule=%s construct=%s::%s' % (self.rule, self.fn_key, self.construct)

  def to_json(self):
    return dict(property=self.pid, rule=self.rule, function=self.fn_key, construct=self.construct,
                message=self.message, location=self.loc, path=self.path, key=self.key)


class Rule(object):
  """One rule of one property: collects instances (obligations) and their verdicts."""

  def __init__(self, check, name, minimum=1, doc=''):
    self.check = check
    self.name = name
    self.minimum = minimum
    self.doc = doc
    self.instances = []       # dict(instance, loc, verdict, detail)
    self.undecided = []

  def ok(self, instance, loc='', detail=''):
    self.instances.append(dict(instance=instance, loc=loc, verdict='holds', detail=detail))

  def violate(self, instance, fn, node, message, path=None, construct=None):
    """fn: FunctionInfo (or key string); node: ast node of the offending construct."""
    fn_key = fn if isinstance(fn, str) else fn.key
    loc = ''
    if node is not None and not isinstance(fn, str):
      loc = fn.loc(node)
    elif not isinstance(fn, str):
      loc = fn.loc()
    if construct is None:
      construct = norm(node) if node is not None else instance
    v = Violation(self.check.pid, self.name, fn_key, construct, message, loc, path)
    self.check.violations.append(v)
    self.instances.append(dict(instance=instance, loc=loc, verdict='VIOLATED', detail=message))
    return v

  def cannot_decide(self, message):
    self.undecided.append(message)

  def require(self, cond, message):
    if not cond:
      self.cannot_decide(message)
    return cond

  def summary(self):
    held = sum(1 for i in self.instances if i['verdict'] == 'holds')
    bad = sum(1 for i in self.instances if i['verdict'] == 'VIOLATED')
    return dict(rule=self.name, doc=self.doc, instances=len(self.instances), min=self.minimum,
                held=held, violated=bad, undecided=list(self.undecided))


def load_known():
  known, fixed = [], []
  if not os.path.exists(KNOWN_FILE):
    return known, fixed
  with open(KNOWN_FILE) as f:
    for line in f:
      line = line.strip()
      if not line or line.startswith('#'):
        continue
      if line.startswith('known:'):
        m = re.match(r'known:\s+property=(\S+)\s+(rule=\S+ construct=.*?)\s+::\s+(.*)$', line)
        if m:
          known.append(dict(property=m.group(1), key=' '.join(m.group(2).split()), text=m.group(3)))
      elif line.startswith('fixed:'):
        fixed.append(line)
  return known, fixed


class Check(object):
  """Context of one property check run."""

  def __init__(self, pid, tier, repo, types):
    self.pid = pid
    self.tier = tier
    self.repo = repo
    self.types = types
    self.rules = []
    self.violations = []
    self.notes = []
    self.explanation = ''
    self.trusted_base = []
    self.assumptions = []
    self.not_decided = []
    self.functions_analysed = set()
    self.extra = {}

  def rule(self, name, minimum=1, doc=''):
    r = Rule(self, name, minimum, doc)
    self.rules.append(r)
    return r

  def analysed(self, *fns):
    for f in fns:
      self.functions_analysed.add(f.key if hasattr(f, 'key') else str(f))


def run_check(pid, tier, prop_module, repo_factory, quiet=False, write_evidence=True, selftest=None):
  """Run one property's rules; returns (exit_code, evidence dict, lines)."""
  t0 = time.time()
  lines = []
  errors = []
  check = None
  try:
    repo, types = repo_factory()
    check = Check(pid, tier, repo, types)
    prop_module.run(check)
  except AnalysisError as e:
    errors.append('%s' % e)
  except Exception as e:  # internal error: never a VIOLATION
    errors.append('internal error: %s: %s\n%s' % (type(e).__name__, e, traceback.format_exc(limit=6)))
  known, _fixed = load_known()
  known_for = [k for k in known if k['property'] == pid]
  unlisted = []
  rule_summaries = []
  samples = []
  if check is not None:
    for r in check.rules:
      s = r.summary()
      rule_summaries.append(s)
      if r.undecided:
        for u in r.undecided:
          errors.append('%s: %s' % (r.name, u))
      if len(r.instances) < r.minimum:
        errors.append('%s: matched %d instance(s), fewer than the %d confirmed by hand '
                      '(an anchor vanished or an idiom is no longer recognised)' % (
                        r.name, len(r.instances), r.minimum))
      for inst in r.instances[:6]:
        samples.append(dict(rule=r.name, instance=inst['instance'], loc=inst['loc'],
                            verdict=inst['verdict'], detail=inst['detail'][:300]))
    seen_keys = set()
    uniq = []
    for v in check.violations:
      if v.key in seen_keys:
        continue
      seen_keys.add(v.key)
      uniq.append(v)
    check.violations = uniq
    for v in check.violations:
      for k in known_for:
        if k['key'] == v.key:
          v.known = k
          break
      if v.known is None:
        unlisted.append(v)
  selftest_result = None
  if selftest is not None and check is not None and not errors:
    try:
      selftest_result = selftest(check)
      for f in selftest_result.get('failures', []):
        errors.append('self-test: %s' % f)
    except Exception as e:
      errors.append('self-test crashed: %s: %s' % (type(e).__name__, e))
  # ---- output
  if check is not None:
    for v in check.violations:
      if v.known is not None:
        lines.append('KNOWN-FINDING: property=%s %s [%s at %s]' % (pid, v.known['text'], v.rule, v.loc))
  report_paths = []
  if unlisted:
    os.makedirs(REPORT_DIR, exist_ok=True)
    for v in unlisted:
      h = hashlib.sha256(v.key.encode()).hexdigest()[:10]
      path = os.path.join(REPORT_DIR, '%s-%s.json' % (pid, h))
      with open(path, 'w') as f:
        json.dump(dict(v.to_json(), rerun='python3 -m sa check %s --tier %s' % (pid, tier)), f, indent=1)
      report_paths.append(path)
      lines.append('VIOLATION property=%s replay=%s' % (pid, path))
      lines.append('  %s  %s  in %s' % (v.loc, v.rule, v.fn_key))
      lines.append('  construct: %s' % v.construct)
      lines.append('  %s' % v.message)
      if v.path:
        lines.append('  path: %s' % v.path)
  for e in errors:
    lines.append('ANALYSIS-ERROR property=%s %s' % (pid, e))
  if unlisted:
    code = 1
  elif errors:
    code = 2
  else:
    code = 0
  wall = time.time() - t0
  n_inst = sum(s['instances'] for s in rule_summaries)
  n_held = sum(s['held'] for s in rule_summaries)
  distinct = len({(s['rule'], i['instance'], i['loc']) for s, r in zip(rule_summaries, check.rules if check else [])
                  for i in r.instances}) if check else 0
  evidence = dict(
    property_id=pid,
    tier=tier,
    seed=int(os.environ.get('VERIF_SEED', '0') or 0),
    level='other',
    coverage=dict(
      explanation=(check.explanation if check else '') or 'static analysis of the current source tree',
      rule='each case is one rule instance: a construct (call site, path, assignment, yield pair ...) of the '
           'current source on which a rule of this property is instantiated; distinct = distinct '
           '(rule, instance, location) triples',
      evaluations=n_inst,
      distinct_nontrivial=distinct,
      obligations=n_inst,
      discharged=n_held,
      rules=rule_summaries,
      samples=samples or [dict(note='no instance evaluated')],
      not_decided=(check.not_decided if check else []),
      units=len(check.repo.modules) if check else 0,
      functions_analysed=sorted(check.functions_analysed) if check else [],
      repo_root=check.repo.root if check else '',
      source_digest=check.repo.digest() if check else '',
      trusted_base=(check.trusted_base if check else []),
      known_findings=[v.key for v in (check.violations if check else []) if v.known is not None],
      unlisted_violations=[v.to_json() for v in unlisted],
      analysis_errors=errors,
      notes=(check.notes if check else []),
      selftest=selftest_result,
      exit_code=code,
    ),
    assumptions=(check.assumptions if check else []),
    wall_s=round(wall, 3),
    violations=len(unlisted),
  )
  if check is not None and check.extra:
    evidence['coverage'].update(check.extra)
  if write_evidence:
    os.makedirs(EVIDENCE_DIR, exist_ok=True)
    with open(os.path.join(EVIDENCE_DIR, '%s.json' % pid), 'w') as f:
      json.dump(evidence, f, indent=1, sort_keys=True)
  if not quiet:
    head = '%s [%s] rules=%d instances=%d held=%d violations=%d known=%d errors=%d wall=%.2fs' % (
      pid, tier, len(rule_summaries), n_inst, n_held, len(unlisted),
      len([v for v in (check.violations if check else []) if v.known is not None]), len(errors), wall)
    print(head)
    for s in rule_summaries:
      print('  %-28s instances=%-3d held=%-3d violated=%-2d %s' % (
        s['rule'], s['instances'], s['held'], s['violated'], '(undecided)' if s['undecided'] else ''))
    if selftest_result:
      st = selftest_result
      print('  self-test: %d/%d seeded changes reported (%d not applicable), %d/%d stored refactorings silent, %d/%d generated '
            'overlays silent' % (st.get('seeded_killed', 0), st.get('seeded_total', 0) - st.get('seeded_not_applicable', 0),
                                 st.get('seeded_not_applicable', 0), st.get('refactorings_silent', 0), st.get('refactorings_total', 0),
                                 st.get('benign_silent', 0), st.get('benign_total', 0)))
    for ln in lines:
      print(ln)
  return code, evidence, lines
