"""AST-level inlining of repository helpers into the functions a rule is anchored in.

"Extract method" is the most common behaviour-preserving refactoring; rules
that look at one function's CFG would lose sight of the statements that moved
into a helper.  ``Inliner.inline(fn)`` returns a synthetic FunctionInfo whose
body has the calls to *simple, type-resolved, non-generator* helpers of the
same module replaced by the helper's (renamed) body, so that every rule sees
one function again - including lexical facts such as "inside ``with self.lock``".

Supported call positions: expression statement, right-hand side of an
assignment / return, the test of ``if`` / ``while`` when the call is evaluated
first, and calls nested in the expression of such a statement as long as
nothing impure is evaluated before them.  Helpers whose ``return`` statements
can be put in tail position (guard clauses, ``try ... except: return`` followed by
more code, an ``if`` that returns on some paths only) are spliced structurally,
duplicating at most MAX_DUP trailing statements; helpers that return from inside
their own loops, generators, and recursive or variadic helpers are left as calls.
"""
import ast
import copy

from .model import FunctionInfo, set_parents, walk_no_nested, dotted

PURE_BUILTINS = {'len', 'int', 'float', 'str', 'repr', 'bool', 'isinstance', 'tuple', 'list', 'dict', 'set', 'min', 'max',
                 'sorted', 'abs', 'round', 'range', 'enumerate', 'zip', 'getattr', 'hasattr', 'type', 'id'}
MAX_BODY = 60
MAX_DUP = 10      # statements that may be duplicated when a helper's `if` returns on some paths only

# Functions that rules are anchored in (or that are part of carbon's API): they are analysed in their own right and are
# never spliced into their callers.  Everything else that is simple enough counts as a helper.
NEVER_INLINE = frozenset("""
MetricCache __bool__ __call__ __contains__ __init__ __nonzero__ _check_available_space _getFilesystemPath _hash
_sendDatapointsNow _update_nodes add_node build_regex carbonHash checkQueue choose_item clear compactHash
compute_ring_position compute_value connectionLost connectionMade create createBaseService destinationDown destinationUp
disconnect drain drain_metric encode find_class format fromString getDestinations getFilesystemPath getTuple
get_aggregate_metric get_node get_nodes get_unpickler input loadAggregationSchemas loadRelayRules loadStorageSchemas loads
matches metricReceived parse parseRetentionDef parse_carbon parse_openmetrics path pauseReceiving process read read_list
reinjectDatapoints remove_node resumeReceiving scheduleSend sections sendDatapoint sendDatapointsNow sendQueued
setCapacityAndFillRate startService store stringReceived takeSomeFromQueue validateTagAndValue watermarks counts
writeCachedDataPoints writeForever lineReceived datagramReceived queueFullCallback queueSpaceCallback
shutdownModifyUpdateSpeed enqueue enqueue_from_left checkQueueSpace peek pop addDestination removeDestination
hasDestination countDestinations fnv32a sendHighPriorityDatapoint stopConnecting startConnecting mark_inactive get_buffer
configure_aggregation close build_template run_pipeline run_pipeline_generated addHandler removeHandler exists write
getMetadata setMetadata tag increment append max getKey writeTags writeTagsForever reloadStorageSchemas
reloadAggregationSchemas buildProtocol clientConnectionMade clientConnectionLost clientConnectionFailed startClient
stopClient getFactories getDestinations sendDatapoint read_from read_rules parse_definition decode
sanitize_name_as_tag_value setupPipeline setupRelayProcessor setupWriterProcessor setupAggregatorProcessor
setupRewriterProcessor setupReceivers readFrom recordMetrics clientConnectionMade test mark_inactive
""".split())


class Inliner(object):
  def __init__(self, cx, max_depth=3):
    self.cx = cx
    self.repo = cx.repo
    self.T = cx.types
    self.max_depth = max_depth
    self._k = 0
    self._cache = {}

  # ------------------------------------------------------------------ public
  def inline(self, fn):
    key = (fn.key, fn.variant)
    if key in self._cache:
      return self._cache[key]
    if isinstance(fn.node, ast.Lambda):
      self._cache[key] = fn
      return fn
    saved_parent = getattr(fn.node, '_parent', None)
    fn.node._parent = None
    try:
      node = copy.deepcopy(fn.node)
    finally:
      fn.node._parent = saved_parent
    inlined = []
    try:
      node.body = self._block(node.body, fn, [fn.key], inlined, 0)
    except RecursionError:  # pragma: no cover
      self._cache[key] = fn
      return fn
    if not inlined:
      self._cache[key] = fn
      return fn
    ast.fix_missing_locations(node)
    set_parents(node)
    node._parent = getattr(fn.node, '_parent', None)
    out = FunctionInfo(fn.module, fn.qualname, node, fn.cls, fn.parent_fn, fn.variant, fn.guard)
    out.inlined_from = inlined
    out.original = fn
    self._cache[key] = out
    return out

  def normalise_module(self, module):
    """a copy of the module's tree in which every function (nested ones included) has its helpers spliced in;
    None when nothing changed."""
    cands = {f.name for f in module.all_functions() if f.name not in NEVER_INLINE and not isinstance(f.node, ast.Lambda)}
    hit = False
    for x in ast.walk(module.tree):
      if isinstance(x, ast.Call):
        f = x.func
        if (isinstance(f, ast.Name) and f.id in cands) or (isinstance(f, ast.Attribute) and f.attr in cands and
                                                             isinstance(f.value, ast.Name)):
          hit = True
          break
      elif isinstance(x, ast.For) and isinstance(x.target, (ast.Tuple, ast.List)) and isinstance(x.iter, (ast.Name, ast.Tuple, ast.List)):
        hit = True           # possibly a loop over a literal table (see _unroll_literal_loops)
        break
      elif isinstance(x, ast.YieldFrom):
        hit = True           # desugared to a loop (_desugar_yield_from)
        break
      elif isinstance(x, ast.Call) and isinstance(x.func, ast.Subscript) and isinstance(x.func.value, ast.Name) and \
          any(isinstance(v, ast.Dict) for v in module.globals.get(x.func.value.id, [])):
        hit = True
        break
      elif isinstance(x, ast.Call) and isinstance(x.func, ast.Attribute) and x.func.attr == 'get' and isinstance(x.func.value, ast.Name) and \
          any(isinstance(v, ast.Dict) for v in module.globals.get(x.func.value.id, [])):
        hit = True           # possibly a dispatch table (_expand_dispatch)
        break
      elif isinstance(x, ast.If):
        names = [y for y in ast.walk(x.test) if isinstance(y, ast.Name)]
        if names and isinstance(x.test, (ast.Name, ast.UnaryOp, ast.BoolOp)):
          hit = True         # possibly a flag test (see _subst_flags)
          break
      elif isinstance(x, ast.Assign) and len(x.targets) == 1 and isinstance(x.targets[0], ast.Name) and \
          isinstance(x.value, (ast.Attribute, ast.Name)):
        hit = True           # possibly a hoisted look-up (see _unalias_locals)
        break
    consts = _module_constants(module)
    if consts or any(isinstance(d, (ast.FunctionDef, ast.AsyncFunctionDef)) and (d.args.defaults or d.args.kw_defaults) for d in ast.walk(module.tree)):
      hit = True
    if not hit:
      return None
    tree = copy.deepcopy(module.tree)
    for x in ast.walk(tree):
      if hasattr(x, '_parent'):
        del x._parent
    self._module = module
    changed = [False]
    if _inline_constants(tree, consts, self._program_facts()):
      changed[0] = True
    if _bind_unpassed_defaults(tree, self._call_shapes()):
      changed[0] = True

    def visit(stmts):
      for s in stmts:
        if isinstance(s, (ast.FunctionDef, ast.AsyncFunctionDef)):
          if self._def(s):
            changed[0] = True
        elif isinstance(s, ast.ClassDef):
          visit(s.body)
        else:
          for field in ('body', 'orelse', 'finalbody'):
            if isinstance(getattr(s, field, None), list):
              visit(getattr(s, field))
          if isinstance(s, ast.Try):
            for h in s.handlers:
              visit(h.body)
    visit(tree.body)
    if self._module_level(tree):
      changed[0] = True
    un = _unroll_literal_loops(tree.body, module)
    if un is not None:
      tree.body = un
      changed[0] = True
    pend = getattr(self, '_pending_imports', {}).get(module.relpath)
    if pend and changed[0]:
      at = 0
      while at < len(tree.body) and ((isinstance(tree.body[at], ast.Expr) and isinstance(tree.body[at].value, ast.Constant)) or
                                     (isinstance(tree.body[at], ast.ImportFrom) and tree.body[at].module == '__future__')):
        at += 1
      new_imports = []
      for alias, b in sorted(pend.items()):
        if b[0] == 'module':
          st = ast.Import(names=[ast.alias(name=b[1], asname=alias if alias != b[1].split('.')[0] else None)])
        else:
          st = ast.ImportFrom(module=b[1], names=[ast.alias(name=b[2], asname=alias if alias != b[2] else None)], level=0)
        st.lineno = st.end_lineno = 1
        st.col_offset = st.end_col_offset = 0
        st._synthetic_import = True
        new_imports.append(st)
      tree.body[at:at] = new_imports
    return tree if changed[0] else None

  def _module_level(self, tree):
    """splice same-module helpers into the statements of the module body itself (`BUCKET = _make(settings.X, 60)`):
    rules about module-level configuration read the spliced form.  Names of the helper's locals are renamed apart
    from the module's globals."""
    module = self._module
    top = {x.id for st in tree.body if not isinstance(st, (ast.FunctionDef, ast.AsyncFunctionDef, ast.ClassDef))
           for x in ast.walk(st) if isinstance(x, ast.Name)}
    cands = {f.name for f in module.all_functions() if f.cls is None and f.parent_fn is None and f.name not in NEVER_INLINE}
    if not (top & cands):
      return False
    import types as _t
    pseudo = _t.SimpleNamespace(module=module, key=module.name + ':<module>', qualname='<module>', name='<module>', cls=None,
                                parent_fn=None, variant=0, guard=None, params=[], node=tree, original=None, decorators=[],
                                is_property=False, is_staticmethod=False, body=tree.body)
    inlined = []
    outer = getattr(self, '_cur_locals', None)
    self._cur_locals = set(module.globals) | top
    out, run = [], []
    try:
      def flush():
        if run:
          try:
            out.extend(self._block(list(run), pseudo, [pseudo.key], inlined, 1))
          except Exception:
            out.extend(run)
          del run[:]
      for st in tree.body:
        if isinstance(st, (ast.FunctionDef, ast.AsyncFunctionDef, ast.ClassDef, ast.Import, ast.ImportFrom)):
          flush()
          out.append(st)
        else:
          run.append(st)
      flush()
    finally:
      self._cur_locals = outer if outer is not None else set()
    if not [x for x in inlined if x != '<flag>']:
      return False
    tree.body = out
    return True

  def _def(self, node):
    """inline into one (copied) def node in place; True if anything was spliced (here or in a nested def)."""
    fi = self._fi_of(node)
    if fi is None:
      return False
    inlined = []
    outer = getattr(self, '_cur_locals', None)
    self._cur_locals = _locals_of(node) | (outer or set())
    try:
      if _desugar_yield_from(node, only_non_calls=True):
        inlined.append('<flag>')
      if self._unalias_locals(node):
        inlined.append('<flag>')
      node.body = self._delegations(node.body, fi, [fi.key], inlined, True)
      node.body = self._block(node.body, fi, [fi.key], inlined, 0)
      # calls that came in with a spliced body and whose receiver is a name of this function (self.helper2(...) inside
      # helper1) resolve in this function's context: a few more rounds pick them up
      for _ in range(2):
        before = len([x for x in inlined if x != '<flag>'])
        if before:
          # generator helpers whose call came in with a spliced body (pairs = self._pairs(...); for p in pairs: ...)
          node.body = self._delegations(node.body, fi, [fi.key], inlined, True)
        node.body = self._block(node.body, fi, [fi.key] + [x for x in inlined if x != '<flag>'], inlined, 0)
        if len([x for x in inlined if x != '<flag>']) == before:
          break
    finally:
      self._cur_locals = outer if outer is not None else set()
    if _desugar_yield_from(node):
      inlined.append('<flag>')
    if inlined:
      _coalesce_copies(node)
      node._inlined_from = sorted((set(inlined) | set(getattr(node, '_inlined_from', ()))) - {'<flag>'})
      node._normalised = True
      _check_bound(node, fi)
    return bool(inlined) or bool(getattr(node, '_nested_changed', False))

  def _unalias_bound_methods(self, node):
    """`send = self.sendLine; for ...: send(x)` - a bound method looked up once and kept in a local (a common micro-optimisation).
    When the local is assigned exactly once, at the top level of the function body, from `self.<attr>`, `self` is never rebound
    and no code of the program stores to an attribute of that name, the local IS `self.<attr>`: its reads are replaced and the
    assignment disappears, so that rules (and the splicer) see the method call."""
    args = node.args.posonlyargs + node.args.args
    if not args:
      return False
    me = args[0].arg
    stores = {}
    for x in ast.walk(node):
      if isinstance(x, ast.Name) and isinstance(x.ctx, (ast.Store, ast.Del)):
        stores[x.id] = stores.get(x.id, 0) + 1
      elif isinstance(x, (ast.Global, ast.Nonlocal)):
        for n in x.names:
          stores[n] = stores.get(n, 0) + 2
      elif isinstance(x, ast.arg) and x is not args[0]:
        stores[x.arg] = stores.get(x.arg, 0) + 1
    if stores.get(me):
      return False
    stored_attrs = getattr(self, '_stored_attrs', None)
    if stored_attrs is None:
      stored_attrs = set()
      for m in self.repo.modules.values():
        for x in ast.walk(m.tree):
          if isinstance(x, ast.Attribute) and isinstance(x.ctx, (ast.Store, ast.Del)):
            stored_attrs.add(x.attr)
          elif isinstance(x, ast.Call) and isinstance(x.func, ast.Name) and x.func.id in ('setattr', 'delattr') and len(x.args) >= 2:
            stored_attrs |= _setattr_names(x, m)
      self._stored_attrs = stored_attrs
    if '*' in stored_attrs:
      return False
    changed = False
    for st in list(node.body):
      if not (isinstance(st, ast.Assign) and len(st.targets) == 1 and isinstance(st.targets[0], ast.Name) and
              isinstance(st.value, ast.Attribute) and isinstance(st.value.value, ast.Name) and st.value.value.id == me):
        continue
      local, attr = st.targets[0].id, st.value.attr
      if stores.get(local) != 1 or attr in stored_attrs:
        continue
      # every read is after the assignment: the assignment is a top-level statement, reads before it would be UnboundLocalError
      first = min([x.lineno for x in ast.walk(node) if isinstance(x, ast.Name) and x.id == local and x is not st.targets[0]] or [0])
      if first and first < st.lineno:
        continue
      for x in ast.walk(node):
        for field, val in ast.iter_fields(x):
          if isinstance(val, ast.Name) and val.id == local and isinstance(val.ctx, ast.Load):
            setattr(x, field, ast.copy_location(ast.Attribute(value=ast.Name(id=me, ctx=ast.Load()), attr=attr, ctx=ast.Load()), val))
          elif isinstance(val, list):
            for i, v in enumerate(val):
              if isinstance(v, ast.Name) and v.id == local and isinstance(v.ctx, ast.Load):
                val[i] = ast.copy_location(ast.Attribute(value=ast.Name(id=me, ctx=ast.Load()), attr=attr, ctx=ast.Load()), v)
      node.body.remove(st)
      changed = True
    if changed:
      ast.fix_missing_locations(node)
    return changed

  # ------------------------------------------------------------------ hoisted look-ups (the inverse of a "performance pass")
  def _program_facts(self):
    """(names of properties, {function name: (attributes it stores, names it calls)}) over the whole program."""
    facts = getattr(self, '_facts', None)
    if facts is None:
      props, by_name = set(), {}
      for m in self.repo.modules.values():
        for d in ast.walk(m.tree):
          if isinstance(d, (ast.FunctionDef, ast.AsyncFunctionDef)):
            if any((isinstance(x, ast.Name) and x.id in ('property', 'cached_property')) or
                   (isinstance(x, ast.Attribute) and x.attr in ('setter', 'getter', 'cached_property')) for x in d.decorator_list):
              props.add(d.name)
            st, calls = by_name.setdefault(d.name, (set(), set()))
            for x in ast.walk(d):
              if isinstance(x, ast.Attribute) and isinstance(x.ctx, (ast.Store, ast.Del)):
                st.add(x.attr)
              elif isinstance(x, ast.Call):
                if isinstance(x.func, ast.Name) and x.func.id in ('setattr', 'delattr') and len(x.args) >= 2:
                  st |= _setattr_names(x, m)
                f = x.func
                calls.add(f.attr if isinstance(f, ast.Attribute) else (f.id if isinstance(f, ast.Name) else ''))
          elif isinstance(d, ast.ClassDef):
            # instantiating a class runs its __init__
            by_name.setdefault(d.name, (set(), set()))[1].add('__init__')
      facts = self._facts = (props, by_name, {})
    return facts

  _CONTAINER_METHODS = {'append', 'appendleft', 'pop', 'popleft', 'add', 'get', 'extend', 'insert', 'remove', 'discard', 'items', 'keys',
                        'values', 'update', 'clear', 'join', 'split', 'strip', 'startswith', 'endswith', 'format', 'encode', 'decode',
                        'search', 'match', 'sub', 'write', 'setdefault', 'index', 'count', 'sort', 'partition', 'replace', 'group'}

  def _all_stored_attrs(self):
    out = set()
    for m in self.repo.modules.values():
      for x in ast.walk(m.tree):
        if isinstance(x, ast.Attribute) and isinstance(x.ctx, (ast.Store, ast.Del)):
          out.add(x.attr)
    self._stored_attrs_all = out
    return out

  def _stable_chain(self, base, attrs, params, stores, call_only=False):
    """the attribute chain base.a1.a2... names something the PROGRAM defines and does not rebind while it runs - a method, a field
    set in constructors only, a function of an imported module, a method of a built-in container held in a local.  An attribute of
    an object the program does not own (`reactor.running`, a transport's state) can change under the function: reading it once and
    reading it at every use are then different programs, and rules about WHEN it is read must see which one is written."""
    props, by_name, _ = self._program_facts()
    soi = self._stored_outside_init()
    init_fields = getattr(self, '_init_fields', None)
    if init_fields is None:
      init_fields = set()
      for m in self.repo.modules.values():
        for d in ast.walk(m.tree):
          if isinstance(d, ast.FunctionDef) and d.name == '__init__':
            init_fields |= {x.attr for x in ast.walk(d) if isinstance(x, ast.Attribute) and isinstance(x.ctx, ast.Store)}
          elif isinstance(d, ast.ClassDef):
            init_fields |= {t.id for st in d.body if isinstance(st, ast.Assign) for t in st.targets if isinstance(t, ast.Name)}
      self._init_fields = init_fields
    mod = self._module
    imports = {}
    for st in mod.tree.body:
      if isinstance(st, ast.Import):
        for al in st.names:
          imports[(al.asname or al.name).split('.')[0]] = ('module', al.name)
      elif isinstance(st, ast.ImportFrom):
        for al in st.names:
          imports[al.asname or al.name] = ('from', '%s.%s' % (st.module, al.name))

    def member_ok(a):
      return a not in props and a not in soi and (a in by_name or a in init_fields)
    first = attrs[0]
    if base in ('self', 'cls'):
      ok = member_ok(first)
      if not ok and len(attrs) == 1 and first not in props and first not in soi and first not in by_name and first not in init_fields and \
         first not in getattr(self, '_stored_attrs_all', self._all_stored_attrs()) and call_only:
        ok = True        # a method inherited from a library base class (self.sendLine), only ever called through the local
    elif base in imports and base not in stores and base not in params:
      kind, target = imports[base]
      pm = self.repo.modules_by_name.get(target) if hasattr(self.repo, 'modules_by_name') else None
      if pm is None:
        for m in self.repo.modules.values():
          if getattr(m, 'name', None) == target:
            pm = m
      if pm is not None:
        ok = any(isinstance(st, (ast.FunctionDef, ast.ClassDef)) and st.name == first for st in pm.tree.body)
      elif kind == 'module':
        ok = True                       # a function of a library module (time.time, os.path.join)
      else:
        ok = target.endswith('.settings') and first not in soi and first.isupper()
    elif base == 'settings':
      ok = first not in soi and first.isupper()
    elif base in params or base in stores:
      ok = first in self._CONTAINER_METHODS or (first in by_name and first not in props and first not in soi)
    else:
      ok = first in by_name and first not in props and first not in soi      # a module-level object of the program
    return ok and all(member_ok(a) or a in self._CONTAINER_METHODS for a in attrs[1:])

  def _call_shapes(self):
    """{callee name: [(number of positional arguments, keyword names, has */** argument)]} for every call in the program, and the
    names that are referenced without being called (handed to LoopingCall / addCallback / partial ...: how they are then called is
    not visible, except that Twisted's LoopingCall and carbon's own Event call with the arguments they were given)."""
    shapes = getattr(self, '_shapes', None)
    if shapes is None:
      shapes = {}
      for m in self.repo.modules.values():
        for c in ast.walk(m.tree):
          if isinstance(c, ast.Call):
            f = c.func
            name = f.attr if isinstance(f, ast.Attribute) else (f.id if isinstance(f, ast.Name) else None)
            star = any(isinstance(a, ast.Starred) for a in c.args) or any(k.arg is None for k in c.keywords)
            kws = {k.arg for k in c.keywords if k.arg}
            if name:
              shapes.setdefault(name, []).append((len(c.args), kws, star))
            if name in ('partial', 'LoopingCall', 'callLater', 'callInThread', 'callFromThread', 'deferToThread', 'addCallback',
                        'addCallbacks', 'addErrback', 'addBoth') and c.args:
              # f handed over together with arguments: they are passed on to it
              for i, a in enumerate(c.args):
                an = a.attr if isinstance(a, ast.Attribute) else (a.id if isinstance(a, ast.Name) else None)
                if an:
                  shapes.setdefault(an, []).append((len(c.args) - i - 1, kws, star))
      self._shapes = shapes
    return shapes

  def _stored_outside_init(self):
    """attribute names (and constant keys of `settings[...]`) that some function other than an __init__ stores: a look-up of one
    of these can change under a running function - through a callee, an event handler, or another thread (the shutdown trigger
    zeroes settings.MIN_TIMESTAMP_LAG while the strategy generators are suspended at a yield)."""
    out = getattr(self, '_soi', None)
    if out is None:
      out = set()
      for m in self.repo.modules.values():
        for d in ast.walk(m.tree):
          if isinstance(d, (ast.FunctionDef, ast.AsyncFunctionDef, ast.Lambda)) and getattr(d, 'name', '') != '__init__':
            for x in ast.walk(d):
              if isinstance(x, ast.Attribute) and isinstance(x.ctx, (ast.Store, ast.Del)):
                out.add(x.attr)
              elif isinstance(x, ast.Subscript) and isinstance(x.ctx, (ast.Store, ast.Del)) and isinstance(x.slice, ast.Constant) and \
                  isinstance(x.slice.value, str):
                out.add(x.slice.value)
              elif isinstance(x, ast.Call) and isinstance(x.func, ast.Name) and x.func.id in ('setattr', 'delattr') and len(x.args) >= 2:
                out |= _setattr_names(x, m)
              elif isinstance(x, ast.Call) and isinstance(x.func, ast.Attribute) and x.func.attr in ('update', 'setdefault', 'readFrom', 'pop'):
                if x.func.attr == 'setdefault' and x.args and isinstance(x.args[0], ast.Constant) and isinstance(x.args[0].value, str):
                  out.add(x.args[0].value)
      self._soi = out
    return out

  def _may_store(self, names):
    """attributes that may be stored by functions with one of these names, or by anything they call (by name, transitively)."""
    props, by_name, memo = self._program_facts()
    out, todo, seen = set(), list(names), set()
    while todo:
      n = todo.pop()
      if n in seen or n not in by_name:
        continue
      seen.add(n)
      st, calls = by_name[n]
      out |= st
      todo.extend(calls)
    return out

  def _unalias_locals(self, node):
    """`pop = names.pop` / `deliver = self.metricReceived` / `increment = instrumentation.increment` / `to_float = float`
    ... used afterwards in place of the look-up (hoisting a look-up out of a loop).  When
      - the local is bound by exactly one plain assignment and only read in the statements that follow it in the same block,
      - the right-hand side is a bare chain of attribute reads (or a global / builtin name) - no call, no subscript,
      - the base name is a parameter, a global, or a local (re)bound only by earlier statements of that block,
      - no attribute of the chain is a property, is stored by this function, or may be stored by anything it calls,
    the local IS the look-up: its reads are replaced and the assignment disappears.  Rules then see the code as it was
    before the look-up was hoisted.  (A read of a property, or of a field something in between may rebind, is not touched:
    there the hoisted value can be stale, and rules about freshness must see that.)"""
    _split_parallel_assignments(node)
    changed = False
    for inner in walk_no_nested(node, include_self=False):
      pass
    for inner in ast.walk(node):
      if inner is not node and isinstance(inner, (ast.FunctionDef, ast.AsyncFunctionDef)) and not getattr(inner, '_unaliased', False):
        inner._unaliased = True
        if self._unalias_locals(inner):
          changed = True
    a = node.args
    params = {x.arg for x in a.posonlyargs + a.args + a.kwonlyargs} | ({a.vararg.arg} if a.vararg else set()) | ({a.kwarg.arg} if a.kwarg else set())
    sig = set(params)
    params -= getattr(node, '_bound_params', set())        # an optional parameter nobody passes, bound to its default: a local
    props = self._program_facts()[0]
    for _round in range(12):
      stores, loads, scoped = {}, {}, set()
      for x in ast.walk(node):
        if isinstance(x, ast.Name):
          (stores if isinstance(x.ctx, (ast.Store, ast.Del)) else loads).setdefault(x.id, []).append(x)
        elif isinstance(x, (ast.Global, ast.Nonlocal)):
          scoped |= set(x.names)
        elif isinstance(x, ast.arg) and x.arg not in sig:
          stores.setdefault(x.arg, []).append(x)
        elif isinstance(x, ast.ExceptHandler) and x.name:
          stores.setdefault(x.name, []).append(x)
      called = set()
      own_stored = set()
      for x in ast.walk(node):
        if isinstance(x, ast.Call):
          f = x.func
          called.add(f.attr if isinstance(f, ast.Attribute) else (f.id if isinstance(f, ast.Name) else ''))
          if isinstance(f, ast.Name) and f.id in ('setattr', 'delattr'):
            own_stored.add('*')
        elif isinstance(x, ast.Attribute) and isinstance(x.ctx, (ast.Store, ast.Del)):
          own_stored.add(x.attr)
      may = None
      done = False
      for owner in ast.walk(node):
        for field in ('body', 'orelse', 'finalbody'):
          blk = getattr(owner, field, None)
          if not isinstance(blk, list) or isinstance(owner, ast.ClassDef) or (isinstance(owner, (ast.FunctionDef, ast.AsyncFunctionDef, ast.Lambda)) and owner is not node):
            continue
          for i, st in enumerate(blk):
            if not (isinstance(st, ast.Assign) and len(st.targets) == 1 and isinstance(st.targets[0], ast.Name)):
              continue
            x = st.targets[0].id
            e = st.value
            chain = []
            while isinstance(e, ast.Attribute):
              chain.append(e.attr)
              e = e.value
            if not isinstance(e, ast.Name) or x in params or x in scoped or len(stores.get(x, [])) != 1:
              continue
            base = e.id
            if base == x or base in scoped:
              continue
            if not chain and (base in params or base in stores):
              continue                     # a plain copy of a local: the copy coalescer's business
            if '*' in own_stored or any(c in props or c in own_stored or (c.startswith('__') and c.endswith('__')) for c in chain):
              continue
            # reads of x: all of them in the statements that follow in this block
            after = [y for s_ in blk[i + 1:] for y in ast.walk(s_) if isinstance(y, ast.Name) and y.id == x and isinstance(y.ctx, ast.Load)]
            if len(after) != len(loads.get(x, [])) or not after:
              continue
            # a value that steers control flow (`diverse = self.diverse_replicas ... if diverse: ... if diverse and n >= k:`) stays a
            # local: read once, every test sees the same value, and path feasibility can pair the tests up
            # (only in a generator: between two yields anything can happen, so "read once" matters; and only where the local is
            # tested for its truth - a comparison operand such as `size < low_watermark` is an ordinary value)
            def truth_positions(t):
              if isinstance(t, ast.Name):
                return [t]
              if isinstance(t, ast.UnaryOp) and isinstance(t.op, ast.Not):
                return truth_positions(t.operand)
              if isinstance(t, ast.BoolOp):
                return [y for v_ in t.values for y in truth_positions(v_)]
              return []
            is_gen = any(isinstance(y, (ast.Yield, ast.YieldFrom)) for y in walk_no_nested(node, include_self=False))
            tests = [y for t_ in ast.walk(node) if isinstance(t_, (ast.If, ast.While, ast.IfExp, ast.Assert))
                     for y in truth_positions(t_.test) if y.id == x] if is_gen else []
            if tests:
              continue
            # a read inside a nested def / lambda: closures are spliced from the program model, not from this tree - leave it
            nested_reads = {id(y) for s_ in blk[i + 1:] for inner in ast.walk(s_) if isinstance(inner, (ast.FunctionDef, ast.AsyncFunctionDef, ast.Lambda))
                            for y in ast.walk(inner) if isinstance(y, ast.Name) and y.id == x}
            if nested_reads:
              continue
            # the block is not re-entered with x still bound from a previous iteration and read before this statement: covered by
            # "all reads follow in this block".  The base: parameter / global / local bound by earlier statements of this block only
            if base in stores:
              if base in params:
                continue
              # every (re)binding of the base comes before this statement in the text: whichever ran last ran before the look-up
              # was taken, in this iteration too, and nothing rebinds the base between the look-up and its uses
              here = (st.lineno, st.col_offset)
              if any((getattr(y, 'lineno', 10 ** 9), getattr(y, 'col_offset', 0)) >= here for y in stores[base]):
                continue
            call_only = False
            if chain:
              funcs = {id(c.func) for s_ in blk[i + 1:] for c in ast.walk(s_) if isinstance(c, ast.Call)}
              reads = [y for s_ in blk[i + 1:] for y in ast.walk(s_) if isinstance(y, ast.Name) and y.id == x and isinstance(y.ctx, ast.Load)]
              call_only = bool(reads) and all(id(y) in funcs for y in reads)
            if chain and not self._stable_chain(base, list(reversed(chain)), params, stores, call_only):
              continue
            if chain:
              if may is None:
                may_callees = self._may_store(called)
                may = may_callees | self._stored_outside_init()
              # fields of `self` in the reactor-only modules: what can rebind them under this function is what it calls (the
              # cache and the writer are shared with the writer thread, and the cache strategies are suspended generators)
              relaxed = base == 'self' and getattr(self._module, 'name', '') not in ('carbon.cache', 'carbon.writer')
              if '*' in may or any(c in (may_callees if relaxed else may) for c in chain):
                continue
            for y in after:
              par = getattr(y, '_parent', None)
            value = st.value
            for z in ast.walk(node):
              for fld, val in ast.iter_fields(z):
                if isinstance(val, ast.Name) and val.id == x and isinstance(val.ctx, ast.Load):
                  setattr(z, fld, ast.copy_location(_clone(value), val))
                elif isinstance(val, list):
                  for k, v in enumerate(val):
                    if isinstance(v, ast.Name) and v.id == x and isinstance(v.ctx, ast.Load):
                      val[k] = ast.copy_location(_clone(value), v)
            blk.remove(st)
            if not blk:
              blk.append(ast.copy_location(ast.Pass(), st))
            changed = done = True
            break
          if done:
            break
        if done:
          break
      if not done:
        break
    if changed:
      ast.fix_missing_locations(node)
    return changed

  def _fi_of(self, node):
    ref = getattr(node, '_fi', None)
    if ref is None:
      return None
    v = self._module.functions.get(ref[0])
    if not v or ref[1] >= len(v):
      return None
    return v[ref[1]]

  # ------------------------------------------------------------------ generator delegation
  def _delegations(self, block, fn, stack, inlined, tail, depth=0):
    """`for x in self.helper(...): yield x` / `yield from self.helper(...)` with a generator helper of the same module is
    replaced by the helper's body.  A helper that contains `return` is spliced only where the delegation is the last
    thing its caller does (then returning from the helper is returning from the caller)."""
    block = _sink_delegations(block)
    i = 0
    while i < len(block):
      s = block[i]
      last = i == len(block) - 1
      if isinstance(s, ast.If):
        s.body = self._delegations(s.body, fn, stack, inlined, tail and last, depth)
        s.orelse = self._delegations(s.orelse, fn, stack, inlined, tail and last, depth)
      elif isinstance(s, (ast.With, ast.AsyncWith)):
        s.body = self._delegations(s.body, fn, stack, inlined, False, depth)
      elif isinstance(s, (ast.For, ast.While)) and _delegation_call(s) is None:
        s.body = self._delegations(s.body, fn, stack, inlined, False, depth)
      elif isinstance(s, ast.Try):
        s.body = self._delegations(s.body, fn, stack, inlined, False, depth)
      fused = self._fuse_consumer(s, fn, stack, inlined, tail and last, depth)
      if fused is not None:
        spliced = self._delegations(fused, fn, stack, inlined, tail and last, depth + 1)
        block[i:i + 1] = spliced
        i += len(spliced)
        continue
      d = _delegation_call(s)
      if d is not None and depth < self.max_depth:
        callee = self._callee(d, fn)
        if callee is not None and callee.key not in stack and self._simple(callee, d, generator=True):
          has_ret = any(isinstance(x, ast.Return) for x in walk_no_nested(callee.node, include_self=False))
          if not has_ret or (tail and last):
            res = self._expand(d, callee, fn, stack, inlined, depth, 'generator')
            if res is not None:
              spliced = self._delegations(res[0], callee, stack + [callee.key], inlined, tail and last, depth + 1)
              block[i:i + 1] = spliced
              i += len(spliced)
              continue
      i += 1
    return block

  def _fuse_consumer(self, s, fn, stack, inlined, tail, depth):
    """for x in self.gen(...): BODY   with a generator helper  ->  the helper's body with BODY (after `x = <yielded>`) in
    place of each yield.  Exact when BODY has no break / continue of that loop (they would have to leave / resume the
    helper) and the helper's `return`s can stand as returns of the caller (the loop is the last thing the caller does)."""
    if not (isinstance(s, ast.For) and not s.orelse and isinstance(s.iter, ast.Call)) or _delegation_call(s) is not None or \
       depth >= self.max_depth:
      return None
    callee = self._callee(s.iter, fn)
    if callee is None or callee.key in stack or not self._simple(callee, s.iter, generator=True):
      return None
    own_jumps = False
    for x in walk_no_nested(s, include_self=False):
      if isinstance(x, (ast.Break, ast.Continue)):
        # does it belong to s?
        inner = False
        for y in walk_no_nested(s, include_self=False):
          if isinstance(y, (ast.For, ast.While)) and any(z is x for z in ast.walk(y)):
            inner = True
        if not inner:
          own_jumps = True
    consumer_body = s.body
    if own_jumps and not _yield_ends_last_loop(callee.node):
      # `continue` of the consumer = resume the generator after the yield: expressible when the body can be written without it
      consumer_body = _eliminate_continue([_clone(b) for b in s.body])
      if consumer_body is None:
        return None
    ys = [x for x in walk_no_nested(callee.node, include_self=False) if isinstance(x, (ast.Yield, ast.YieldFrom))]
    stmt_ys = [st for st in walk_no_nested(callee.node, include_self=False) if isinstance(st, ast.Expr) and isinstance(st.value, ast.Yield)]
    body_size = sum(1 for b in consumer_body for x in ast.walk(b) if isinstance(x, ast.stmt))
    if len(ys) != len(stmt_ys) or (len(ys) > 2 and len(ys) * body_size > 24) or any(isinstance(y, ast.YieldFrom) for y in ys):
      return None
    has_ret = any(isinstance(x, ast.Return) for x in walk_no_nested(callee.node, include_self=False))
    ret_is_break = has_ret and _returns_leave_only_loop(callee.node)
    if has_ret and not tail and not ret_is_break:
      return None
    res = self._expand(s.iter, callee, fn, stack, inlined, depth, 'generator')
    if res is None:
      return None
    if has_ret and not tail:
      # the generator is one loop: returning from it is leaving that loop, after which the consumer's loop is over too
      class RB(ast.NodeTransformer):
        def visit_Return(self, n):
          return ast.copy_location(ast.Break(), n)

        def visit_FunctionDef(self, n):
          return n

        def visit_Lambda(self, n):
          return n
      res = ([RB().visit(st) for st in res[0]], res[1])
    body = consumer_body
    target = s.target

    class Y(ast.NodeTransformer):
      def visit_Expr(self, n):
        if isinstance(n.value, ast.Yield):
          val = n.value.value if n.value.value is not None else ast.Constant(value=None)
          bind = ast.copy_location(ast.Assign(targets=[_clone(target)], value=val), n)
          for x in ast.walk(bind.targets[0]):
            if hasattr(x, 'ctx'):
              x.ctx = ast.Store()
          return [bind] + [_clone(b) for b in body]
        return n

      def visit_FunctionDef(self, n):
        return n

      def visit_Lambda(self, n):
        return n
    out = []
    for st in res[0]:
      r = Y().visit(st)
      out.extend(r if isinstance(r, list) else [r])
    for st in out:
      ast.fix_missing_locations(st)
    return out

  # ------------------------------------------------------------------ statements
  def _block(self, stmts, fn, stack, inlined, depth):
    ex = _expand_dispatch(list(stmts), getattr(self, '_module', None) or getattr(fn, 'module', None))
    if ex is not None:
      stmts = ex
      inlined.append('<flag>')
    ex = _statement_forms(list(stmts), getattr(self, '_cur_locals', set()))
    if ex is not None:
      stmts = ex
      inlined.append('<flag>')
    ex = _unswitch_loops(list(stmts))
    if ex is not None:
      stmts = ex
      inlined.append('<flag>')
    out = []
    for s in stmts:
      out.extend(self._stmt(s, fn, stack, inlined, depth))
    if _subst_flags(out) | _move_flags(out, fn) | _sink_flag_tests(out, fn):
      inlined.append('<flag>')
    un = _unroll_literal_loops(out, getattr(self, '_module', None), fn)
    if un is not None:
      inlined.append('<flag>')
      out = un
    return out

  def _stmt(self, s, fn, stack, inlined, depth):
    if isinstance(s, (ast.FunctionDef, ast.AsyncFunctionDef)):
      # a nested def is a function in its own right (only reached when normalising a whole module)
      if depth == 0 and getattr(self, '_module', None) is not None and getattr(s, '_fi', None) is not None:
        sub = []
        nfi = self._fi_of(s)
        if nfi is not None:
          outer = getattr(self, '_cur_locals', set())
          self._cur_locals = outer | _locals_of(s)
          try:
            s.body = self._block(s.body, nfi, [nfi.key], sub, 0)
          finally:
            self._cur_locals = outer
          if sub:
            s._inlined_from = sorted(set(sub) - {'<flag>'})
            inlined.extend(sub)
      return [s]
    # recurse into compound statements first
    for field in ('body', 'orelse', 'finalbody'):
      if isinstance(getattr(s, field, None), list) and not isinstance(s, (ast.FunctionDef, ast.AsyncFunctionDef, ast.ClassDef, ast.Lambda)):
        setattr(s, field, self._block(getattr(s, field), fn, stack, inlined, depth))
    if isinstance(s, ast.Try):
      for h in s.handlers:
        h.body = self._block(h.body, fn, stack, inlined, depth)
    if depth >= self.max_depth:
      return [s]
    # return sep.join(self.gen(...)) / x = sorted(gen(...)) ...: the generator helper's values are collected first
    #   __glN = list(gen(...)); return sep.join(__glN)
    # (the consumer drains the generator completely before it does anything else, and its other operands are plain names)
    if isinstance(s, (ast.Return, ast.Assign, ast.Expr)) and isinstance(getattr(s, 'value', None), ast.Call) and depth < self.max_depth:
      top = s.value
      f_ = top.func
      consumer = (isinstance(f_, ast.Name) and f_.id in ('list', 'tuple', 'sorted', 'set', 'frozenset', 'sum', 'max', 'min', 'dict')) or \
                 (isinstance(f_, ast.Attribute) and f_.attr in ('join', 'extend', 'update') and isinstance(f_.value, (ast.Name, ast.Constant)))
      is_plain_list = isinstance(s, ast.Assign) and isinstance(f_, ast.Name) and f_.id == 'list' and len(s.targets) == 1 and \
        isinstance(s.targets[0], ast.Name)
      if consumer and not is_plain_list and top.args and isinstance(top.args[0], ast.Call) and \
         all(isinstance(a, (ast.Name, ast.Constant)) for a in top.args[1:]) and \
         all(isinstance(kw.value, (ast.Name, ast.Constant, ast.Attribute, ast.Lambda)) for kw in top.keywords):
        gcall = top.args[0]
        callee = self._callee(gcall, fn)
        if callee is not None and callee.key not in stack and self._simple(callee, gcall, generator=True) and \
           (not any(isinstance(x, ast.Return) for x in walk_no_nested(callee.node, include_self=False)) or
            _returns_leave_only_loop(callee.node)):
          self._k += 1
          tmp = '__gl%d' % self._k
          pre = ast.Assign(targets=[ast.Name(id=tmp, ctx=ast.Store())],
                           value=ast.Call(func=ast.Name(id='list', ctx=ast.Load()), args=[gcall], keywords=[]))
          top.args[0] = ast.Name(id=tmp, ctx=ast.Load())
          for st_ in (pre,):
            ast.copy_location(st_, s)
            for x in ast.walk(st_):
              if not hasattr(x, 'lineno') and isinstance(x, (ast.expr, ast.stmt)):
                ast.copy_location(x, s)
          ast.copy_location(top.args[0], gcall)
          inlined.append('<flag>')
          return self._stmt(pre, fn, stack, inlined, depth) + [s]
    # L = list(self.gen(...))  with a generator helper that never returns early  ->  L = []; <helper body, yield v -> L.append(v)>
    if isinstance(s, ast.Assign) and len(s.targets) == 1 and isinstance(s.targets[0], ast.Name) and isinstance(s.value, ast.Call) and \
       isinstance(s.value.func, ast.Name) and s.value.func.id == 'list' and len(s.value.args) == 1 and not s.value.keywords and \
       isinstance(s.value.args[0], ast.Call) and depth < self.max_depth:
      gcall = s.value.args[0]
      callee = self._callee(gcall, fn)
      lst = s.targets[0].id
      ret_break = callee is not None and any(isinstance(x, ast.Return) for x in walk_no_nested(callee.node, include_self=False))
      if callee is not None and callee.key not in stack and self._simple(callee, gcall, generator=True) and \
         (not ret_break or _returns_leave_only_loop(callee.node)) and \
         not any(isinstance(x, ast.Name) and x.id == lst for x in ast.walk(gcall)):
        ys = [x for x in walk_no_nested(callee.node, include_self=False) if isinstance(x, (ast.Yield, ast.YieldFrom))]
        stmt_ys = [st for st in walk_no_nested(callee.node, include_self=False) if isinstance(st, ast.Expr) and isinstance(st.value, ast.Yield)]
        if len(ys) == len(stmt_ys) and ys:
          res = self._expand(gcall, callee, fn, stack, inlined, depth, 'generator')
          if res is not None:
            class Y(ast.NodeTransformer):
              def visit_Expr(self, n):
                if isinstance(n.value, ast.Yield):
                  val = n.value.value if n.value.value is not None else ast.Constant(value=None)
                  return ast.copy_location(ast.Expr(value=ast.Call(
                    func=ast.Attribute(value=ast.Name(id=lst, ctx=ast.Load()), attr='append', ctx=ast.Load()), args=[val], keywords=[])), n)
                return n

              def visit_Return(self, n):
                return ast.copy_location(ast.Break(), n) if ret_break else n      # the generator is one loop: returning leaves it

              def visit_FunctionDef(self, n):
                return n
            init = ast.copy_location(ast.Assign(targets=[ast.Name(id=lst, ctx=ast.Store())], value=ast.List(elts=[], ctx=ast.Load())), s)
            body = [Y().visit(st) for st in res[0]]
            for st in [init] + body:
              ast.fix_missing_locations(st)
            return [init] + body
    # L = [helper(x) for x in xs]  ->  L = []; for x in xs: L.append(helper(x))   (so that the helper can be spliced)
    if isinstance(s, ast.Assign) and len(s.targets) == 1 and isinstance(s.targets[0], ast.Name) and isinstance(s.value, ast.ListComp) and \
       len(s.value.generators) == 1 and not s.value.generators[0].is_async and \
       self._first_inlinable(s.value.elt, fn, stack) is not None and \
       not any(isinstance(x, ast.Name) and x.id == s.targets[0].id for x in ast.walk(s.value)):
      self._k += 1
      gen = s.value.generators[0]
      tnames = {x.id for x in ast.walk(gen.target) if isinstance(x, ast.Name)}
      ren = {n_: '%s__c%d' % (n_, self._k) for n_ in tnames}
      lst = s.targets[0].id

      def rn(node):
        node = _clone(node)
        for x in ast.walk(node):
          if isinstance(x, ast.Name) and x.id in ren:
            x.id = ren[x.id]
        return node
      app = ast.Expr(value=ast.Call(func=ast.Attribute(value=ast.Name(id=lst, ctx=ast.Load()), attr='append', ctx=ast.Load()),
                                    args=[rn(s.value.elt)], keywords=[]))
      body = [app]
      for cond in reversed(gen.ifs):
        body = [ast.If(test=rn(cond), body=body, orelse=[])]
      loop = ast.For(target=rn(gen.target), iter=_clone(gen.iter), body=body, orelse=[])
      init = ast.Assign(targets=[ast.Name(id=lst, ctx=ast.Store())], value=ast.List(elts=[], ctx=ast.Load()))
      for st in (init, loop):
        ast.copy_location(st, s)
        for x in ast.walk(st):
          if not hasattr(x, 'lineno') and isinstance(x, (ast.expr, ast.stmt)):
            ast.copy_location(x, s)
      ast.fix_missing_locations(init)
      ast.fix_missing_locations(loop)
      inlined.append('<flag>')
      return [init] + self._stmt(loop, fn, stack, inlined, depth)
    # which expression of the statement may have calls hoisted out of it
    if isinstance(s, (ast.Expr, ast.Return)):
      holder, attr = s, 'value'
    elif isinstance(s, (ast.Assign, ast.AugAssign, ast.AnnAssign)):
      holder, attr = s, 'value'
    elif isinstance(s, ast.If):
      holder, attr = s, 'test'
    elif isinstance(s, ast.While) and not s.orelse:
      holder, attr = s, 'test'
    elif isinstance(s, ast.For):
      holder, attr = s, 'iter'
    else:
      return [s]
    expr = getattr(holder, attr)
    if expr is None:
      return [s]
    pre = []
    guard = 0
    while guard < 6:
      guard += 1
      call = self._first_inlinable(expr, fn, stack)
      if call is None:
        break
      callee = self._callee(call, fn)
      mode = 'value'
      if call is expr:
        if isinstance(s, ast.Return):
          mode = 'return'
        elif isinstance(s, ast.Expr):
          mode = 'expr'
        elif isinstance(s, ast.Assign) and len(s.targets) == 1 and isinstance(s.targets[0], ast.Name):
          mode = ('assign', s.targets[0].id)
      res = self._expand(call, callee, fn, stack, inlined, depth, mode)
      if res is None:
        break
      body, ret = res
      pre.extend(body)
      if mode != 'value':
        return pre           # the spliced body stands for the whole statement
      expr = _replace(expr, call, ast.copy_location(ast.Name(id=ret, ctx=ast.Load()), call))
      setattr(holder, attr, expr)
    if not pre:
      return [s]
    if isinstance(s, ast.While):
      # while h(): body   ->   while True: <h>; if not (test): break; body
      test = s.test
      brk = ast.copy_location(ast.If(test=ast.UnaryOp(op=ast.Not(), operand=test), body=[ast.copy_location(ast.Break(), s)], orelse=[]), s)
      s.test = ast.copy_location(ast.Constant(value=True), s)
      s.body = pre + [brk] + s.body
      return [s]
    if isinstance(s, ast.Expr) and isinstance(s.value, ast.Name) and s.value.id.startswith('__ret'):
      return pre
    return pre + [s]

  def _first_inlinable(self, expr, fn, stack):
    """the first call (evaluation order) that can be inlined, provided nothing impure is evaluated before it - calls
    inside its own arguments excepted: those are evaluated first in the splice as well (argument binding)."""
    impure_before = []
    for c in _calls_in_eval_order(expr):
      callee = self._callee(c, fn)
      if callee is not None and callee.key not in stack and self._simple(callee, c):
        inside = {id(x) for x in ast.walk(c)}
        if all(id(p) in inside for p in impure_before) and _always_evaluated(expr, c):
          return c
        return None
      if isinstance(c.func, ast.Name) and c.func.id in PURE_BUILTINS:
        continue
      if isinstance(c.func, ast.Attribute) and c.func.attr in ('get', 'items', 'keys', 'values', 'strip', 'split', 'format', 'join',
                                                              'startswith', 'endswith', 'encode', 'decode', 'replace', 'lstrip', 'rstrip'):
        continue
      impure_before.append(c)
    return None

  def _callee(self, call, fn):
    f = call.func
    if isinstance(f, ast.Attribute) and not (isinstance(f.value, ast.Name) and (f.value.id in ('self', 'cls') or f.value.id[:1].isupper())):
      # self.<attr>.method(...): a collaborator object of this class; <local>.method(...): an object held in a plain local
      # whose class the type inference knows (a loop variable over a list of rule objects)
      ctor_recv = isinstance(f.value, ast.Call) and isinstance(f.value.func, ast.Name) and f.value.func.id.lstrip('_')[:1].isupper() and \
        not f.value.keywords and all(isinstance(a, (ast.Name, ast.Constant)) for a in f.value.args)
      if not (isinstance(f.value, ast.Attribute) and isinstance(f.value.value, ast.Name) and f.value.value.id == 'self') and \
         not isinstance(f.value, ast.Name) and not ctor_recv:          # K(...).method(): an object built for this one call
        return None
    if not isinstance(f, (ast.Name, ast.Attribute)):
      return None
    if isinstance(f, ast.Name) and f.id in PURE_BUILTINS:
      return None
    try:
      cs, how = self.T.callees(call, fn.module, getattr(fn, 'original', fn), byname_fallback=False)
    except Exception:
      return None
    if isinstance(f, ast.Attribute) and isinstance(f.value, ast.Name) and f.value.id in getattr(self, '_recv_class', {}):
      k_ = self._recv_class[f.value.id]
      mth = self.repo.find_method(k_, f.attr)
      if mth is not None and not self.repo.subclasses(k_):
        cs, how = [(mth, 'method')], 'resolved'
    if (how != 'resolved' or len(cs) != 1) and isinstance(f, ast.Attribute) and isinstance(f.value, ast.Name) and \
       f.value.id not in ('self', 'cls') and not f.value.id[:1].isupper():
      # <local>.method(...) whose class is not inferred: a method name defined exactly once in the whole program
      owners = [c_ for c_ in self.repo.all_classes() if f.attr in c_.methods]
      if len(owners) == 1 and not f.attr.startswith('__') and len(f.attr) > 6:
        cs, how = [(owners[0].methods[f.attr], 'method')], 'resolved'
    if how != 'resolved' or len(cs) != 1:
      return None
    callee, via = cs[0]
    if via == 'event' and isinstance(f, ast.Attribute) and isinstance(f.value, ast.Name) and f.value.id == 'self' and \
       callee.name == '__call__' and callee.cls is not None and callee.cls.name != 'Event' and \
       self._ctor_fields(fn, f.attr, callee.cls) is not None:
      return callee           # self.helper(...) where helper is a small callable object configured by its constructor
    if via in ('ctor', 'event'):
      return None
    if callee.module is not fn.module:
      # a helper inherited from / defined in another module: spliced when every module-level name its body reads can be
      # made to mean the same thing in this module (an import is added to the normalised tree where needed)
      if getattr(self, '_module', None) is None or self._foreign_names(callee, fn) is None:
        return None
    if callee.name in NEVER_INLINE or callee.is_property:
      return None
    return callee

  def _ctor_fields(self, fn, attr, K):
    """{field: argument expression} when `self.<attr>` of fn's class is created in exactly one place as K(<args>) (a class-level
    assignment, or `self.attr = K(...)` in __init__), K.__init__ only stores its parameters in attributes of the same name
    (`self.p = p`), nothing else in the program assigns those attributes, and each argument is a constant or a dotted
    global name (os.sep).  None otherwise."""
    cls = getattr(fn, 'cls', None)
    if cls is None or K is None:
      return None
    created = []
    v = cls.attrs.get(attr)
    if v is not None:
      created.append(v)
    for m in cls.methods.values():
      for st in ast.walk(m.node):
        if isinstance(st, ast.Assign) and any(isinstance(t, ast.Attribute) and t.attr == attr and isinstance(t.value, ast.Name) and
                                              t.value.id == 'self' for t in st.targets):
          created.append(st.value)
    if len(created) != 1 or not (isinstance(created[0], ast.Call) and isinstance(created[0].func, ast.Name) and
                                 created[0].func.id == K.name) or created[0].keywords and any(kw.arg is None for kw in created[0].keywords):
      return None
    init = K.methods.get('__init__')
    if init is None or isinstance(init.node, ast.Lambda):
      return None
    params = init.params[1:]
    fields = {}
    for st in init.node.body:
      if isinstance(st, ast.Expr) and isinstance(st.value, ast.Constant):
        continue
      if isinstance(st, ast.Assign) and len(st.targets) == 1 and isinstance(st.targets[0], ast.Attribute) and \
         isinstance(st.targets[0].value, ast.Name) and st.targets[0].value.id == init.params[0] and isinstance(st.value, ast.Name) and \
         st.value.id in params:
        fields[st.targets[0].attr] = st.value.id
        continue
      return None
    call = created[0]
    if len(call.args) > len(params):
      return None
    given = dict(zip(params, call.args))
    for kw in call.keywords:
      given[kw.arg] = kw.value
    a = init.node.args
    defaults = dict(zip([x.arg for x in a.args][len(a.args) - len(a.defaults):], a.defaults)) if a.defaults else {}
    out = {}
    for fld, par in fields.items():
      e = given.get(par, defaults.get(par))
      if e is None or not (isinstance(e, ast.Constant) or (_plain_element(e) and isinstance(e, ast.Attribute))):
        return None
      out[fld] = e
    # the fields are written nowhere else
    for m_ in self.repo.modules.values():
      for x in ast.walk(m_.tree):
        if isinstance(x, ast.Attribute) and x.attr in out and isinstance(x.ctx, (ast.Store, ast.Del)):
          inside_init = any(y is x for y in ast.walk(init.node))
          if not inside_init:
            return None
    return out

  def _foreign_names(self, callee, fn):
    """{name: (binding, local alias)} for the module-level names the foreign helper reads, or None when one of them cannot be
    imported under some name into the module being normalised.  binding = ('module', m) | ('from', m, attr)."""
    import builtins
    home, here = callee.module, fn.module
    node = callee.node
    local = _locals_of(node) if not isinstance(node, ast.Lambda) else set()
    out = {}
    for x in ast.walk(node):
      if not (isinstance(x, ast.Name) and isinstance(x.ctx, ast.Load)):
        continue
      n = x.id
      if n in local or n in out or hasattr(builtins, n) or n in ('self', 'cls'):
        continue
      b = home.imports.get(n)
      if b is None:
        if n in home.globals or n in home.functions or n in getattr(home, 'classes', {}):
          b = ('from', home.name, n)
        else:
          return None
      hb = here.imports.get(n)
      if hb is None and (n in here.globals or n in here.functions or n in getattr(here, 'classes', {})):
        hb = ('from', here.name, n)
      if hb == b:
        out[n] = (b, n)
      elif hb is None:
        out[n] = (b, n)
      else:
        out[n] = (b, '%s__m' % n)
    return out

  def _simple(self, callee, call, generator=False):
    n = callee.node
    if isinstance(n, ast.Lambda) or n.args.vararg or n.args.kwarg:
      return False
    if any(d not in ('staticmethod', 'classmethod') for d in callee.decorators):
      return False
    if any(isinstance(a, ast.Starred) for a in call.args) or any(kw.arg is None for kw in call.keywords):
      return False
    count = 0
    has_yield = False
    for x in walk_no_nested(n, include_self=False):
      if isinstance(x, (ast.Global, ast.Nonlocal, ast.Await)):
        return False
      if isinstance(x, (ast.Yield, ast.YieldFrom)):
        has_yield = True
      if isinstance(x, ast.stmt):
        count += 1
    if count > MAX_BODY or has_yield != generator:
      return False
    # nested function definitions that close over helper locals would need renaming too: skip those helpers
    if any(isinstance(x, (ast.FunctionDef, ast.AsyncFunctionDef, ast.ClassDef)) for x in walk_no_nested(n, include_self=False)):
      return False
    # lambdas are fine: a lambda parameter that shares its name with a helper local is renamed along with it (_expand)
    if any(l.args.vararg or l.args.kwarg for l in ast.walk(n) if isinstance(l, ast.Lambda)):
      return False
    return True

  # ------------------------------------------------------------------ expansion of one call
  def _expand(self, call, callee, fn, stack, inlined, depth, mode='value'):
    self._k += 1
    k = self._k
    saved_parent = getattr(callee.node, '_parent', None)
    callee.node._parent = None
    try:
      node = copy.deepcopy(callee.node)
    finally:
      callee.node._parent = saved_parent
    params = [a.arg for a in node.args.posonlyargs + node.args.args]
    kwonly = [a.arg for a in node.args.kwonlyargs]
    stored = {x.id for x in walk_no_nested(node, include_self=False) if isinstance(x, ast.Name) and isinstance(x.ctx, (ast.Store, ast.Del))}
    for x in walk_no_nested(node, include_self=False):
      if isinstance(x, ast.ExceptHandler) and x.name:
        stored.add(x.name)
    rename = {n: '%s__i%d' % (n, k) for n in (stored | set(params) | set(kwonly))}
    binds = []
    args = list(call.args)
    f = call.func
    bound_self = False
    if callee.cls is not None and params and not callee.is_staticmethod and isinstance(f, ast.Attribute):
      recv = f.value
      first = params[0]
      base_call = isinstance(recv, ast.Name) and recv.id[:1].isupper() and not callee.is_classmethod
      if base_call:
        # `Name.m(...)` with a capitalised Name: an explicit-base call Base.m(self, ...), unless Name is a module-level
        # instance (carbon's `BufferManager = BufferManager()` singletons)
        try:
          ts = self.T.expr_types(recv, fn.module, getattr(fn, 'original', fn) if hasattr(fn, 'node') and not isinstance(fn.node, ast.Module) else None)
        except Exception:
          ts = ()
        if ts and all(t_[0] == 'inst' for t_ in ts):
          base_call = False
      if isinstance(recv, ast.Name) and recv.id == first:
        rename.pop(first, None)           # self stays self
      elif base_call and args:
        pass
      else:
        binds.append((first, recv))
      if not base_call:
        params_for_args = params[1:]
        bound_self = True
    if not bound_self:
      params_for_args = params
    if len(args) > len(params_for_args):
      return None
    for p, a in zip(params_for_args, args):
      binds.append((p, a))
    given = {p for p, _ in binds}
    for kw in call.keywords:
      if kw.arg in params_for_args or kw.arg in kwonly:
        binds.append((kw.arg, kw.value))
        given.add(kw.arg)
      else:
        return None
    defaults = dict(zip(params[len(params) - len(node.args.defaults):], node.args.defaults)) if node.args.defaults else {}
    for a, d in zip(node.args.kwonlyargs, node.args.kw_defaults):
      if d is not None:
        defaults[a.arg] = d
    for p in params_for_args + kwonly:
      if p not in given:
        if p in defaults:
          binds.append((p, defaults[p]))
        else:
          return None
    # names the helper reads from its module must not be captured by locals of the function it is spliced into
    free = {x.id for x in walk_no_nested(node, include_self=False) if isinstance(x, ast.Name)} - set(rename) - {'self', 'cls'}
    if callee.module is not fn.module and getattr(fn, 'module', None) is not None:
      fnames = self._foreign_names(callee, fn)
      if fnames is None:
        return None
      pend = self.__dict__.setdefault('_pending_imports', {})
      for n, (b, alias) in fnames.items():
        if fn.module.imports.get(n) != b and not (b[0] == 'from' and b[1] == fn.module.name):
          pend.setdefault(fn.module.relpath, {})[alias] = b
        if alias != n:
          rename.setdefault(n, alias)
    closure_of = getattr(callee, 'parent_fn', None)
    if closure_of is not None:
      # a function nested in the one it is called from: the enclosing function's locals it reads are meant to be those locals
      enclosing = _locals_of(closure_of.node) if not isinstance(closure_of.node, ast.Lambda) else set()
      if closure_of.key not in stack and getattr(fn, 'key', None) != closure_of.key:
        return None         # called from elsewhere (passed around): leave it
      if any(isinstance(x, ast.Nonlocal) for x in ast.walk(node)):
        return None
      free = free - enclosing
    if free & getattr(self, '_cur_locals', set()):
      return None
    ret = '__ret%d' % k
    if isinstance(mode, tuple):
      ret = mode[1]          # x = helper(...): the helper's result is assigned to x where the helper returned
    body = node.body
    if body and isinstance(body[0], ast.Expr) and isinstance(body[0].value, ast.Constant) and isinstance(body[0].value.value, str):
      body = body[1:]
    if mode == 'generator':
      # for x in helper(...): yield x   (helper is a generator): its yields and returns are the caller's
      new_body = list(body)
    elif mode == 'return':
      # return helper(...): the helper's own return statements return from the caller just the same
      new_body = list(body)
      if not _always_returns(new_body):
        new_body.append(ast.Return(value=ast.Constant(value=None)))
    else:
      new_body = _tailify(body, '__ret%d' % k)
      if new_body is None:
        return None       # returns that are not in tail position (inside the helper's own loops, ...): the call stays
    # a parameter the helper never assigns is replaced by the argument itself when that is a plain name or a constant
    # (nothing in the spliced body can change the caller's variable); other arguments are bound to a fresh name first
    subst = {}
    kept = []
    stored_attrs = {x.attr for x in ast.walk(node) if isinstance(x, ast.Attribute) and isinstance(x.ctx, (ast.Store, ast.Del))}
    for p, a in binds:
      if p not in stored and isinstance(a, ast.Name):
        rename[p] = a.id
      elif p not in stored and isinstance(a, ast.Constant):
        subst[p] = a
        rename.pop(p, None)
      elif p not in stored and isinstance(a, ast.Attribute) and isinstance(a.value, ast.Name) and a.value.id in ('self', 'cls') and \
          a.attr not in stored_attrs and callee.cls is None and \
          sum(1 for x in walk_no_nested(node, include_self=False) if isinstance(x, ast.Name) and x.id == p) <= 2 and \
          any(isinstance(x, ast.Call) and isinstance(x.func, ast.Name) and x.func.id == p for x in ast.walk(node)):
        # a bound method handed to a module-level helper as a callback and only called there: written where it is called
        subst[p] = a
        rename.pop(p, None)
      else:
        kept.append((p, a))
    binds = kept
    for st in new_body:
      for x in ast.walk(st):
        if isinstance(x, ast.Name) and x.id in rename:
          x.id = rename[x.id]
        elif isinstance(x, ast.ExceptHandler) and x.name in rename:
          x.name = rename[x.name]
        elif isinstance(x, ast.Lambda):
          for a in x.args.posonlyargs + x.args.args + x.args.kwonlyargs:
            if a.arg in rename and a.arg not in subst:
              a.arg = rename[a.arg]
    if subst:
      class _Sub(ast.NodeTransformer):
        def visit_Name(self, n):
          if n.id in subst and isinstance(n.ctx, ast.Load):
            if isinstance(subst[n.id], ast.Constant):
              return ast.copy_location(ast.Constant(value=subst[n.id].value), n)
            return ast.copy_location(_clone(subst[n.id]), n)
          return n
      new_body = [_Sub().visit(st) for st in new_body]
    if callee.name == '__call__' and isinstance(f, ast.Attribute) and isinstance(f.value, ast.Name) and f.value.id == 'self':
      flds = self._ctor_fields(fn, f.attr, callee.cls)
      selfname = rename.get(params[0], params[0]) if params else None
      if flds and selfname:
        class _F(ast.NodeTransformer):
          def visit_Attribute(self, n):
            self.generic_visit(n)
            if isinstance(n.value, ast.Name) and n.value.id == selfname and n.attr in flds and isinstance(n.ctx, ast.Load):
              return ast.copy_location(_clone(flds[n.attr]), n)
            return n
        new_body = [_F().visit(st) for st in new_body]
    tmp = '__ret%d' % k
    if mode == 'expr':
      new_body = _drop_result(new_body, tmp)
    elif isinstance(mode, tuple):
      for st in new_body:
        for x in ast.walk(st):
          if isinstance(x, ast.Name) and x.id == tmp:
            x.id = ret
    pre = []
    for p, a in binds:
      tgt = rename.get(p, p)
      if isinstance(a, ast.Call) and isinstance(a.func, ast.Name) and callee.cls is not None and params and p == params[0]:
        # self of the spliced method is an object built for this call: remember its class for the hook calls in the body
        for k_ in [callee.cls] + list(self.repo.subclasses(callee.cls)):
          if k_.name == a.func.id:
            self.__dict__.setdefault('_recv_class', {})[tgt] = k_
      pre.append(ast.copy_location(ast.Assign(targets=[ast.Name(id=tgt, ctx=ast.Store())], value=_clone(a)), call))
    result = pre + new_body
    for st in result:
      ast.copy_location(st, st if hasattr(st, 'lineno') else call)
      for x in ast.walk(st):
        if not hasattr(x, 'lineno') and isinstance(x, (ast.expr, ast.stmt)):
          ast.copy_location(x, call)
    inlined.append(callee.key)
    # helpers of the helper
    result = self._block(result, callee, stack + [callee.key], inlined, depth + 1)
    return result, ret


# ---------------------------------------------------------------------- helpers

def _desugar_yield_from(defnode, only_non_calls=False):
  """`yield from E` used as a statement (what is left after generator helpers were spliced)  ->  for v in E: yield v
  only_non_calls: leave `yield from f(...)` alone (a generator helper that the delegation pass may still splice)."""
  n = [getattr(defnode, '_yf_count', 0)]

  class Y(ast.NodeTransformer):
    def visit_Expr(self, st):
      if isinstance(st.value, ast.YieldFrom) and not (only_non_calls and isinstance(st.value.value, ast.Call)):
        n[0] += 1
        v = '__yf%d' % n[0]
        y = ast.Expr(value=ast.Yield(value=ast.Name(id=v, ctx=ast.Load())))
        loop = ast.For(target=ast.Name(id=v, ctx=ast.Store()), iter=st.value.value, body=[y], orelse=[])
        for x in ast.walk(loop):
          if x is not st.value.value and not hasattr(x, 'lineno') and isinstance(x, (ast.expr, ast.stmt)):
            ast.copy_location(x, st)
        ast.copy_location(loop, st)
        ast.fix_missing_locations(loop)
        return loop
      return st

    def visit_FunctionDef(self, node):
      return node

    def visit_Lambda(self, node):
      return node
  before = n[0]
  for field in ('body',):
    defnode.body = [Y().visit(st) for st in defnode.body]
  defnode._yf_count = n[0]
  return n[0] > before


def _split_parallel_assignments(defnode):
  """a, b = (x__i3, E)   ->   a = x__i3; b = E     when some element is a synthetic name (a spliced helper's result being
  handed over), all targets are distinct plain names and no element reads a target: the order of evaluation is unchanged."""
  import re
  syn = re.compile(r'__(i|ret)\d+$')
  for owner in ast.walk(defnode):
    for field in ('body', 'orelse', 'finalbody'):
      blk = getattr(owner, field, None)
      if not isinstance(blk, list):
        continue
      i = 0
      while i < len(blk):
        st = blk[i]
        if isinstance(st, ast.Assign) and len(st.targets) == 1 and isinstance(st.targets[0], (ast.Tuple, ast.List)) and \
           isinstance(st.value, (ast.Tuple, ast.List)) and len(st.targets[0].elts) == len(st.value.elts) and \
           all(isinstance(t, ast.Name) for t in st.targets[0].elts) and \
           any(isinstance(v, ast.Name) and syn.search(v.id) for v in st.value.elts) and \
           not all(isinstance(v, ast.Name) for v in st.value.elts):
          tn = [t.id for t in st.targets[0].elts]
          reads = {x.id for v in st.value.elts for x in ast.walk(v) if isinstance(x, ast.Name)}
          if len(set(tn)) == len(tn) and not (set(tn) & reads):
            new = []
            for t, v in zip(st.targets[0].elts, st.value.elts):
              a = ast.Assign(targets=[t], value=v)
              ast.copy_location(a, st)
              new.append(a)
            blk[i:i + 1] = new
            i += len(new)
            continue
        i += 1


_SYNTH = None


def _coalesce_copies(defnode):
  """`x__i7 = f(); ...; x = x__i7` (the result of a spliced helper handed to the caller's variable): when the synthetic name
  and the caller's name are each assigned exactly once, both assignments are in the same statement list with nothing in
  between that could skip the copy, and the caller's name is only read after the copy, the two are one variable: the
  synthetic name is replaced by the caller's and the copy disappears.  Rules then see `x = f()` as in the unspliced code."""
  import re
  global _SYNTH
  if _SYNTH is None:
    _SYNTH = re.compile(r'__(i|ret)\d+$')
  _split_parallel_assignments(defnode)
  params = {a.arg for a in defnode.args.posonlyargs + defnode.args.args + defnode.args.kwonlyargs}
  if defnode.args.vararg:
    params.add(defnode.args.vararg.arg)
  if defnode.args.kwarg:
    params.add(defnode.args.kwarg.arg)
  for _ in range(20):
    order = {}
    stores, loads = {}, {}
    scoped = set()
    for i, x in enumerate(ast.walk(defnode)):
      order[id(x)] = i
    # pre-order positions (ast.walk is breadth-first): use a DFS numbering
    pos = {}

    def number(n, c=[0]):
      pos[id(n)] = c[0]
      c[0] += 1
      for ch in ast.iter_child_nodes(n):
        number(ch, c)
    number(defnode, [0])
    for x in ast.walk(defnode):
      if isinstance(x, ast.Name):
        (stores if isinstance(x.ctx, (ast.Store, ast.Del)) else loads).setdefault(x.id, []).append(x)
      elif isinstance(x, (ast.Global, ast.Nonlocal)):
        scoped |= set(x.names)
      elif isinstance(x, ast.ExceptHandler) and x.name:
        stores.setdefault(x.name, []).append(x)
      elif isinstance(x, ast.arg) and x.arg not in params:
        stores.setdefault(x.arg, []).append(x)          # parameters of nested lambdas / defs
    done = False
    for blk_owner in ast.walk(defnode):
      for field in ('body', 'orelse', 'finalbody'):
        blk = getattr(blk_owner, field, None)
        if not isinstance(blk, list):
          continue
        for si, S in enumerate(blk):
          if not (isinstance(S, ast.Assign) and len(S.targets) == 1):
            continue
          t, v = S.targets[0], S.value
          if isinstance(t, ast.Name) and isinstance(v, ast.Name):
            pairs = [(t, v)]
          elif isinstance(t, (ast.Tuple, ast.List)) and isinstance(v, (ast.Tuple, ast.List)) and len(t.elts) == len(v.elts) and \
              all(isinstance(e, ast.Name) for e in t.elts + v.elts):
            pairs = list(zip(t.elts, v.elts))
          else:
            continue
          for (tn, vn) in pairs:
            u, syn = tn.id, vn.id
            if u == syn or not _SYNTH.search(syn) or _SYNTH.search(u) or u in params or u in scoped or syn in scoped:
              continue
            if len(stores.get(syn, [])) != 1 or len(stores.get(u, [])) != 1 or not isinstance(stores[syn][0], ast.Name):
              continue
            dnode = stores[syn][0]
            # the defining statement D of the synthetic name: an assignment earlier in the same statement list
            di = None
            for j in range(si):
              if isinstance(blk[j], ast.Assign) and any(y is dnode for tt in blk[j].targets for y in ast.walk(tt)):
                di = j
            if di is None and field == 'body' and isinstance(blk_owner, ast.For) and not blk_owner.orelse and \
               any(y is dnode for y in ast.walk(blk_owner.target)):
              di = -1        # the synthetic name is the loop variable of the loop whose body the copy sits in
            if di is None:
              # D in an enclosing statement list, before the statement that contains the copy (D dominates the copy):
              # sound when every read of the caller's name sits after the copy in the copy's own statement list
              after_ids = {id(y) for st in blk[si + 1:] for y in ast.walk(st)}
              if not all(id(l) in after_ids for l in loads.get(u, [])):
                continue
              dominated = False
              for ob in ast.walk(defnode):
                for f2 in ('body', 'orelse', 'finalbody'):
                  b2 = getattr(ob, f2, None)
                  if not isinstance(b2, list) or b2 is blk:
                    continue
                  holder = [k for k, st in enumerate(b2) if any(y is S for y in ast.walk(st))]
                  if not holder:
                    continue
                  for j in range(holder[0]):
                    if isinstance(b2[j], ast.Assign) and any(y is dnode for tt in b2[j].targets for y in ast.walk(tt)):
                      dominated = True
                  if f2 == 'body' and isinstance(ob, ast.For) and not ob.orelse and any(y is dnode for y in ast.walk(ob.target)):
                    dominated = True
              if not dominated:
                continue
            else:
              if any(isinstance(y, (ast.Continue, ast.Break)) for st in blk[di + 1:si] for y in ast.walk(st)):
                continue
              if any(pos[id(l)] < pos[id(S)] for l in loads.get(u, [])):
                continue
            for l in loads.get(syn, []) + stores[syn]:
              l.id = u
            done = True
            break
          if done:
            break
        if done:
          break
      if done:
        break
    if not done:
      break
    # drop the identity copies left behind
    class Drop(ast.NodeTransformer):
      def visit_Assign(self, n):
        if len(n.targets) == 1:
          t, v = n.targets[0], n.value
          if isinstance(t, ast.Name) and isinstance(v, ast.Name) and t.id == v.id:
            return None
          if isinstance(t, (ast.Tuple, ast.List)) and isinstance(v, (ast.Tuple, ast.List)) and len(t.elts) == len(v.elts) and \
             all(isinstance(e, ast.Name) for e in t.elts + v.elts):
            keep = [(a, b) for a, b in zip(t.elts, v.elts) if a.id != b.id]
            if not keep:
              return None
            if len(keep) < len(t.elts):
              if len(keep) == 1:
                n.targets, n.value = [keep[0][0]], keep[0][1]
              else:
                t.elts, v.elts = [a for a, _ in keep], [b for _, b in keep]
        return n
    Drop().visit(defnode)
    for x in ast.walk(defnode):
      for field in ('body', 'orelse', 'finalbody'):
        b_ = getattr(x, field, None)
        if isinstance(b_, list) and not b_ and field == 'body' and isinstance(x, (ast.If, ast.For, ast.While, ast.With, ast.Try, ast.ExceptHandler)):
          b_.append(ast.copy_location(ast.Pass(), x))


def _check_bound(defnode, fi):
  """every synthetic name that is read is also bound somewhere in the function: the splice is well formed."""
  import re
  from .model import AnalysisError
  bound = _locals_of(defnode)
  for x in ast.walk(defnode):
    if isinstance(x, (ast.FunctionDef, ast.AsyncFunctionDef)) and x is not defnode:
      bound |= _locals_of(x)
    elif isinstance(x, ast.comprehension):
      bound |= {y.id for y in ast.walk(x.target) if isinstance(y, ast.Name)}
  for x in ast.walk(defnode):
    if isinstance(x, ast.Name) and isinstance(x.ctx, ast.Load) and re.search(r'__(i|ret)\d+$', x.id) and x.id not in bound:
      raise AnalysisError('inliner produced an unbound name %s in %s' % (x.id, fi.key))


FLAG_CALLS = {'len', 'isinstance', 'bool', 'callable', 'hasattr'}


def _pure_test(e):
  """a boolean-valued expression without side effects that may be evaluated a second time."""
  for x in ast.walk(e):
    if isinstance(x, (ast.Name, ast.Constant, ast.Attribute, ast.Compare, ast.BoolOp, ast.UnaryOp, ast.expr_context, ast.boolop,
                      ast.cmpop, ast.unaryop, ast.Tuple)):
      continue
    if isinstance(x, ast.Call) and isinstance(x.func, ast.Name) and x.func.id in FLAG_CALLS and not x.keywords:
      continue
    return False
  return isinstance(e, (ast.Compare, ast.BoolOp)) or (isinstance(e, ast.UnaryOp) and isinstance(e.op, ast.Not))


def _subst_flags(block):
  """flag = <test>            if <test>: ...
     if flag: ...        ==>
  for a flag assigned in the statement just before the ``if`` that tests it (nothing can change the operands in
  between).  The assignment stays; only the test is rewritten, so that path rules see the real condition."""
  changed = False
  for i in range(len(block) - 1):
    d, u = block[i], block[i + 1]
    if not (isinstance(d, ast.Assign) and len(d.targets) == 1 and isinstance(d.targets[0], ast.Name) and _pure_test(d.value)):
      continue
    if not isinstance(u, (ast.If,)):
      continue
    name = d.targets[0].id
    if any(isinstance(x, ast.Name) and x.id == name for x in ast.walk(d.value)):
      continue
    uses = [x for x in ast.walk(u.test) if isinstance(x, ast.Name) and x.id == name and isinstance(x.ctx, ast.Load)]
    if not uses:
      continue

    class S(ast.NodeTransformer):
      def visit_Name(self, n):
        if n.id == name and isinstance(n.ctx, ast.Load):
          return ast.copy_location(_clone(d.value), n)
        return n
    u.test = S().visit(u.test)
    ast.fix_missing_locations(u)
    changed = True
  return changed


def _const_id(e, module):
  """identity of a constant expression: ('lit', value) for a literal or a module-level name bound once to a literal,
  ('obj', name) for a module-level name bound once to object(); None otherwise"""
  if isinstance(e, ast.Constant) and isinstance(e.value, (bool, int, str, type(None))):
    return ('lit', type(e.value).__name__, e.value)
  if isinstance(e, ast.Name) and module is not None:
    vals = module.globals.get(e.id, [])
    if len(vals) == 1 and not any(isinstance(x, ast.Global) and e.id in x.names for x in ast.walk(module.tree)):
      v = vals[0]
      if isinstance(v, ast.Constant) and isinstance(v.value, (bool, int, str, type(None))):
        return ('lit', type(v.value).__name__, v.value)
      if isinstance(v, ast.Call) and isinstance(v.func, ast.Name) and v.func.id == 'object' and not v.args:
        return ('obj', e.id)
    # A, B, C = range(3)   /   A, B = 'a', 'b'     at module level, bound nowhere else
    stores = [x for x in ast.walk(module.tree) if isinstance(x, ast.Name) and x.id == e.id and isinstance(x.ctx, ast.Store)]
    if len(stores) == 1:
      for st in module.tree.body:
        if isinstance(st, ast.Assign) and len(st.targets) == 1 and isinstance(st.targets[0], (ast.Tuple, ast.List)) and \
           any(t is stores[0] for t in st.targets[0].elts):
          idx = [k for k, t in enumerate(st.targets[0].elts) if t is stores[0]][0]
          v = st.value
          if isinstance(v, ast.Call) and isinstance(v.func, ast.Name) and v.func.id == 'range' and len(v.args) == 1 and \
             isinstance(v.args[0], ast.Constant) and v.args[0].value == len(st.targets[0].elts):
            return ('lit', 'int', idx)
          if isinstance(v, (ast.Tuple, ast.List)) and len(v.elts) == len(st.targets[0].elts) and isinstance(v.elts[idx], ast.Constant) and \
             isinstance(v.elts[idx].value, (bool, int, str, type(None))):
            return ('lit', type(v.elts[idx].value).__name__, v.elts[idx].value)
  return None


def _sink_flag_tests(block, fn=None):
  """if c: A; r = False                      if c: A; <what `if r` does for False>
     else: B; r = <expr>            ==>      else: B; r = <expr>; if r: S1 else: S2
     if r: S1 else: S2
  for a result / verdict name r that every arm of the first statement assigns last and that only the tests of the second
  (an if / elif chain on r: `r`, `not r`, `r == K`, `r is K` with constants K) read.  The test moves to where its outcome is
  known; nothing is reordered."""
  import re
  syn = re.compile(r'^__ret\d+$|__i\d+$')
  module = getattr(fn, 'module', None)
  changed = False
  i = 0
  while i < len(block) - 1:
    a, u = block[i], block[i + 1]
    i += 1
    if not (isinstance(a, ast.If) and a.orelse and isinstance(u, ast.If)):
      continue

    def flag_of(t):
      core = t.operand if isinstance(t, ast.UnaryOp) and isinstance(t.op, ast.Not) else t
      if isinstance(core, ast.Name):
        return core.id
      if isinstance(core, ast.Compare) and len(core.ops) == 1 and isinstance(core.ops[0], (ast.Eq, ast.NotEq, ast.Is, ast.IsNot)) and \
         isinstance(core.left, ast.Name) and _const_id(core.comparators[0], module) is not None:
        return core.left.id
      return None
    x = flag_of(u.test)
    if x is None:
      continue
    # the chain of tests on x
    chain_tests = []
    node = u
    while True:
      if flag_of(node.test) != x:
        break
      chain_tests.append(node.test)
      if len(node.orelse) == 1 and isinstance(node.orelse[0], ast.If) and flag_of(node.orelse[0].test) == x:
        node = node.orelse[0]
      else:
        break
    in_tests = sum(1 for t in chain_tests for y in ast.walk(t) if isinstance(y, ast.Name) and y.id == x)
    scope = block
    if not syn.search(x):
      if fn is None or isinstance(getattr(fn, 'node', None), (ast.Module, ast.Lambda)) or x in getattr(fn, 'params', ()):
        continue
      # a name of the function itself: in the source it is assigned once (the statement the helper was spliced into) and
      # read only by this chain of tests
      o_stores = sum(1 for y in ast.walk(fn.node) if isinstance(y, ast.Name) and y.id == x and isinstance(y.ctx, ast.Store))
      o_loads = sum(1 for y in ast.walk(fn.node) if isinstance(y, ast.Name) and y.id == x and isinstance(y.ctx, ast.Load))
      b_stores = sum(1 for st in block for y in ast.walk(st) if isinstance(y, ast.Name) and y.id == x and isinstance(y.ctx, ast.Store))
      a_stores = sum(1 for y in ast.walk(a) if isinstance(y, ast.Name) and y.id == x and isinstance(y.ctx, ast.Store))
      if o_stores != 1 or o_loads != in_tests or b_stores != a_stores:
        continue
    loads = sum(1 for st in scope for y in ast.walk(st) if isinstance(y, ast.Name) and y.id == x and isinstance(y.ctx, ast.Load))
    if loads != in_tests:
      continue

    def leaves(blk):
      """the assignments `x = v` that end every path through blk, or None"""
      if not blk:
        return None
      last = blk[-1]
      if isinstance(last, ast.Assign) and len(last.targets) == 1 and isinstance(last.targets[0], ast.Name) and last.targets[0].id == x:
        if any(isinstance(y, ast.Name) and y.id == x for y in ast.walk(last.value)):
          return None
        return [(blk, last)]
      if isinstance(last, ast.If) and last.orelse:
        l, r = leaves(last.body), leaves(last.orelse)
        if l is None or r is None:
          return None
        return l + r
      return None
    lv = leaves(a.body)
    rv = leaves(a.orelse)
    if lv is None or rv is None:
      continue
    all_leaves = lv + rv
    n_assign = sum(1 for y in ast.walk(a) if isinstance(y, ast.Name) and y.id == x and isinstance(y.ctx, ast.Store))
    if n_assign != len(all_leaves):
      continue                # the flag is also assigned somewhere else inside the arms

    def decide(t, cid):
      neg = isinstance(t, ast.UnaryOp) and isinstance(t.op, ast.Not)
      core = t.operand if neg else t
      out = None
      if isinstance(core, ast.Name):
        if cid[0] == 'lit':
          out = bool(cid[2])
        elif cid[0] == 'obj':
          out = True
      else:
        k = _const_id(core.comparators[0], module)
        if k is not None:
          eq = (k == cid)
          if cid[0] == 'lit' and k[0] == 'lit' and isinstance(core.ops[0], (ast.Is, ast.IsNot)) and cid[1] not in ('bool', 'NoneType'):
            return None      # identity of equal literals: leave it
          out = eq if isinstance(core.ops[0], (ast.Eq, ast.Is)) else not eq
      if out is None:
        return None
      return (not out) if neg else out

    def choose(node, cid):
      """the statements the chain runs when x holds the constant cid; None if some test cannot be decided"""
      d = decide(node.test, cid)
      if d is None:
        return None
      if d:
        return node.body
      if len(node.orelse) == 1 and isinstance(node.orelse[0], ast.If) and flag_of(node.orelse[0].test) == x:
        return choose(node.orelse[0], cid)
      return node.orelse
    plans = []
    for blk, asg in all_leaves:
      cid = _const_id(asg.value, module)
      sel = choose(u, cid) if cid is not None else None
      plans.append(sel)
    if not any(p is not None for p in plans):
      continue
    size = sum(1 for y in ast.walk(u) if isinstance(y, ast.stmt))
    if sum(1 for p in plans if p is None) > 1 and size > MAX_DUP:
      continue
    for (blk, asg), sel in zip(all_leaves, plans):
      if sel is not None:
        blk.pop()                      # the flag is not read on this arm any more
        blk.extend(_clone(st) for st in sel)
        if not blk:
          blk.append(ast.copy_location(ast.Pass(), asg))
      else:
        blk.append(_clone(u))
    block.pop(i)
    i -= 1
    changed = True
  return changed


def _eliminate_continue(stmts):
  """the statement list of a loop body rewritten without `continue` (and with no `break` of that loop), or None:
       if T: A; continue          if T: A
       REST                 ->    else: REST
  applied recursively; a continue that ends the list is dropped."""
  def own(x_list, kinds):
    for st in x_list:
      for x in walk_no_nested(st):
        if isinstance(x, kinds):
          inner = any(isinstance(y, (ast.For, ast.While)) and any(z is x for z in ast.walk(y)) for y in walk_no_nested(st) )
          if not inner:
            return True
    return False
  if own(stmts, ast.Break):
    return None

  def ends_with_continue(blk):
    return bool(blk) and isinstance(blk[-1], ast.Continue)

  def go(lst):
    out = []
    for i, st in enumerate(lst):
      rest = lst[i + 1:]
      if isinstance(st, ast.Continue):
        return out                    # nothing after it runs
      if isinstance(st, ast.If) and own([st], ast.Continue):
        b, o = st.body, st.orelse
        if ends_with_continue(b) and not own(b[:-1], ast.Continue) and not own(o, ast.Continue):
          nb = b[:-1] or [ast.copy_location(ast.Pass(), st)]
          tail = go(rest)
          if tail is None:
            return None
          st.body = nb
          st.orelse = (o + tail) if o else tail
          out.append(st)
          return out
        if ends_with_continue(o) and not own(o[:-1], ast.Continue) and not own(b, ast.Continue):
          tail = go(rest)
          if tail is None:
            return None
          st.body = b + tail
          st.orelse = o[:-1]
          out.append(st)
          return out
        return None
      if own([st], ast.Continue):
        return None
      out.append(st)
    return out
  res = go(list(stmts))
  if res is None or own(res, ast.Continue):
    return None
  return res or [ast.Pass()]


def _returns_leave_only_loop(defnode):
  """the generator's body is a single loop (after the docstring) and each of its `return`s (without a value) sits in that
  loop and in no inner one: `return` is `break` there, and nothing runs after the loop."""
  body = [st for st in defnode.body if not (isinstance(st, ast.Expr) and isinstance(st.value, ast.Constant))]
  if len(body) != 1 or not isinstance(body[0], (ast.For, ast.While)) or body[0].orelse:
    return False
  loop = body[0]
  for r in walk_no_nested(defnode, include_self=False):
    if not isinstance(r, ast.Return):
      continue
    if r.value is not None and not (isinstance(r.value, ast.Constant) and r.value.value is None):
      return False
    for y in walk_no_nested(loop, include_self=False):
      if isinstance(y, (ast.For, ast.While)) and any(z is r for z in ast.walk(y)):
        return False
      if isinstance(y, ast.Try) and y.finalbody and any(z is r for z in ast.walk(y)):
        return False
  return True


def _yield_ends_last_loop(defnode):
  """the generator is `<preamble>; for/while ...: <stmts>; yield v` with the single yield as the last statement of the body
  of its last statement, a loop: a consumer's `continue` / `break` is then a `continue` / `break` of that loop."""
  body = [st for st in defnode.body if not (isinstance(st, ast.Expr) and isinstance(st.value, ast.Constant))]
  if not body or not isinstance(body[-1], (ast.For, ast.While)) or body[-1].orelse:
    return False
  loop = body[-1]
  ys = [x for x in walk_no_nested(defnode, include_self=False) if isinstance(x, (ast.Yield, ast.YieldFrom))]
  if len(ys) != 1:
    return False
  last = loop.body[-1]
  if not (isinstance(last, ast.Expr) and last.value is ys[0]):
    return False
  # no return in the preamble that the consumer's break would have to skip ... returns are fine (tail rule applies)
  return True


MAX_UNROLL = 8


def _plain_element(e):
  """an element of a literal table that can stand wherever the loop variable stood: names, attributes, constants"""
  if isinstance(e, (ast.Tuple, ast.List)):
    return all(_plain_element(x) for x in e.elts)
  if isinstance(e, ast.Constant):
    return True
  if isinstance(e, ast.Name):
    return True
  if isinstance(e, ast.Attribute):
    return _plain_element(e.value)
  return False


def _factory_row(e, module):
  """a table row some of whose cells are `factory(<constants>)` with a module-level closure factory (a function that only
  defines one inner function / lambda and returns it): building the closure has no effect, so the cell may be written where
  the loop variable stood (once per row: each row is used once)."""
  if module is None:
    return False
  if isinstance(e, (ast.Tuple, ast.List)):
    return all(_plain_element(x) or _factory_row(x, module) for x in e.elts)
  if isinstance(e, ast.Call) and isinstance(e.func, ast.Name) and not e.keywords and all(isinstance(a, ast.Constant) for a in e.args):
    fs = module.functions.get(e.func.id)
    if not fs or len(fs) != 1 or isinstance(fs[0].node, ast.Lambda):
      return False
    body = [st for st in fs[0].node.body if not (isinstance(st, ast.Expr) and isinstance(st.value, ast.Constant))]
    if len(body) == 2 and isinstance(body[0], ast.FunctionDef) and isinstance(body[1], ast.Return) and \
       isinstance(body[1].value, ast.Name) and body[1].value.id == body[0].name:
      return True
    if len(body) == 1 and isinstance(body[0], ast.Return) and isinstance(body[0].value, ast.Lambda):
      return True
  return False


def _fold_tests(stmts):
  """`if True: A else: B` -> A ; `x and True` -> x ; `not False` -> True ... after a mode flag was replaced by a constant"""
  def fold(e):
    if isinstance(e, ast.UnaryOp) and isinstance(e.op, ast.Not):
      v = fold(e.operand)
      if isinstance(v, ast.Constant) and isinstance(v.value, bool):
        return ast.copy_location(ast.Constant(value=not v.value), e)
      e.operand = v
      return e
    if isinstance(e, ast.BoolOp):
      vals = [fold(v) for v in e.values]
      is_and = isinstance(e.op, ast.And)
      keep = []
      for v in vals:
        if isinstance(v, ast.Constant) and isinstance(v.value, bool):
          if v.value != is_and:
            return ast.copy_location(ast.Constant(value=not is_and), e)      # False in an `and` / True in an `or`
          continue
        keep.append(v)
      if not keep:
        return ast.copy_location(ast.Constant(value=is_and), e)
      if len(keep) == 1:
        return keep[0]
      e.values = keep
      return e
    return e
  out = []
  for st in stmts:
    for field in ('body', 'orelse', 'finalbody'):
      if isinstance(getattr(st, field, None), list) and not isinstance(st, (ast.FunctionDef, ast.AsyncFunctionDef, ast.ClassDef)):
        setattr(st, field, _fold_tests(getattr(st, field)))
    if isinstance(st, ast.Try):
      for h in st.handlers:
        h.body = _fold_tests(h.body)
    if isinstance(st, (ast.If, ast.While)):
      st.test = fold(st.test)
    if isinstance(st, ast.If) and isinstance(st.test, ast.Constant) and isinstance(st.test.value, bool):
      out.extend(st.body if st.test.value else st.orelse)
      continue
    if isinstance(st, (ast.For, ast.While, ast.If, ast.With, ast.Try)) and not st.body:
      st.body = [ast.copy_location(ast.Pass(), st)]
    out.append(st)
  return out


def _unswitch_loops(block):
  """mode = <expr>                             mode = <expr>
     for x in xs:                              if mode:  for x in xs: <body with mode := True, tests folded>
       if mode: A else: B          ->          else:     for x in xs: <body with mode := False, tests folded>
  for a local that is assigned once, before the loop, and only read as a truth value inside it (never assigned there):
  the two modes of a fused loop are analysed as the two loops they are."""
  changed = False
  out = list(block)
  i = 0
  while i < len(out):
    lp = out[i]
    if not isinstance(lp, (ast.For, ast.While)) or lp.orelse:
      i += 1
      continue
    stored_in = {x.id for x in ast.walk(lp) if isinstance(x, ast.Name) and isinstance(x.ctx, (ast.Store, ast.Del))}
    tested = {}
    for x in ast.walk(lp):
      if isinstance(x, ast.If):
        for y in ast.walk(x.test):
          if isinstance(y, ast.Name) and isinstance(y.ctx, ast.Load):
            tested[y.id] = tested.get(y.id, 0) + 1
    flag = None
    for name, cnt in tested.items():
      if name in stored_in or cnt < 2:
        continue
      defs = [st for st in out[:i] if isinstance(st, ast.Assign) and len(st.targets) == 1 and isinstance(st.targets[0], ast.Name) and
              st.targets[0].id == name]
      all_stores = sum(1 for st in out for x in ast.walk(st) if isinstance(x, ast.Name) and x.id == name and isinstance(x.ctx, ast.Store))
      if len(defs) != 1 or all_stores != 1:
        continue
      # read only as a truth value (operand of if / and / or / not) inside the loop
      ok = True
      for x in ast.walk(lp):
        if isinstance(x, ast.Name) and x.id == name and isinstance(x.ctx, ast.Load):
          ok = ok and _truth_position(lp, x)
      if ok:
        flag = name
        break
    if flag is None or sum(1 for x in ast.walk(lp) if isinstance(x, ast.stmt)) > 40:
      i += 1
      continue
    arms = []
    for val in (True, False):
      cp = _clone(lp)

      class S(ast.NodeTransformer):
        def visit_Name(self, n):
          if n.id == flag and isinstance(n.ctx, ast.Load):
            return ast.copy_location(ast.Constant(value=val), n)
          return n
      cp = S().visit(cp)
      arms.append(_fold_tests([cp]))
    new = ast.If(test=ast.Name(id=flag, ctx=ast.Load()), body=arms[0], orelse=arms[1])
    ast.copy_location(new, lp)
    ast.copy_location(new.test, lp)
    ast.fix_missing_locations(new)
    out[i] = new
    changed = True
    i += 1
  return out if changed else None


def _truth_position(root, name_node):
  """the Name occurrence is used only for its truth value: it is an if/while test or an operand of and/or/not in one"""
  parents = {}
  for p in ast.walk(root):
    for c in ast.iter_child_nodes(p):
      parents[id(c)] = p
  n = name_node
  p = parents.get(id(n))
  while isinstance(p, (ast.BoolOp, ast.UnaryOp)) and (isinstance(p, ast.BoolOp) or isinstance(p.op, ast.Not)):
    n, p = p, parents.get(id(p))
  return isinstance(p, (ast.If, ast.While)) and p.test is n


_FORM_K = [0]


_PURE_CALLS = {'float', 'int', 'itemgetter', 'operator.itemgetter', 'attrgetter', 'operator.attrgetter', 'methodcaller',
               'operator.methodcaller', 'frozenset', 'tuple'}
_BUILTIN_FUNCS = {'float', 'int', 'str', 'len', 'list', 'tuple', 'dict', 'set', 'sorted', 'min', 'max', 'sum', 'isinstance', 'repr',
                  'bytes', 'bool', 'abs', 'round', 'range', 'enumerate', 'zip', 'map', 'filter', 'any', 'all', 'iter', 'next', 'getattr'}


def _pure_constant(v, known, depth=0):
  """an expression whose value is fixed at import time and has no identity anybody relies on: literals, arithmetic and
  comparisons on them (and on sys.version_info), float('inf'), itemgetter(k) ..., names of builtins, references to functions /
  classes / their attributes (`TaggedSeries.encode`), other such constants."""
  if depth > 6:
    return False
  if isinstance(v, ast.Constant):
    return v.value is not None and v.value is not Ellipsis
  if isinstance(v, ast.Tuple):
    return all(_pure_constant(e, known, depth + 1) for e in v.elts)
  if isinstance(v, ast.UnaryOp):
    return _pure_constant(v.operand, known, depth + 1)
  if isinstance(v, ast.BinOp):
    return _pure_constant(v.left, known, depth + 1) and _pure_constant(v.right, known, depth + 1)
  if isinstance(v, ast.Compare):
    return all(_pure_constant(e, known, depth + 1) for e in [v.left] + list(v.comparators))
  if isinstance(v, ast.Call):
    d = _dotted(v.func)
    return d in _PURE_CALLS and not v.keywords and all(_pure_constant(e, known, depth + 1) for e in v.args)
  if isinstance(v, ast.Name):
    return v.id in _BUILTIN_FUNCS or v.id in known
  if isinstance(v, ast.Attribute):
    d = _dotted(v)
    if d is None:
      return False
    base = d.split('.')[0]
    # a function / class of this module, or an imported class (CamelCase): `TaggedSeries.encode`, `list.append` - never `settings.X`
    if base == 're' and d.count('.') == 1 and d.split('.')[1].isupper():
      return True            # re.I, re.IGNORECASE ...
    return d == 'sys.version_info' or (base in known.get('__defs__', ()) and (base in known.get('__own__', ()) or base[:1].isupper())) or \
        base in ('list', 'dict', 'set', 'str', 'tuple', 'deque')
  return False


def _dotted(e):
  parts = []
  while isinstance(e, ast.Attribute):
    parts.append(e.attr)
    e = e.value
  if isinstance(e, ast.Name):
    parts.append(e.id)
    return '.'.join(reversed(parts))
  return None


def _module_constants(module):
  """{name: value ast} of module-level names bound exactly once, at module level, to a pure constant (see _pure_constant), never
  declared `global` in a function, spelled as a constant (_private or ALL_CAPS)."""
  import re
  cached = getattr(module, '_sa_constants', None)
  if cached is not None:
    return cached
  tree = module.tree
  declared = {n for x in ast.walk(tree) if isinstance(x, ast.Global) for n in x.names}
  defs = {st.name for st in tree.body if isinstance(st, (ast.FunctionDef, ast.ClassDef))}
  for st in tree.body:
    if isinstance(st, (ast.Import, ast.ImportFrom)):
      defs |= {(al.asname or al.name).split('.')[0] for al in st.names}
  counts = {}
  for x in ast.walk(tree):
    if isinstance(x, ast.Name) and isinstance(x.ctx, (ast.Store, ast.Del)):
      counts[x.id] = counts.get(x.id, 0) + 1
  out = {'__defs__': defs, '__own__': {st.name for st in tree.body if isinstance(st, (ast.FunctionDef, ast.ClassDef))}}
  for name in defs:
    out.setdefault(name, None)
  for _ in range(3):
    for st in tree.body:
      if isinstance(st, ast.Assign) and len(st.targets) == 1 and isinstance(st.targets[0], ast.Name):
        n = st.targets[0].id
        if n in declared or counts.get(n) != 1 or len(n) < 2 or not re.match(r'^_[A-Za-z0-9_]*$|^[A-Z][A-Z0-9_]*$', n) or n.startswith('__'):
          continue
        if out.get(n) is None and _pure_constant(st.value, out):
          out[n] = st.value
  res = {k: v for k, v in out.items() if v is not None and k not in ('__defs__', '__own__')}
  try:
    module._sa_constants = res
  except Exception:
    pass
  return res


def _inline_constants(tree, consts, facts):
  """replace the reads of module-level constants inside functions by their value (the binding itself stays).  Class-level constants
  (`MAX_QUOTED = 400` in a class body, never assigned through an attribute anywhere in the program, not redefined by a class of
  this module) are replaced where they are read as self.X / cls.X / ClassName.X in this module."""
  changed = False
  props, by_name, _ = facts
  stored_anywhere = set()
  for st, _calls in by_name.values():
    stored_anywhere |= st

  def subst(scope, table, shadow):
    nonlocal changed
    for z in ast.walk(scope):
      for fld, val in ast.iter_fields(z):
        if isinstance(val, ast.Name) and isinstance(val.ctx, ast.Load) and val.id in table and val.id not in shadow:
          setattr(z, fld, ast.copy_location(_clone(table[val.id]), val))
          changed = True
        elif isinstance(val, list):
          for k, v in enumerate(val):
            if isinstance(v, ast.Name) and isinstance(v.ctx, ast.Load) and v.id in table and v.id not in shadow:
              val[k] = ast.copy_location(_clone(table[v.id]), v)
              changed = True
  if consts:
    for d in ast.walk(tree):
      if isinstance(d, (ast.FunctionDef, ast.AsyncFunctionDef)):
        shadow = _locals_of(d)
        for inner in ast.walk(d):
          if inner is not d and isinstance(inner, (ast.FunctionDef, ast.AsyncFunctionDef, ast.Lambda)):
            a = inner.args
            shadow |= {x.arg for x in a.posonlyargs + a.args + a.kwonlyargs}
        subst(d, consts, shadow)
    for st in tree.body:
      # module-level statements (handler registrations with lambdas, derived constants)
      if not isinstance(st, (ast.FunctionDef, ast.AsyncFunctionDef, ast.ClassDef, ast.Import, ast.ImportFrom)):
        shadow = set()
        for inner in ast.walk(st):
          if isinstance(inner, ast.Lambda):
            a = inner.args
            shadow |= {x.arg for x in a.posonlyargs + a.args + a.kwonlyargs}
        subst(st, consts, shadow)
  # class-level constants
  classes = [c for c in ast.walk(tree) if isinstance(c, ast.ClassDef)]
  for c in classes:
    table = {}
    for st in c.body:
      if isinstance(st, ast.Assign) and len(st.targets) == 1 and isinstance(st.targets[0], ast.Name):
        n = st.targets[0].id
        if n in stored_anywhere or n in props or n.startswith('__') or not _pure_constant(st.value, {'__defs__': set()}):
          continue
        if not isinstance(st.value, (ast.Constant, ast.BinOp, ast.UnaryOp)):
          continue
        if sum(1 for c2 in classes for s2 in c2.body if isinstance(s2, ast.Assign) and
               any(isinstance(t, ast.Name) and t.id == n for t in s2.targets)) != 1:
          continue
        table[n] = st.value
    if not table:
      continue
    for z in ast.walk(tree):
      for fld, val in ast.iter_fields(z):
        vals = val if isinstance(val, list) else [val]
        for k, v in enumerate(vals):
          if isinstance(v, ast.Attribute) and isinstance(v.ctx, ast.Load) and v.attr in table and isinstance(v.value, ast.Name) and \
             (v.value.id == c.name or (v.value.id in ('self', 'cls') and any(v is y for m in c.body for y in ast.walk(m)))):
            new = ast.copy_location(_clone(table[v.attr]), v)
            if isinstance(val, list):
              val[k] = new
            else:
              setattr(z, fld, new)
            changed = True
  if changed:
    ast.fix_missing_locations(tree)
  return changed


def _bind_unpassed_defaults(tree, shapes):
  """an optional parameter no call of the program ever passes (a `cache=None`, `limit=None`, `now=None`, `pattern_flags=re.I`
  added for tests or extensibility) always has its default inside the program:
     def f(..., p=None): if p is None: p = E      ->   p = E           (the guard is decided)
     def f(..., p=K):    ... p ...                ->   ... K ...       (K a literal / folded constant, p never assigned)
  Calls are matched by the callee's name (any function or method of that name counts, as do functions handed to
  LoopingCall / partial / addCallback with arguments), so a parameter is only bound when nothing that could reach the function
  passes it."""
  changed = False
  for d in ast.walk(tree):
    if not isinstance(d, (ast.FunctionDef, ast.AsyncFunctionDef)) or d.name.startswith('__'):
      continue
    a = d.args
    pos = a.posonlyargs + a.args
    cand = []
    for i, default in enumerate(a.defaults):
      idx = len(pos) - len(a.defaults) + i
      cand.append((pos[idx].arg, idx, default))
    for arg, default in zip(a.kwonlyargs, a.kw_defaults):
      if default is not None:
        cand.append((arg.arg, None, default))
    if not cand:
      continue
    calls = shapes.get(d.name, [])
    is_method = bool(pos) and pos[0].arg in ('self', 'cls')
    for name, idx, default in cand:
      passed = False
      for npos, kws, star in calls:
        if star or name in kws:
          passed = True
          break
        if idx is not None:
          # positional index as seen by the caller: without the receiver for a method called through an attribute; a plain
          # function call f(self, ...) counts it - take the smaller (more cautious) index
          eff = idx - 1 if is_method else idx
          if npos > eff:
            passed = True
            break
      if passed:
        continue
      stores = [x for x in ast.walk(d) if isinstance(x, ast.Name) and x.id == name and isinstance(x.ctx, (ast.Store, ast.Del))]
      loads = [x for x in ast.walk(d) if isinstance(x, ast.Name) and x.id == name and isinstance(x.ctx, ast.Load)]
      if any(isinstance(x, (ast.Global, ast.Nonlocal)) and name in x.names for x in ast.walk(d)):
        continue
      if isinstance(default, ast.Constant) and default.value is None:
        # `if p is None: p = E` as a top-level statement, before any other mention of p
        done = False
        for i, st in enumerate(d.body):
          mentions = any(isinstance(x, ast.Name) and x.id == name for x in ast.walk(st))
          if not mentions:
            continue
          if isinstance(st, ast.If) and not st.orelse and isinstance(st.test, ast.Compare) and len(st.test.ops) == 1 and \
             isinstance(st.test.ops[0], ast.Is) and isinstance(st.test.left, ast.Name) and st.test.left.id == name and \
             isinstance(st.test.comparators[0], ast.Constant) and st.test.comparators[0].value is None and \
             len(st.body) == 1 and isinstance(st.body[0], ast.Assign) and len(st.body[0].targets) == 1 and \
             isinstance(st.body[0].targets[0], ast.Name) and st.body[0].targets[0].id == name and \
             not any(isinstance(x, ast.Name) and x.id == name for x in ast.walk(st.body[0].value)):
            d.body[i] = st.body[0]
            changed = done = True
            d._bound_params = getattr(d, '_bound_params', set()) | {name}
          elif isinstance(st, ast.Assign) and len(st.targets) == 1 and isinstance(st.targets[0], ast.Name) and st.targets[0].id == name:
            v = st.value
            # p = E if p is None else p      /      p = p or E   (E is then never falsy-sensitive: p is None)
            if isinstance(v, ast.IfExp) and isinstance(v.test, ast.Compare) and len(v.test.ops) == 1 and isinstance(v.test.left, ast.Name) and \
               v.test.left.id == name and isinstance(v.test.comparators[0], ast.Constant) and v.test.comparators[0].value is None:
              if isinstance(v.test.ops[0], ast.Is) and isinstance(v.orelse, ast.Name) and v.orelse.id == name:
                st.value = v.body
                changed = done = True
              elif isinstance(v.test.ops[0], ast.IsNot) and isinstance(v.body, ast.Name) and v.body.id == name:
                st.value = v.orelse
                changed = done = True
            elif isinstance(v, ast.BoolOp) and isinstance(v.op, ast.Or) and len(v.values) == 2 and isinstance(v.values[0], ast.Name) and \
                v.values[0].id == name:
              st.value = v.values[1]
              changed = done = True
          break
        if not done and len(stores) == 1:
          # the same guard anywhere in the body, when the assignment under it is the only one: p is still None when it is reached
          for owner in ast.walk(d):
            for field in ('body', 'orelse', 'finalbody'):
              blk = getattr(owner, field, None)
              if not isinstance(blk, list):
                continue
              for i, st in enumerate(blk):
                if isinstance(st, ast.If) and not st.orelse and isinstance(st.test, ast.Compare) and len(st.test.ops) == 1 and \
                   isinstance(st.test.ops[0], ast.Is) and isinstance(st.test.left, ast.Name) and st.test.left.id == name and \
                   isinstance(st.test.comparators[0], ast.Constant) and st.test.comparators[0].value is None and \
                   len(st.body) == 1 and isinstance(st.body[0], ast.Assign) and any(stores[0] is t for t in st.body[0].targets) and \
                   not any(isinstance(x, ast.Name) and x.id == name for x in ast.walk(st.body[0].value)):
                  blk[i] = st.body[0]
                  changed = done = True
                  d._bound_params = getattr(d, '_bound_params', set()) | {name}
        if done:
          continue
        if not stores and loads:
          # never assigned: it IS None
          for z in ast.walk(d):
            for fld, val in ast.iter_fields(z):
              if isinstance(val, ast.Name) and val.id == name and isinstance(val.ctx, ast.Load):
                setattr(z, fld, ast.copy_location(ast.Constant(value=None), val))
                changed = True
              elif isinstance(val, list):
                for k, v in enumerate(val):
                  if isinstance(v, ast.Name) and v.id == name and isinstance(v.ctx, ast.Load):
                    val[k] = ast.copy_location(ast.Constant(value=None), v)
                    changed = True
      elif not stores and loads and _pure_constant(default, {'__defs__': set()}):
        for z in ast.walk(d):
          if z is a or any(z is dd for dd in a.defaults) or any(z is dd for dd in a.kw_defaults if dd is not None):
            continue
          for fld, val in ast.iter_fields(z):
            if fld in ('defaults', 'kw_defaults'):
              continue
            if isinstance(val, ast.Name) and val.id == name and isinstance(val.ctx, ast.Load):
              setattr(z, fld, ast.copy_location(_clone(default), val))
              changed = True
            elif isinstance(val, list):
              for k, v in enumerate(val):
                if isinstance(v, ast.Name) and v.id == name and isinstance(v.ctx, ast.Load):
                  val[k] = ast.copy_location(_clone(default), v)
                  changed = True
  if changed:
    ast.fix_missing_locations(tree)
  return changed


def _setattr_names(call, module):
  """names a setattr / delattr call can store to: the constant written in place, or - when the name is the variable of an
  enclosing `for` over a literal tuple of strings (in place or a class-level constant) - those strings; {'*'} otherwise."""
  a = call.args[1]
  if isinstance(a, ast.Constant):
    return {a.value}
  if isinstance(a, ast.Name):
    p = getattr(call, '_parent', None)
    while p is not None:
      if isinstance(p, ast.For) and isinstance(p.target, ast.Name) and p.target.id == a.id:
        it = p.iter
        if isinstance(it, ast.Attribute) and isinstance(it.value, ast.Name) and it.value.id in ('self', 'cls'):
          q = p
          while q is not None and not isinstance(q, ast.ClassDef):
            q = getattr(q, '_parent', None)
          lits = [s.value for s in (q.body if q is not None else []) if isinstance(s, ast.Assign) and
                  any(isinstance(t, ast.Name) and t.id == it.attr for t in s.targets)]
          it = lits[0] if len(lits) == 1 else None
        if isinstance(it, (ast.Tuple, ast.List)) and all(isinstance(e, ast.Constant) and isinstance(e.value, str) for e in it.elts):
          return {e.value for e in it.elts}
        return {'*'}
      if isinstance(p, (ast.FunctionDef, ast.AsyncFunctionDef, ast.Lambda)):
        break
      p = getattr(p, '_parent', None)
  return {'*'}


def _statement_forms(block, taken):
  """two spellings brought to the statement form rules read:
       x = A if c else B   (also `return`, `self.a = ...`)      ->   if c: x = A   else: x = B
       for v in (E for t in IT if COND): BODY                   ->   for t' in IT: if COND': v = E'; BODY
  (the generator expression is consumed lazily by the loop, so evaluation order is unchanged; its variables are renamed
  apart because they move into the function's scope)."""
  changed = False
  out = []
  for st in block:
    v = getattr(st, 'value', None)
    if isinstance(st, (ast.Assign, ast.Return)) and isinstance(v, ast.IfExp) and \
       not any(isinstance(x, (ast.Yield, ast.YieldFrom, ast.Await, ast.NamedExpr)) for x in ast.walk(st)) and \
       (isinstance(st, ast.Return) or all(isinstance(t, (ast.Name, ast.Attribute)) for t in st.targets)):
      a, b = _clone(st), _clone(st)
      a.value, b.value = v.body, v.orelse
      new = ast.If(test=v.test, body=[a], orelse=[b])
      ast.copy_location(new, st)
      ast.fix_missing_locations(new)
      out.append(new)
      changed = True
      continue
    if isinstance(st, ast.Expr) and isinstance(v, ast.Call) and isinstance(v.func, ast.Name) and v.func.id == 'setattr' and \
       'setattr' not in taken and len(v.args) == 3 and not v.keywords and isinstance(v.args[1], ast.Constant) and \
       isinstance(v.args[1].value, str) and v.args[1].value.isidentifier() and isinstance(v.args[0], (ast.Name, ast.Attribute)):
      # setattr(obj, 'name', value) with a constant name is the assignment obj.name = value
      new = ast.Assign(targets=[ast.Attribute(value=v.args[0], attr=v.args[1].value, ctx=ast.Store())], value=v.args[2])
      ast.copy_location(new, st)
      ast.fix_missing_locations(new)
      out.append(new)
      changed = True
      continue
    if isinstance(st, ast.For) and not st.orelse and isinstance(st.iter, ast.GeneratorExp) and len(st.iter.generators) == 1 and \
       not st.iter.generators[0].is_async and isinstance(st.target, ast.Name):
      g = st.iter.generators[0]
      _FORM_K[0] += 1
      tn = {x.id for x in ast.walk(g.target) if isinstance(x, ast.Name)}
      ren = {n: '%s__g%d' % (n, _FORM_K[0]) for n in tn}

      def rn(node):
        node = _clone(node)
        for x in ast.walk(node):
          if isinstance(x, ast.Name) and x.id in ren:
            x.id = ren[x.id]
        return node
      bind = ast.Assign(targets=[ast.Name(id=st.target.id, ctx=ast.Store())], value=rn(st.iter.elt))
      body = [bind] + list(st.body)
      for cond in reversed(g.ifs):
        body = [ast.If(test=rn(cond), body=body, orelse=[])]
      tgt = rn(g.target)
      for x in ast.walk(tgt):
        if hasattr(x, 'ctx'):
          x.ctx = ast.Store()
      loop = ast.For(target=tgt, iter=g.iter, body=body, orelse=[])
      ast.copy_location(loop, st)
      for x in ast.walk(loop):
        if not hasattr(x, 'lineno') and isinstance(x, (ast.expr, ast.stmt)):
          ast.copy_location(x, st)
      ast.fix_missing_locations(loop)
      out.append(loop)
      changed = True
      continue
    out.append(st)
  return out if changed else None


def _dispatch_table(module, name):
  """[(constant key, value ast)] of a module-level literal dict bound once to ``name`` and never modified in its module:
  at most MAX_UNROLL rows of plain elements (names of functions / classes, attributes, constants)."""
  if module is None:
    return None
  vals = module.globals.get(name, [])
  if len(vals) != 1 or not isinstance(vals[0], ast.Dict):
    return None
  d = vals[0]
  if not (0 < len(d.keys) <= MAX_UNROLL) or not all(isinstance(k, ast.Constant) and isinstance(k.value, (str, int)) for k in d.keys) or \
     not all(_plain_element(v) for v in d.values):
    return None
  for x in ast.walk(module.tree):
    if isinstance(x, ast.Global) and name in x.names:
      return None
    if isinstance(x, ast.Subscript) and isinstance(x.value, ast.Name) and x.value.id == name and isinstance(x.ctx, (ast.Store, ast.Del)):
      return None
    if isinstance(x, ast.Call) and isinstance(x.func, ast.Attribute) and isinstance(x.func.value, ast.Name) and x.func.value.id == name and \
       x.func.attr in ('update', 'pop', 'popitem', 'setdefault', 'clear', '__setitem__', '__delitem__'):
      return None
  return list(zip([k.value for k in d.keys], d.values))


def _expand_dispatch(block, module):
  """f = TABLE.get(key, default) ; ... f(args) ...      (TABLE a literal module-level dict, f used once, as the callee)
       ->   if key == k1: ... v1(args) ... elif key == k2: ... v2(args) ... else: ... default(args) ...
  The inverse of "replace the if-chain by a lookup table": the calls become direct and can be resolved and spliced.
  Also the one-expression form  TABLE.get(key, default)(args)."""
  if module is None:
    return None
  changed = False
  i = 0
  while i < len(block):
    st = block[i]
    look = None
    if isinstance(st, (ast.Return, ast.Expr, ast.Assign)) and _bool_table_call(st, module) is not None:
      # x = TABLE[<test>](args)  with  TABLE = {True: f, False: g}    ->   if <test>: x = f(args) else: x = g(args)
      call, test, f_true, f_false = _bool_table_call(st, module)
      arms = []
      for val in (f_true, f_false):
        cp = _clone(st)
        for c in ast.walk(cp):
          if isinstance(c, ast.Call) and isinstance(c.func, ast.Subscript) and ast.dump(c.func) == ast.dump(call.func):
            c.func = ast.copy_location(_clone(val), c.func)
        arms.append(cp)
      new_if = ast.If(test=_clone(test), body=[arms[0]], orelse=[arms[1]])
      ast.copy_location(new_if, st)
      ast.fix_missing_locations(new_if)
      block[i:i + 1] = [new_if]
      changed = True
      continue
    if isinstance(st, ast.Assign) and len(st.targets) == 1 and isinstance(st.targets[0], ast.Name) and i + 1 < len(block) and \
       isinstance(st.value, ast.IfExp) and isinstance(st.value.body, (ast.Name, ast.Attribute)) and \
       isinstance(st.value.orelse, (ast.Name, ast.Attribute)) and _plain_element(st.value.body) and _plain_element(st.value.orelse):
      # f = A if c else B ; ... f(args) ...   ->   if c: ... A(args) ... else: ... B(args) ...
      fname, use = st.targets[0].id, block[i + 1]
      loads = [x for b in block for x in ast.walk(b) if isinstance(x, ast.Name) and x.id == fname and isinstance(x.ctx, ast.Load)]
      stores = [x for b in block for x in ast.walk(b) if isinstance(x, ast.Name) and x.id == fname and isinstance(x.ctx, ast.Store)]
      callee_uses = [c for c in ast.walk(use) if isinstance(c, ast.Call) and isinstance(c.func, ast.Name) and c.func.id == fname]
      if len(loads) == 1 and len(stores) == 1 and len(callee_uses) == 1 and callee_uses[0].func is loads[0] and \
         not isinstance(use, (ast.For, ast.While, ast.If, ast.Try, ast.With, ast.FunctionDef, ast.ClassDef)):
        arms = []
        for val in (st.value.body, st.value.orelse):
          cp = _clone(use)
          for c in ast.walk(cp):
            if isinstance(c, ast.Call) and isinstance(c.func, ast.Name) and c.func.id == fname:
              c.func = ast.copy_location(_clone(val), c.func)
          arms.append(cp)
        new_if = ast.If(test=st.value.test, body=[arms[0]], orelse=[arms[1]])
        ast.copy_location(new_if, st)
        ast.fix_missing_locations(new_if)
        block[i:i + 2] = [new_if]
        changed = True
        continue
    if isinstance(st, ast.Assign) and len(st.targets) == 1 and isinstance(st.targets[0], ast.Name) and i + 1 < len(block):
      look, fname = _table_lookup(st.value, module), st.targets[0].id
      use = block[i + 1]
      if look is not None:
        loads = [x for b in block for x in ast.walk(b) if isinstance(x, ast.Name) and x.id == fname and isinstance(x.ctx, ast.Load)]
        stores = [x for b in block for x in ast.walk(b) if isinstance(x, ast.Name) and x.id == fname and isinstance(x.ctx, ast.Store)]
        callee_uses = [c for c in ast.walk(use) if isinstance(c, ast.Call) and isinstance(c.func, ast.Name) and c.func.id == fname]
        if len(loads) != 1 or len(stores) != 1 or len(callee_uses) != 1 or callee_uses[0].func is not loads[0] or \
           isinstance(use, (ast.For, ast.While, ast.If, ast.Try, ast.With, ast.FunctionDef, ast.ClassDef)):
          look = None
      if look is not None:
        key, rows, default = look
        arms = []
        for kv, val in rows + [(None, default)]:
          cp = _clone(use)
          for c in ast.walk(cp):
            if isinstance(c, ast.Call) and isinstance(c.func, ast.Name) and c.func.id == fname:
              c.func = ast.copy_location(_clone(val), c.func)
          arms.append((kv, cp))
        block[i:i + 2] = [_if_chain(key, arms, st)]
        changed = True
        continue
    elif isinstance(st, (ast.Return, ast.Expr, ast.Assign)) and not isinstance(st, ast.For):
      calls = [c for c in ast.walk(st) if isinstance(c, ast.Call) and isinstance(c.func, ast.Call) and _table_lookup(c.func, module)]
      if len(calls) == 1 and not any(isinstance(x, (ast.Lambda, ast.ListComp, ast.GeneratorExp, ast.DictComp, ast.SetComp)) for x in ast.walk(st)):
        key, rows, default = _table_lookup(calls[0].func, module)
        arms = []
        for kv, val in rows + [(None, default)]:
          cp = _clone(st)
          for c in ast.walk(cp):
            if isinstance(c, ast.Call) and isinstance(c.func, ast.Call) and _table_lookup(c.func, module):
              c.func = ast.copy_location(_clone(val), c.func)
          arms.append((kv, cp))
        block[i:i + 1] = [_if_chain(key, arms, st)]
        changed = True
        continue
    i += 1
  return block if changed else None


def _bool_table_call(st, module):
  """(call, test, value for True, value for False) when the statement contains exactly one call TABLE[<test>](...) on a
  module-level literal dict {True: f, False: g} that is never modified, and nothing else in it has effects of its own"""
  if module is None:
    return None
  hits = []
  for c in ast.walk(st):
    if isinstance(c, ast.Call) and isinstance(c.func, ast.Subscript) and isinstance(c.func.value, ast.Name):
      rows = _dispatch_table_any(module, c.func.value.id)
      if rows is not None and set(rows) == {True, False}:
        hits.append((c, c.func.slice, rows[True], rows[False]))
  if len(hits) != 1 or any(isinstance(x, (ast.Lambda, ast.ListComp, ast.GeneratorExp, ast.DictComp, ast.SetComp, ast.Yield, ast.Await))
                           for x in ast.walk(st)):
    return None
  return hits[0]


def _dispatch_table_any(module, name):
  """{constant key: value ast} of a module-level literal dict bound once and never modified (keys may be booleans)"""
  vals = module.globals.get(name, [])
  if len(vals) != 1 or not isinstance(vals[0], ast.Dict):
    return None
  d = vals[0]
  if not d.keys or not all(isinstance(k, ast.Constant) for k in d.keys) or not all(isinstance(v, (ast.Name, ast.Attribute)) for v in d.values):
    return None
  for x in ast.walk(module.tree):
    if isinstance(x, ast.Global) and name in x.names:
      return None
    if isinstance(x, ast.Subscript) and isinstance(x.value, ast.Name) and x.value.id == name and isinstance(x.ctx, (ast.Store, ast.Del)):
      return None
    if isinstance(x, ast.Call) and isinstance(x.func, ast.Attribute) and isinstance(x.func.value, ast.Name) and x.func.value.id == name and \
       x.func.attr in ('update', 'pop', 'popitem', 'setdefault', 'clear'):
      return None
  return {k.value: v for k, v in zip(d.keys, d.values)}


def _table_lookup(e, module):
  """(key expression, rows, default value) of  TABLE.get(<name or attribute>, <plain default>)  on a dispatch table"""
  if not (isinstance(e, ast.Call) and isinstance(e.func, ast.Attribute) and e.func.attr == 'get' and isinstance(e.func.value, ast.Name) and
          len(e.args) == 2 and not e.keywords):
    return None
  rows = _dispatch_table(module, e.func.value.id)
  if rows is None or not _plain_element(e.args[0]) or isinstance(e.args[0], ast.Constant) or not _plain_element(e.args[1]):
    return None
  if not all(isinstance(v, (ast.Name, ast.Attribute)) for _, v in rows) or not isinstance(e.args[1], (ast.Name, ast.Attribute)):
    return None
  return e.args[0], rows, e.args[1]


def _if_chain(key, arms, at):
  """if key == k1: S1 elif key == k2: S2 ... else: Sn   (arms = [(k, stmt)], the last one with k None is the else)"""
  node = None
  for kv, stmt in reversed(arms):
    if kv is None and node is None:
      node = [stmt]
      continue
    test = ast.Compare(left=_clone(key), ops=[ast.Eq()], comparators=[ast.Constant(value=kv)])
    new = ast.If(test=test, body=[stmt], orelse=node or [])
    ast.copy_location(new, at)
    node = [new]
  for x in ast.walk(node[0]):
    if not hasattr(x, 'lineno') and isinstance(x, (ast.expr, ast.stmt)):
      ast.copy_location(x, at)
  ast.fix_missing_locations(node[0])
  return node[0]


def _literal_table(block, i, module, fn=None):
  """elements of the iterable of the for statement block[i] when that is a literal tuple / list of plain elements:
  written in place, bound to a local by the statement just before the loop, or bound once at module level."""
  loop = block[i]
  it = loop.iter
  if isinstance(it, (ast.Tuple, ast.List)):
    lit, drop = it, None
  elif isinstance(it, ast.Name) and i > 0 and isinstance(block[i - 1], ast.Assign) and len(block[i - 1].targets) == 1 and \
      isinstance(block[i - 1].targets[0], ast.Name) and block[i - 1].targets[0].id == it.id and \
      isinstance(block[i - 1].value, (ast.Tuple, ast.List)):
    lit, drop = block[i - 1].value, None
  elif isinstance(it, ast.Name) and module is not None and len(module.globals.get(it.id, [])) == 1 and \
      isinstance(module.globals[it.id][0], (ast.Tuple, ast.List)) and \
      not any(isinstance(x, ast.Global) and it.id in x.names for x in ast.walk(module.tree)):
    lit, drop = module.globals[it.id][0], None
  elif isinstance(it, ast.Attribute) and isinstance(it.value, ast.Name) and it.value.id in ('self', 'cls') and fn is not None and \
      getattr(fn, 'cls', None) is not None:
    # a table kept as a class attribute: bound once in the class body, assigned by no method of the program
    cls = fn.cls
    v = cls.attrs.get(it.attr)
    if not isinstance(v, (ast.Tuple, ast.List)):
      return None
    mod = cls.module
    if any(isinstance(x, ast.Attribute) and x.attr == it.attr and isinstance(x.ctx, (ast.Store, ast.Del)) for x in ast.walk(mod.tree)):
      return None
    if not (0 < len(v.elts) <= MAX_UNROLL) or not all(_plain_element(e) for e in v.elts):
      return None
    # names of the class body (methods listed in the table) are written Class.name where the row is used
    own = set(cls.methods) | set(cls.attrs)

    class Q(ast.NodeTransformer):
      def visit_Name(self, n):
        if n.id in own and isinstance(n.ctx, ast.Load):
          return ast.copy_location(ast.Attribute(value=ast.Name(id=cls.name, ctx=ast.Load()), attr=n.id, ctx=ast.Load()), n)
        return n
    out = []
    for e in v.elts:
      c = Q().visit(_clone(e))
      ast.fix_missing_locations(c)
      out.append(c)
    return out
  else:
    return None
  if not (0 < len(lit.elts) <= MAX_UNROLL) or not all(_plain_element(e) or _factory_row(e, module) for e in lit.elts):
    return None
  return list(lit.elts)


def _unroll_literal_loops(block, module, fn=None):
  """for a, b in ((x1, y1), (x2, y2)): BODY   ->   BODY[a:=x1, b:=y1]; BODY[a:=x2, b:=y2]
  for a table written as a literal of plain elements (names / attributes / constants), a body without break / continue /
  else that does not assign the loop variables.  The elements of such a table are evaluated without side effects, so the
  substitution changes nothing; rules then see each row as an ordinary statement (e.g. one addHandler call per row)."""
  out = None
  i = 0
  cur = list(block)
  while i < len(cur):
    st = cur[i]
    jumps = isinstance(st, ast.For) and (bool(st.orelse) or any(isinstance(x, (ast.Break, ast.Continue)) for x in walk_no_nested(st)))
    if isinstance(st, ast.For) and jumps:
      un = _unroll_with_jumps(cur, i, module, fn)
      if un is not None:
        cur[i:i + 1] = un
        out = cur
        i += len(un)
        continue
    if isinstance(st, ast.For) and not jumps:
      elts = _literal_table(cur, i, module, fn)
      tnames = [x for x in ast.walk(st.target) if isinstance(x, ast.Name)]
      body_stores = {x.id for b in st.body for x in ast.walk(b) if isinstance(x, ast.Name) and isinstance(x.ctx, (ast.Store, ast.Del))}
      if elts is not None and tnames and not ({x.id for x in tnames} & body_stores):
        copies = []
        ok = True
        for e in elts:
          sub = _match_target(st.target, e)
          if sub is None:
            ok = False
            break

          class S(ast.NodeTransformer):
            def visit_Name(self, n, sub=sub):
              if n.id in sub and isinstance(n.ctx, ast.Load):
                return ast.copy_location(_clone(sub[n.id]), n)
              return n
          for b in st.body:
            nb = S().visit(_clone(b))
            ast.fix_missing_locations(nb)
            copies.append(nb)
        # the loop variables must not be read after the loop (they would hold the last row)
        later = {x.id for b in cur[i + 1:] for x in ast.walk(b) if isinstance(x, ast.Name) and isinstance(x.ctx, ast.Load)}
        if ok and not ({x.id for x in tnames} & later):
          cur[i:i + 1] = copies
          out = cur
          i += len(copies)
          continue
    i += 1
  return out


_UNROLL_K = [0]


def _unroll_with_jumps(block, i, module, fn=None):
  """the same for a body with `continue` / `break` (of this loop) and an `else` clause:
     row 1:  BODY with continue -> end of this row, break -> __brkN = True and end of this row
     row k:  if not __brkN: BODY ...
     else :  if not __brkN: ELSE
  The rows are put in tail form with the machinery used for helper returns (`continue` plays the part of `return`)."""
  st = block[i]
  elts = _literal_table(block, i, module, fn)
  if elts is None:
    return None
  tnames = {x.id for x in ast.walk(st.target) if isinstance(x, ast.Name)}
  body_stores = {x.id for b in st.body for x in ast.walk(b) if isinstance(x, ast.Name) and isinstance(x.ctx, (ast.Store, ast.Del))}
  later = {x.id for b in block[i + 1:] + list(st.orelse) for x in ast.walk(b) if isinstance(x, ast.Name) and isinstance(x.ctx, ast.Load)}
  if not tnames or (tnames & body_stores) or (tnames & later):
    return None
  # jumps that belong to inner loops stay; a return inside the body cannot be expressed -> give up
  for x in walk_no_nested(st, include_self=False):
    if isinstance(x, ast.Return):
      return None
  _UNROLL_K[0] += 1
  flag = '__brk%d' % _UNROLL_K[0]
  tmp = '__row%d' % _UNROLL_K[0]
  has_break = [False]

  def own(x):
    for y in walk_no_nested(st, include_self=False):
      if isinstance(y, (ast.For, ast.While)) and any(z is x for z in ast.walk(y)):
        return False
    return True

  class J(ast.NodeTransformer):
    def visit_Continue(self, n):
      return ast.copy_location(ast.Return(value=None), n) if own_map.get(id(n), True) else n

    def visit_Break(self, n):
      if not own_map.get(id(n), True):
        return n
      has_break[0] = True
      return [ast.copy_location(ast.Assign(targets=[ast.Name(id=flag, ctx=ast.Store())], value=ast.Constant(value=True)), n),
              ast.copy_location(ast.Return(value=None), n)]

    def visit_For(self, n):
      return n          # jumps of inner loops are theirs

    def visit_While(self, n):
      return n

    def visit_FunctionDef(self, n):
      return n
  rows = []
  for e in elts:
    sub = _match_target(st.target, e)
    if sub is None:
      return None
    body = [_clone(b) for b in st.body]
    own_map = {}
    class S(ast.NodeTransformer):
      def visit_Name(self, n, sub=sub):
        if n.id in sub and isinstance(n.ctx, ast.Load):
          return ast.copy_location(_clone(sub[n.id]), n)
        return n
    body = [S().visit(b) for b in body]
    nb = []
    for b in body:
      r = J().visit(b)
      nb.extend(r if isinstance(r, list) else [r])
    tail = _tailify(nb, tmp)
    if tail is None:
      return None
    tail = _drop_result(tail, tmp)
    rows.append(tail or [ast.Pass()])
  out = []
  init = ast.Assign(targets=[ast.Name(id=flag, ctx=ast.Store())], value=ast.Constant(value=False))
  out.append(init)
  for k, row in enumerate(rows):
    if k == 0 or not has_break[0]:
      out.extend(row)
    else:
      out.append(ast.If(test=ast.UnaryOp(op=ast.Not(), operand=ast.Name(id=flag, ctx=ast.Load())), body=row, orelse=[]))
  if st.orelse:
    els = [_clone(b) for b in st.orelse]
    if has_break[0]:
      out.append(ast.If(test=ast.UnaryOp(op=ast.Not(), operand=ast.Name(id=flag, ctx=ast.Load())), body=els, orelse=[]))
    else:
      out.extend(els)
  for o in out:
    ast.copy_location(o, st)
    for x in ast.walk(o):
      if not hasattr(x, 'lineno') and isinstance(x, (ast.expr, ast.stmt)):
        ast.copy_location(x, st)
    ast.fix_missing_locations(o)
  return out


def _match_target(target, elt):
  """{loop variable: element expression} for one row, or None if the shapes differ"""
  if isinstance(target, ast.Name):
    return {target.id: elt}
  if isinstance(target, (ast.Tuple, ast.List)) and isinstance(elt, (ast.Tuple, ast.List)) and len(target.elts) == len(elt.elts):
    out = {}
    for t, e in zip(target.elts, elt.elts):
      m = _match_target(t, e)
      if m is None:
        return None
      out.update(m)
    return out
  return None


def _delegation_call(s):
  """the generator call of `for x in <call>: yield x` or `yield from <call>`; None for any other statement."""
  if isinstance(s, ast.Expr) and isinstance(s.value, ast.YieldFrom) and isinstance(s.value.value, ast.Call):
    return s.value.value
  if isinstance(s, ast.For) and not s.orelse and isinstance(s.target, ast.Name) and isinstance(s.iter, ast.Call) and \
     len(s.body) == 1 and isinstance(s.body[0], ast.Expr) and isinstance(s.body[0].value, ast.Yield) and \
     isinstance(s.body[0].value.value, ast.Name) and s.body[0].value.value.id == s.target.id:
    return s.iter
  return None


def _sink_delegations(block):
  """x = gen(...)                      for t in gen(...): yield t
     for t in x: yield t        ==>
  and the same through an if/else whose branches end by binding x to a generator call (a generator call runs nothing
  until it is iterated, so moving the loop next to the call changes no order of evaluation)."""
  out = list(block)

  def trivial(st, x):
    """`name = {}` / [] / constant: commutes with binding x to a call that does not read name"""
    return isinstance(st, ast.Assign) and all(isinstance(t, ast.Name) and t.id != x for t in st.targets) and \
      isinstance(st.value, (ast.Dict, ast.List, ast.Set, ast.Tuple, ast.Constant)) and \
      all(isinstance(y, (ast.Dict, ast.List, ast.Set, ast.Tuple, ast.Constant, ast.expr_context)) for y in ast.walk(st.value))
  # x = gen(...); tags = {}; for t in x: ...   ->   tags = {}; x = gen(...); for t in x: ...
  j = 0
  while j < len(out) - 2:
    d = out[j]
    if isinstance(d, ast.Assign) and len(d.targets) == 1 and isinstance(d.targets[0], ast.Name) and isinstance(d.value, ast.Call):
      x = d.targets[0].id
      k = j + 1
      reads = {y.id for y in ast.walk(d.value) if isinstance(y, ast.Name)}
      while k < len(out) and trivial(out[k], x) and not ({t.id for t in out[k].targets} & reads):
        k += 1
      if k > j + 1 and k < len(out) and isinstance(out[k], ast.For) and isinstance(out[k].iter, ast.Name) and out[k].iter.id == x:
        out[j:k] = out[j + 1:k] + [d]
    j += 1
  i = 0
  while i < len(out) - 1:
    d, u = out[i], out[i + 1]
    if isinstance(u, ast.For) and isinstance(u.iter, ast.Name) and not u.orelse:
      x = u.iter.id

      def binds(st):
        return isinstance(st, ast.Assign) and len(st.targets) == 1 and isinstance(st.targets[0], ast.Name) and \
          st.targets[0].id == x and isinstance(st.value, ast.Call)

      def loop_over(call):
        lp = _clone(u)
        lp.iter = call
        return lp
      uses_elsewhere = sum(1 for st in out for y in ast.walk(st) if isinstance(y, ast.Name) and y.id == x and isinstance(y.ctx, ast.Load))
      # only calls that look like calls to helpers of this class / module are moved (a generator call runs nothing yet)
      def movable(call):
        f_ = call.func
        return isinstance(f_, ast.Name) or (isinstance(f_, ast.Attribute) and isinstance(f_.value, ast.Name) and
                                            f_.value.id in ('self', 'cls'))
      if uses_elsewhere == 1 and binds(d) and not movable(d.value):
        i += 1
        continue
      if uses_elsewhere == 1 and binds(d):
        out[i:i + 2] = [loop_over(d.value)]
        continue
      if uses_elsewhere == 1 and isinstance(d, ast.If) and d.orelse:
        def sink(br):
          """branch statements with the trailing binding replaced by the loop, or None"""
          if not br:
            return None
          lastst = br[-1]
          if binds(lastst) and movable(lastst.value):
            return br[:-1] + [loop_over(lastst.value)]
          if isinstance(lastst, ast.If) and lastst.orelse:
            b, e = sink(lastst.body), sink(lastst.orelse)
            if b is None or e is None:
              return None
            new = copy.copy(lastst)
            new.body, new.orelse = b, e
            return br[:-1] + [new]
          return None
        b, e = sink(d.body), sink(d.orelse)
        if b is not None and e is not None:
          new = copy.copy(d)
          new.body, new.orelse = b, e
          out[i:i + 2] = [new]
          continue
    i += 1
  return out


def _first_evaluated_name(test):
  """the Name node that is evaluated first (and always) by the test, if the test starts with a plain name."""
  t = test
  while True:
    if isinstance(t, ast.UnaryOp) and isinstance(t.op, ast.Not):
      t = t.operand
    elif isinstance(t, ast.BoolOp):
      t = t.values[0]
    elif isinstance(t, ast.Compare):
      t = t.left
    else:
      break
  return t if isinstance(t, ast.Name) else None


def _move_flags(block, fn):
  """x = <expr>           if <expr> ...:
     if x ...:      ==>
  when x is read nowhere else and is the first thing the test evaluates: the expression (side effects included) is
  evaluated once, at the same point of the execution."""
  changed = False
  i = 0
  while i < len(block) - 1:
    d, u = block[i], block[i + 1]
    i += 1
    if not (isinstance(d, ast.Assign) and len(d.targets) == 1 and isinstance(d.targets[0], ast.Name) and isinstance(u, ast.If)):
      continue
    name = d.targets[0].id
    first = _first_evaluated_name(u.test)
    if first is None or first.id != name:
      continue
    if any(isinstance(x, (ast.NamedExpr, ast.Yield, ast.YieldFrom, ast.Await, ast.Lambda)) for x in ast.walk(d.value)):
      continue
    if name.startswith('__ret'):
      loads = sum(1 for st in block for x in ast.walk(st) if isinstance(x, ast.Name) and x.id == name and isinstance(x.ctx, ast.Load))
    else:
      top = fn.node
      while getattr(top, '_parent', None) is not None and not isinstance(top, (ast.FunctionDef, ast.AsyncFunctionDef)):
        top = top._parent
      loads = sum(1 for x in ast.walk(fn.node) if isinstance(x, ast.Name) and x.id == name and isinstance(x.ctx, ast.Load))
      stores = sum(1 for x in ast.walk(fn.node) if isinstance(x, ast.Name) and x.id == name and isinstance(x.ctx, ast.Store))
      if stores != 1 or name in fn.params:
        continue
    if loads != 1:
      continue
    val = d.value

    class S(ast.NodeTransformer):
      def visit_Name(self, n):
        if n is first:
          return ast.copy_location(val, n)
        return n
    u.test = S().visit(u.test)
    ast.fix_missing_locations(u)
    block.pop(i - 1)
    i -= 1
    changed = True
  return changed


def _locals_of(defnode):
  a = defnode.args
  out = {x.arg for x in a.posonlyargs + a.args + a.kwonlyargs}
  if a.vararg:
    out.add(a.vararg.arg)
  if a.kwarg:
    out.add(a.kwarg.arg)
  for x in walk_no_nested(defnode, include_self=False):
    if isinstance(x, ast.Name) and isinstance(x.ctx, (ast.Store, ast.Del)):
      out.add(x.id)
    elif isinstance(x, ast.ExceptHandler) and x.name:
      out.add(x.name)
  return out


def _clone(node):
  """deep copy of a subtree without following its upward (_parent) link."""
  saved = getattr(node, '_parent', None)
  had = hasattr(node, '_parent')
  if had:
    node._parent = None
  try:
    return copy.deepcopy(node)
  finally:
    if had:
      node._parent = saved


def _calls_in_eval_order(expr):
  out = []

  def visit(n):
    if isinstance(n, (ast.Lambda, ast.ListComp, ast.SetComp, ast.DictComp, ast.GeneratorExp)):
      return
    for c in ast.iter_child_nodes(n):
      visit(c)
    if isinstance(n, ast.Call):
      out.append(n)
  visit(expr)
  return out


def _always_evaluated(expr, call):
  """is ``call`` evaluated whenever ``expr`` is (not behind a short-circuit / conditional)?"""
  n = call
  path = []
  # find parents by search
  parents = {}
  for p in ast.walk(expr):
    for c in ast.iter_child_nodes(p):
      parents[id(c)] = p
  cur = call
  while id(cur) in parents and cur is not expr:
    p = parents[id(cur)]
    if isinstance(p, ast.BoolOp) and p.values[0] is not cur:
      return False
    if isinstance(p, ast.IfExp) and p.test is not cur:
      return False
    if isinstance(p, ast.Compare) and p.left is not cur and len(p.comparators) > 1 and p.comparators[0] is not cur:
      return False
    cur = p
  return True


def _replace(expr, old, new):
  if expr is old:
    return new

  class R(ast.NodeTransformer):
    def visit(self, node):
      if node is old:
        return new
      return self.generic_visit(node)
  return R().visit(expr)


def _has_return(stmts):
  return any(isinstance(x, ast.Return) for s in stmts for x in walk_no_nested(s))


def _tailify(stmts, ret):
  """rewrite a body whose returns are in tail position (guard clauses allowed) into assignments to ``ret``;
  None when that is not possible."""
  out = []
  n = len(stmts)
  for i, s in enumerate(stmts):
    rest = stmts[i + 1:]
    if isinstance(s, ast.Raise):
      out.append(s)
      return out
    if isinstance(s, ast.Return):
      val = s.value if s.value is not None else ast.Constant(value=None)
      out.append(ast.copy_location(ast.Assign(targets=[ast.Name(id=ret, ctx=ast.Store())], value=val), s))
      return out
    if isinstance(s, ast.If) and (_has_return(s.body) or _has_return(s.orelse)):
      # the statements after the if continue each branch that can fall through; they are duplicated only when both can
      both_fall = not _always_returns(s.body) and not (s.orelse and _always_returns(s.orelse))
      if both_fall and _count_stmts(rest) > MAX_DUP:
        return None
      b = _tailify(list(s.body) + ([_clone(x) for x in rest] if both_fall else list(rest)), ret)
      e = _tailify(list(s.orelse) + list(rest), ret)
      if b is None or e is None:
        return None
      out.append(ast.copy_location(ast.If(test=s.test, body=b, orelse=e), s))
      return out
    if isinstance(s, (ast.With, ast.AsyncWith)) and _has_return([s]):
      if not _always_returns(s.body) and rest:
        return None
      b = _tailify(s.body, ret)
      if b is None:
        return None
      out.append(ast.copy_location(type(s)(items=s.items, body=b), s))
      return out
    if isinstance(s, ast.Try) and _has_return([s]):
      if (s.finalbody and _has_return(s.finalbody)) or (s.orelse and _has_return(s.body)):
        return None
      none = ast.copy_location(ast.Assign(targets=[ast.Name(id=ret, ctx=ast.Store())], value=ast.Constant(value=None)), s)
      body_falls = not _always_returns(s.body + (s.orelse or []))
      falls = [h for h in s.handlers if not _always_returns(h.body)]
      if not rest or (not body_falls and not falls):
        # nothing (reachable) follows the try: every piece is in tail position
        if s.orelse:
          b = list(s.body)                      # (no returns in the body when there is an else clause, checked above)
          oe = _tailify(s.orelse, ret)
        else:
          b = _tailify(s.body, ret)
          oe = []
        hs = []
        for h in s.handlers:
          hb = _tailify(h.body, ret)
          if hb is None:
            return None
          hs.append(ast.copy_location(ast.ExceptHandler(type=h.type, name=h.name, body=hb), h))
        if b is None or oe is None:
          return None
        out.append(ast.copy_location(ast.Try(body=b, handlers=hs, orelse=oe, finalbody=s.finalbody), s))
        return out
      if body_falls and not falls and not _has_return(s.body) and not s.finalbody:
        # try: A / except: ...return   followed by rest  ==  try: A / except: ...return / else: rest
        oe = _tailify(list(s.orelse or []) + rest, ret)
        hs = []
        for h in s.handlers:
          hb = _tailify(h.body, ret)
          if hb is None:
            return None
          hs.append(ast.copy_location(ast.ExceptHandler(type=h.type, name=h.name, body=hb), h))
        if oe is None:
          return None
        out.append(ast.copy_location(ast.Try(body=s.body, handlers=hs, orelse=oe, finalbody=[]), s))
        return out
      if not body_falls and falls and not s.orelse and not s.finalbody and _count_stmts(rest) <= MAX_DUP:
        # try: ...; return X / except E: <log>   followed by rest   ==   try: ...; return X / except E: <log>; rest
        b = _tailify(s.body, ret)
        hs = []
        for h in s.handlers:
          hb = _tailify(list(h.body) + ([_clone(x) for x in rest] if not _always_returns(h.body) else []), ret)
          if hb is None:
            return None
          hs.append(ast.copy_location(ast.ExceptHandler(type=h.type, name=h.name, body=hb), h))
        if b is None:
          return None
        out.append(ast.copy_location(ast.Try(body=b, handlers=hs, orelse=[], finalbody=[]), s))
        return out
      return None
    if isinstance(s, (ast.For, ast.While)) and _has_return([s]):
      # a search loop:  for x in xs: ... return v ...   followed by rest
      #   ==  for x in xs: ... ret = v; break ...  else: rest        (exact when the loop has no break / else of its own
      #   and the returns are not inside a nested loop)
      if s.orelse or _own_breaks(s) or _return_in_nested_loop(s):
        return None
      body = _returns_to_break(s.body, ret)
      r = _tailify(rest, ret)
      if r is None:
        return None
      new = copy.copy(s)
      new.body = body
      new.orelse = r
      out.append(new)
      return out
    if _has_return([s]):
      return None       # return inside a with that falls through, ...: not a tail form
    out.append(s)
  out.append(ast.Assign(targets=[ast.Name(id=ret, ctx=ast.Store())], value=ast.Constant(value=None)))
  return out


def _drop_result(stmts, tmp):
  """the helper's value is not used (expression statement): `tmp = v` becomes `v` (or nothing for names / constants)."""
  class D(ast.NodeTransformer):
    def visit_Assign(self, n):
      if len(n.targets) == 1 and isinstance(n.targets[0], ast.Name) and n.targets[0].id == tmp:
        if isinstance(n.value, (ast.Name, ast.Constant)):
          return ast.copy_location(ast.Pass(), n)
        return ast.copy_location(ast.Expr(value=n.value), n)
      return n

    def visit_FunctionDef(self, n):
      return n

  out = [D().visit(st) for st in stmts]

  def prune(block):
    # drop `pass` statements that are not the only statement of their block
    keep = [x for x in block if not isinstance(x, ast.Pass)]
    return keep if keep else block[:1]
  for st in out:
    for x in ast.walk(st):
      for field in ('body', 'orelse', 'finalbody'):
        b = getattr(x, field, None)
        if isinstance(b, list) and b and all(isinstance(y, ast.stmt) for y in b):
          nb = prune(b)
          if field == 'orelse' and all(isinstance(y, ast.Pass) for y in nb):
            nb = []
          setattr(x, field, nb)
  return [x for x in out if not isinstance(x, ast.Pass)] or []


def _own_breaks(loop):
  for st in loop.body:
    for x in walk_no_nested(st):
      if isinstance(x, ast.Break):
        p = x
        # belongs to `loop` unless an inner loop encloses it
        inner = False
        for y in walk_no_nested(loop, include_self=False):
          if isinstance(y, (ast.For, ast.While)) and any(z is x for z in ast.walk(y)):
            inner = True
        if not inner:
          return True
  return False


def _return_in_nested_loop(loop):
  for y in walk_no_nested(loop, include_self=False):
    if isinstance(y, (ast.For, ast.While)) and any(isinstance(z, ast.Return) for z in walk_no_nested(y)):
      return True
  return False


def _returns_to_break(stmts, ret):
  class R(ast.NodeTransformer):
    def visit_Return(self, node):
      val = node.value if node.value is not None else ast.Constant(value=None)
      return [ast.copy_location(ast.Assign(targets=[ast.Name(id=ret, ctx=ast.Store())], value=val), node),
              ast.copy_location(ast.Break(), node)]

    def visit_FunctionDef(self, node):
      return node

    def visit_Lambda(self, node):
      return node
  out = []
  for st in stmts:
    r = R().visit(st)
    if isinstance(r, list):
      out.extend(r)
    else:
      out.append(r)
  return out


def _count_stmts(stmts):
  return sum(1 for st in stmts for x in ast.walk(st) if isinstance(x, ast.stmt))


def _tailify_fall(stmts, ret):
  """like _tailify but a body without any return stays as it is (falls through)."""
  if not _has_return(stmts):
    return list(stmts)
  return _tailify(stmts, ret)


def _always_returns(stmts):
  if not stmts:
    return False
  last = stmts[-1]
  if isinstance(last, (ast.Return, ast.Raise)):
    return True
  if isinstance(last, ast.If):
    return bool(last.orelse) and _always_returns(last.body) and _always_returns(last.orelse)
  if isinstance(last, ast.Try):
    return _always_returns(last.body + (last.orelse or [])) and all(_always_returns(h.body) for h in last.handlers)
  return False


# ---------------------------------------------------------------------- whole-program normalisation

def load_program(root=None, overlay=None, inline=True):
  """(repo, types) of the *normalised* program: the source units are parsed and typed once, every call to a simple
  same-module helper is replaced by the helper's body (the helpers themselves stay defined), and the model and the types
  are rebuilt from the rewritten trees.  Line numbers are those of the original statements."""
  from .model import Repo
  from .types import Types
  repo0 = Repo(root=root, overlay=overlay)
  types0 = Types(repo0)
  if not inline:
    return repo0, types0
  spec = _specialise(repo0)
  base_trees = {}
  if spec:
    base_trees = spec
    repo0 = Repo(root=root, overlay=overlay, trees=spec)
    types0 = Types(repo0)
    repo0.specialised = sorted(spec)

  class _Cx(object):
    repo = repo0
    types = types0
  inl = Inliner(_Cx())
  trees = {}
  for m in repo0.modules.values():
    try:
      t = inl.normalise_module(m)
    except RecursionError:  # pragma: no cover
      t = None
    if t is not None:
      trees[m.relpath] = t
  if not trees:
    return repo0, types0
  for k, t in base_trees.items():
    trees.setdefault(k, t)
  repo1 = Repo(root=root, overlay=overlay, trees=trees)
  repo1.normalised_units = sorted(trees)
  repo1.absorbed = _drop_absorbed(repo1)
  return repo1, Types(repo1)


def _is_mixin(repo, module, B):
  """a class of this module without __init__ and without repo/external bases other than object (or other mixins), whose name
  is used only in the base lists of other classes: it is never instantiated on its own"""
  if '__init__' in B.methods or not repo.subclasses(B):
    return False
  for b in repo.mro(B)[1:]:
    if isinstance(b, tuple):
      if b[1] != 'object':
        return False
    elif not _is_mixin_base(repo, module, b):
      return False
  bases = {id(y) for m2 in repo.modules.values() for c_ in ast.walk(m2.tree) if isinstance(c_, ast.ClassDef) for x in c_.bases for y in ast.walk(x)}
  own = {id(x) for x in ast.walk(B.node)}
  for m_ in repo.modules.values():
    for x in ast.walk(m_.tree):
      if id(x) in bases or id(x) in own:
        continue
      if (isinstance(x, ast.Name) and x.id == B.name and isinstance(x.ctx, ast.Load)) or \
         (isinstance(x, ast.Attribute) and x.attr == B.name) or (isinstance(x, ast.alias) and x.name == B.name):
        return False
  return True


def _is_mixin_base(repo, module, b):
  return '__init__' not in b.methods and all(isinstance(x, tuple) and x[1] == 'object' for x in repo.mro(b)[1:])


def _specialise(repo):
  """Template methods: a method m that class C inherits from a base B of the same module, and that calls a hook
  `self.h(...)` which C (or a class between B and C) defines or overrides, is copied into C - exactly what
  inheritance does at run time - so that the hook call resolves to one function in C's copy and can be spliced there.
  Methods using super() or name-mangled attributes are left alone.  Returns {relpath: tree} of the modules changed."""
  out = {}
  for m in repo.modules.values():
    added = []
    for C in m.all_classes():
      try:
        mro = repo.mro(C)
      except Exception:
        continue
      for B in mro[1:]:
        if isinstance(B, tuple) or B.module is not m:
          continue
        mixin = B.name in C.base_names and _is_mixin(repo, m, B)          # folded into the class that lists it
        for name, meth in B.methods.items():
          if name in C.methods or repo.find_method(C, name) is not meth or isinstance(meth.node, ast.Lambda):
            continue
          if not mixin and B.name not in C.base_names and _is_mixin(repo, m, B):
            continue          # reaches C through the class that lists the mixin
          if mixin:
            # a mixin exists to be folded into the classes that list it: all of its methods (properties included) are
            # analysed as methods of the class that uses them
            if not any((isinstance(x, ast.Name) and x.id == 'super') or
                       (isinstance(x, ast.Attribute) and x.attr.startswith('__') and not x.attr.endswith('__')) for x in ast.walk(meth.node)):
              added.append((C, meth, ['<mixin %s>' % B.name]))
            continue
          if meth.is_property or any(d not in ('staticmethod', 'classmethod') for d in meth.decorators) or meth.is_staticmethod:
            continue
          n = meth.node
          if any((isinstance(x, ast.Name) and x.id == 'super') or
                 (isinstance(x, ast.Attribute) and x.attr.startswith('__') and not x.attr.endswith('__')) for x in ast.walk(n)):
            continue
          first = meth.params[0] if meth.params else None
          hooks = {x.func.attr for x in ast.walk(n) if isinstance(x, ast.Call) and isinstance(x.func, ast.Attribute) and
                   isinstance(x.func.value, ast.Name) and x.func.value.id == first}
          poly = [h for h in hooks if repo.find_method(C, h) is not None and repo.find_method(C, h) is not repo.find_method(B, h)]
          if poly:
            added.append((C, meth, sorted(poly)))
    if not added:
      continue
    tree = _clone(m.tree)
    for x in ast.walk(tree):
      if hasattr(x, '_parent'):
        del x._parent
    cls_nodes = {}
    for x in ast.walk(tree):
      if isinstance(x, ast.ClassDef):
        cls_nodes.setdefault((x.name, x.lineno), x)
    for C, meth, poly in added:
      cn = cls_nodes.get((C.node.name, C.node.lineno))
      if cn is None:
        continue
      cp = _clone(meth.node)
      for x in ast.walk(cp):
        for a in ('_parent', '_fi'):
          if hasattr(x, a):
            delattr(x, a)
      cp._specialised_from = meth.key
      cn.body.append(cp)
    # a mixin method that was folded into the classes listing the mixin no longer exists on its own (the mixin is never
    # instantiated): it leaves the mixin's body, so that nothing is analysed twice or out of its class's context
    folded = {}
    for C, meth, poly in added:
      if poly and poly[0].startswith('<mixin '):
        folded.setdefault((meth.cls.node.name, meth.cls.node.lineno), set()).add((meth.node.name, meth.node.lineno))
    for key, names in folded.items():
      cn = cls_nodes.get(key)
      if cn is None:
        continue
      cn.body = [st for st in cn.body if not (isinstance(st, (ast.FunctionDef, ast.AsyncFunctionDef)) and (st.name, st.lineno) in names)]
      if not cn.body:
        cn.body = [ast.copy_location(ast.Pass(), cn)]
    out[m.relpath] = tree
  return out


def _drop_absorbed(repo):
  """a helper whose every call site received its body, and that is referenced nowhere else in the program, is dead code of
  the normalised program: it is taken out of the model, so that per-function rules judge its statements where they run
  (in the callers) and not out of context.  Returns the keys removed."""
  spliced = set()
  for f in repo.all_functions():
    spliced |= set(f.inlined_from)
  if not spliced:
    return []
  refs = {}
  for m in repo.modules.values():
    for x in ast.walk(m.tree):
      if isinstance(x, ast.Attribute):
        refs[x.attr] = refs.get(x.attr, 0) + 1
      elif isinstance(x, ast.Name) and isinstance(x.ctx, ast.Load):
        refs[x.id] = refs.get(x.id, 0) + 1
      elif isinstance(x, ast.Constant) and isinstance(x.value, str) and x.value.isidentifier():
        refs[x.value] = refs.get(x.value, 0) + 1          # getattr(obj, 'name') and the like
  gone = []
  for m in repo.modules.values():
    for q, variants in list(m.functions.items()):
      keep = []
      for f in variants:
        if f.key in spliced and f.name not in NEVER_INLINE and not refs.get(f.name) and not f.name.startswith('__'):
          gone.append(f.key)
          if f.cls is not None and f.cls.methods.get(f.name) is f:
            del f.cls.methods[f.name]
          # ... and out of the tree, so that whole-module walks do not meet statements that no function owns
          par = getattr(f.node, '_parent', None)
          for field in ('body', 'orelse', 'finalbody'):
            blk = getattr(par, field, None)
            if isinstance(blk, list) and any(x is f.node for x in blk):
              blk[:] = [x for x in blk if x is not f.node]
              if not blk and field == 'body':
                blk.append(ast.copy_location(ast.Pass(), f.node))
        else:
          keep.append(f)
      if keep:
        m.functions[q] = keep
      else:
        del m.functions[q]
    # functions nested in a removed one go with it
    for q in list(m.functions):
      if any(q.startswith(g.split(':', 1)[1] + '.') for g in gone if g.split(':', 1)[0] == m.name):
        del m.functions[q]
  return sorted(gone)
