"""Exception-effect analysis with wire-taint kinds (DESIGN 2.5).

An abstract interpreter over the AST of the receiver callbacks.  Values carry a
*kind*; an operation table gives the result kind and the exceptions the
operation may raise on that kind (documented CPython behaviour).  ``escapes``
of a function = may-raise set of its statements minus what enclosing handlers
catch.  Unknown operations on tainted values are "top" (any Exception).

Kinds:
  WB   wire bytes, one item            WBM  wire bytes holding several items (datagram)
  WBL  list of WB                      WS   wire text            WSL  list of WS (wire-determined length)
  WO   arbitrary unpickled object      WOL  list/tuple of WO (isinstance-refined)
  F?   float that may be nan/inf       FF   finite float         INT  int
  N?   a number as it came (isinstance-refined, not converted): an int of any size or a float that may be nan/inf
  TR   trusted (configuration, constants, self attributes)      EXC  a caught exception object
  ('T', k0, k1, ...) tuple of known length
"""
import ast

from .model import dotted, unparse, walk_no_nested

PARENT = {
  'UnicodeDecodeError': 'UnicodeError', 'UnicodeEncodeError': 'UnicodeError', 'UnicodeError': 'ValueError',
  'ValueError': 'Exception', 'TypeError': 'Exception', 'OverflowError': 'ArithmeticError',
  'ZeroDivisionError': 'ArithmeticError', 'ArithmeticError': 'Exception', 'KeyError': 'LookupError',
  'IndexError': 'LookupError', 'LookupError': 'Exception', 'AttributeError': 'Exception',
  'ImportError': 'Exception', 'ModuleNotFoundError': 'ImportError', 'EOFError': 'Exception',
  'UnpicklingError': 'PickleError', 'PickleError': 'Exception', 'PicklingError': 'PickleError',
  'DecodeError': 'Exception', 'StopIteration': 'Exception', 'RuntimeError': 'Exception',
  'NotImplementedError': 'RuntimeError', 'RecursionError': 'RuntimeError', 'AssertionError': 'Exception',
  'MemoryError': 'Exception', 'OSError': 'Exception', 'IOError': 'Exception', 'struct.error': 'Exception',
  'error': 'Exception', 'Exception': 'BaseException', 'TOP': 'Exception',
}

WIRE = {'WB', 'WBM', 'WBL', 'WS', 'WSL', 'WO', 'WOL', 'F?', 'WSB', 'N?'}
STR_TOTAL = {'strip', 'lstrip', 'rstrip', 'lower', 'upper', 'title', 'startswith', 'endswith', 'find', 'rfind', 'replace',
             'isdigit', 'isalpha', 'isalnum', 'isspace', 'count', 'partition', 'rpartition', 'casefold', 'swapcase',
             'expandtabs', 'zfill', 'center', 'ljust', 'rjust', 'capitalize', 'isnumeric', 'isdecimal', 'islower', 'isupper'}
STR_TO_LIST = {'split', 'rsplit', 'splitlines'}
TRUSTED_MODULES = ('carbon.log', 'carbon.instrumentation')
TRUSTED_CALL_PREFIXES = ('log.', 'instrumentation.', 'time.', 'state.instrumentation.')
TRUSTED_SELF_METHODS = {'resetTimeout', 'setTimeout', 'getPeerName', 'sendLine', 'sendString'}
CLOSERS = {'loseConnection', 'abortConnection', 'stopListening', 'stopProducing'}


def is_sub(e, h):
  """may exception class e be caught by handler class h?"""
  if h in (None, 'BaseException'):
    return True
  h = h.split('.')[-1]
  if e == 'TOP':
    return h == 'Exception'
  e = e.split('.')[-1]
  seen = 0
  while e is not None and seen < 12:
    if e == h:
      return True
    e = PARENT.get(e)
    seen += 1
  return False


class Opt(object):
  """kind of a value that is either None or of kind ``k`` (result of joining a literal None with a wire kind); it is
  only kept in variable bindings and refined by ``x is None`` tests - every other use sees the degraded kind."""
  __slots__ = ('k',)

  def __init__(self, k):
    self.k = k

  def __eq__(self, other):
    return isinstance(other, Opt) and other.k == self.k

  def __ne__(self, other):
    return not self.__eq__(other)

  def __hash__(self):
    return hash(('OPT', self.k))

  def __repr__(self):
    return 'OPT(%s)' % (self.k,)

  __str__ = __repr__


def degrade(k):
  if k in ('NONE', 'C:T', 'C:F'):
    return 'TR'
  if isinstance(k, tuple):
    return (k[0],) + tuple(degrade(x) for x in k[1:])
  if isinstance(k, Opt):
    return 'WO' if is_wire(k.k) else 'TR'
  return k


def is_wire(k):
  if isinstance(k, Opt):
    return is_wire(k.k)
  if isinstance(k, tuple):
    return any(is_wire(x) for x in k[1:])
  return k in WIRE


def join(a, b):
  if a == b:
    return a
  if a is None:
    return b
  if b is None:
    return a
  if a in ('C:T', 'C:F') or b in ('C:T', 'C:F'):
    a = 'TR' if a in ('C:T', 'C:F') else a
    b = 'TR' if b in ('C:T', 'C:F') else b
    return join(a, b)
  if a == 'NONE' or b == 'NONE' or isinstance(a, Opt) or isinstance(b, Opt):
    ia = None if a == 'NONE' else (a.k if isinstance(a, Opt) else a)
    ib = None if b == 'NONE' else (b.k if isinstance(b, Opt) else b)
    inner = join(ia, ib)
    if inner is None:
      return 'NONE'
    if isinstance(inner, tuple) or is_wire(inner):
      return Opt(inner)
    return inner
  # an empty tuple / list literal joined with a list kind is that list kind (nothing to iterate in the empty case)
  if a == ('T',) and b in ('WOL', 'WSL', 'WBL'):
    return b
  if b == ('T',) and a in ('WOL', 'WSL', 'WBL'):
    return a
  if isinstance(a, tuple) and isinstance(b, tuple) and len(a) == len(b):
    return ('T',) + tuple(join(x, y) for x, y in zip(a[1:], b[1:]))
  if {a, b} == {'FF', 'F?'}:
    return 'F?'
  if {a, b} <= {'FF', 'INT', 'TR'}:
    return 'TR' if 'TR' in (a, b) else 'FF'
  if is_wire(a) or is_wire(b):
    if {a, b} <= {'WS', 'TR'}:
      return 'WS'
    if {a, b} <= {'WS', 'WB', 'WSB'}:
      return 'WSB'          # wire text or wire bytes (e.g. before/after a decode)
    return 'WO'
  return 'TR'


class Raised(object):
  __slots__ = ('exc', 'fn', 'node', 'what', 'via')

  def __init__(self, exc, fn, node, what, via=()):
    self.exc = exc
    self.fn = fn
    self.node = node
    self.what = what
    self.via = via

  def key(self):
    return (self.exc, self.fn.key if self.fn else '', getattr(self.node, 'lineno', 0), getattr(self.node, 'col_offset', 0))

  def __repr__(self):
    return '<%s at %s:%s %s>' % (self.exc, self.fn.qualname if self.fn else '?', getattr(self.node, 'lineno', 0), self.what)


class Effects(object):
  def __init__(self, cx, max_depth=6):
    self.cx = cx
    self.repo = cx.repo
    self.T = cx.types
    self.max_depth = max_depth
    self.uninit_attrs = set()  # attributes of the receiver object that may be unset when the entry point runs
    self.dispatches = []       # (fn, call, kinds) of the calls to <receiver>.metricReceived(metric, datapoint)
    self.hazards = []          # (fn, node, message): may-raise operation on a whole multi-item payload
    self.loop_problems = []    # (fn, node, message)
    self.closers = []          # (fn, call)
    self.analysed = set()
    # exception classes defined in the repository: <name> -> <first base that is (transitively) a known exception>
    for c in self.repo.all_classes():
      if c.name in PARENT:
        continue
      for b in c.base_names:
        bn = b.split('.')[-1]
        if bn in PARENT or any(k.name == bn for k in self.repo.all_classes() if k is not c and k.base_names):
          PARENT.setdefault(c.name, bn)
          break
    self._memo = {}
    self._ret_memo = {}
    self._rets = []
    self._stack = []

  # ------------------------------------------------------------ entry
  def analyse(self, fn, kinds):
    """escapes of calling ``fn`` with positional argument kinds (incl. self)."""
    key = (fn.key, fn.variant, tuple(map(str, kinds)))
    if key in self._memo:
      return self._memo[key]
    if len(self._stack) >= self.max_depth or key in [k for k, _ in self._stack]:
      return [Raised('TOP', fn, fn.node, 'analysis depth limit / recursion at %s' % fn.qualname)]
    self._stack.append((key, fn))
    self.analysed.add(fn.key)
    env = {}
    params = fn.params
    for p, k in zip(params, kinds):
      env[p] = k
    for p in params[len(kinds):]:
      env[p] = 'TR'
    a = fn.node.args
    if a.vararg:
      env[a.vararg.arg] = ('T',) + tuple(kinds[len(params):]) if len(kinds) > len(params) else 'TR'
      if any(is_wire(k) for k in kinds):
        env[a.vararg.arg] = 'WARGS'
    if a.kwarg:
      env[a.kwarg.arg] = 'TR'
    self._rets.append(None)
    raised, ft = self.run(fn.body, env, fn)
    rk = self._rets.pop()
    if ft:
      rk = 'NONE' if rk is None else join(rk, 'NONE')
    if any(isinstance(x, (ast.Yield, ast.YieldFrom)) for x in walk_no_nested(fn.node, include_self=False)):
      rk = None          # a generator: the call returns an iterator, not what `return` says
    self._ret_memo[key] = rk
    self._stack.pop()
    self._memo[key] = raised
    return raised

  def return_kind(self, fn, kinds):
    """kind of the value returned by ``fn`` for these argument kinds (after analyse()); None = not known."""
    return self._ret_memo.get((fn.key, fn.variant, tuple(map(str, kinds))))

  # ------------------------------------------------------------ statements
  MAX_WORLDS = 8

  def run(self, stmts, env, fn):
    """returns (raised list, falls_through).  Within one statement list the outcomes of an if / try are kept apart
    (up to MAX_WORLDS alternative environments), so that a flag or a tagged tuple set in one branch and tested later in
    the same block is followed branch by branch; at the end of the block the survivors are joined into ``env``."""
    out = []
    worlds = [env]
    for s in stmts:
      nxt = []
      for w in worlds:
        if isinstance(s, (ast.If, ast.Try)) and not getattr(s, 'finalbody', None) and len(worlds) < self.MAX_WORLDS:
          r, outs = self.stmt(s, w, fn, split=True)
          out.extend(r)
          nxt.extend(e for e, ft in outs if ft)
        else:
          r, ft = self.stmt(s, w, fn)
          out.extend(r)
          if ft:
            nxt.append(w)
      if len(nxt) > self.MAX_WORLDS:
        m = dict(nxt[0])
        self.merge(m, [(e, True) for e in nxt])
        nxt = [m]
      worlds = nxt
      if not worlds:
        return out, False
    if not (len(worlds) == 1 and worlds[0] is env):
      self.merge(env, [(e, True) for e in worlds])
    return out, True

  def stmt(self, s, env, fn, split=False):
    R = []
    if isinstance(s, ast.Expr):
      _, r = self.ev(s.value, env, fn)
      return r, True
    if isinstance(s, ast.Assign):
      k, r = self.ev(s.value, env, fn, keep_opt=True)
      R.extend(r)
      for t in s.targets:
        self.bind(t, k, env, R, s, fn)
      return R, True
    if isinstance(s, ast.AugAssign):
      k, r = self.ev(ast.BinOp(left=_load(s.target), op=s.op, right=s.value), env, fn, at=s)
      R.extend(r)
      self.bind(s.target, k, env, R, s, fn)
      return R, True
    if isinstance(s, ast.AnnAssign):
      if s.value is not None:
        k, r = self.ev(s.value, env, fn)
        R.extend(r)
        self.bind(s.target, k, env, R, s, fn)
      return R, True
    if isinstance(s, ast.Return):
      k = 'NONE'
      if s.value is not None:
        k, r = self.ev(s.value, env, fn, keep_opt=True)
        R.extend(r)
      if self._rets:
        self._rets[-1] = k if self._rets[-1] is None else join(self._rets[-1], k)
      return R, False
    if isinstance(s, (ast.Continue, ast.Break)):
      return R, False
    if isinstance(s, (ast.Pass, ast.Global, ast.Nonlocal, ast.Import, ast.ImportFrom, ast.FunctionDef, ast.ClassDef)):
      return R, True
    if isinstance(s, ast.If):
      _, r = self.ev(s.test, env, fn)
      R.extend(r)
      e1, e2 = dict(env), dict(env)
      self.refine(s.test, e1, e2)
      r1, ft1 = ([], False) if e1.pop('__dead__', False) else self.run(s.body, e1, fn)
      r2, ft2 = ([], False) if e2.pop('__dead__', False) else self.run(s.orelse, e2, fn)
      R.extend(r1)
      R.extend(r2)
      if split:
        return R, [(e1, ft1), (e2, ft2)]
      self.merge(env, [(e1, ft1), (e2, ft2)])
      return R, ft1 or ft2
    if isinstance(s, (ast.For, ast.AsyncFor)):
      k, r = self.ev(s.iter, env, fn)
      R.extend(r)
      elem = 'TR'
      if k == 'WO':
        R.append(Raised('TypeError', fn, s.iter, 'iteration over an arbitrary unpickled object'))
        elem = 'WO'
      elif k == 'WOL':
        elem = 'WO'
      elif k == 'WSL':
        elem = 'WS'
      elif k == 'WBL':
        elem = 'WB'
      elif k in ('WS', 'WB', 'WBM'):
        elem = 'WS' if k == 'WS' else 'INT'
      elif isinstance(k, tuple):
        elem = None
        for x in k[1:]:
          elem = join(elem, x)
      wire_loop = is_wire(k) if k is not None else False
      body_env = dict(env)
      self.bind(s.target, elem, body_env, R, s, fn)
      rb, _ = self.run(s.body, body_env, fn)
      # second pass with the merged environment (one widening step)
      env2 = dict(env)
      self.merge(env2, [(body_env, True), (dict(env), True)])
      self.bind(s.target, elem, env2, [], s, fn)
      rb2, _ = self.run(s.body, env2, fn)
      seen = {x.key() for x in rb}
      rb.extend(x for x in rb2 if x.key() not in seen)
      if wire_loop:
        for x in rb:
          self.loop_problems.append((fn, x.node, 'an exception (%s: %s) raised while handling one wire item leaves the loop over '
                                     'the items of the frame: the remaining items are dropped with it' % (x.exc, x.what)))
        self._handler_exits(s, fn)
      R.extend(rb)
      self.merge(env, [(env2, True)])
      ro, ft = self.run(s.orelse, env, fn)
      R.extend(ro)
      return R, True
    if isinstance(s, ast.While):
      _, r = self.ev(s.test, env, fn)
      R.extend(r)
      body_env = dict(env)
      rb, _ = self.run(s.body, body_env, fn)
      R.extend(rb)
      self.merge(env, [(body_env, True), (dict(env), True)])
      return R, True
    if isinstance(s, ast.Try) or type(s).__name__ == 'TryStar':
      body_env = dict(env)
      rb, ftb = self.run(s.body, body_env, fn)
      remaining = []
      caught = [[] for _ in s.handlers]
      for x in rb:
        for i, h in enumerate(s.handlers):
          types = [None] if h.type is None else (
            [unparse(e) for e in h.type.elts] if isinstance(h.type, ast.Tuple) else [unparse(h.type)])
          if any(is_sub(x.exc, t) for t in types):
            caught[i].append(x)
            break
        else:
          remaining.append(x)
      outs = []
      if s.orelse:
        ro, fto = self.run(s.orelse, body_env, fn)
        remaining.extend(ro)
        outs.append((body_env, ftb and fto))
      else:
        outs.append((body_env, ftb))
      for i, h in enumerate(s.handlers):
        # the handler starts from any intermediate state of the body: join(before, after)
        he = dict(env)
        self.merge(he, [(dict(env), True), (body_env, True)])
        if h.name:
          he[h.name] = 'EXC'
        rh, fth = self.run(h.body, he, fn)
        remaining.extend(rh)
        outs.append((he, fth))
      if split and not s.finalbody:
        return remaining, outs
      self.merge(env, outs)
      ft = any(f for _, f in outs)
      if s.finalbody:
        rf, ftf = self.run(s.finalbody, env, fn)
        remaining.extend(rf)
        ft = ft and ftf
      return remaining, ft
    if isinstance(s, (ast.With, ast.AsyncWith)):
      for i in s.items:
        _, r = self.ev(i.context_expr, env, fn)
        R.extend(r)
      rb, ft = self.run(s.body, env, fn)
      R.extend(rb)
      return R, ft
    if isinstance(s, ast.Raise):
      name = 'TOP'
      if s.exc is not None:
        e = s.exc.func if isinstance(s.exc, ast.Call) else s.exc
        name = (dotted(e) or 'TOP').split('.')[-1]
        if name not in PARENT:
          name = 'TOP'
      R.append(Raised(name, fn, s, 'explicit raise'))
      return R, False
    if isinstance(s, ast.Assert):
      _, r = self.ev(s.test, env, fn)
      R.extend(r)
      et, ef = dict(env), dict(env)
      self.refine(s.test, et, ef)
      if not ef.get('__dead__'):        # the kinds do not already guarantee the asserted fact
        R.append(Raised('AssertionError', fn, s, 'assert on wire-derived data'))
      for k_, v_ in et.items():
        if k_ != '__dead__':
          env[k_] = v_
      return R, True
    if isinstance(s, ast.Delete):
      return R, True
    R.append(Raised('TOP', fn, s, 'unmodelled statement %s' % type(s).__name__))
    return R, True

  def _handler_exits(self, loop, fn):
    """a handler inside a per-item loop that leaves the loop drops the neighbours of a bad item."""
    for t in [n for n in walk_no_nested(loop, include_self=False) if isinstance(n, ast.Try)]:
      for h in t.handlers:
        for x in walk_no_nested(h, include_self=False):
          if isinstance(x, ast.Return):
            self.loop_problems.append((fn, x, 'the handler of a malformed item returns from the callback: the items after it in '
                                       'the same frame are dropped'))
          elif isinstance(x, ast.Break):
            # only if the break targets this loop
            p = x
            inner = False
            while p is not None and p is not loop:
              p = getattr(p, '_parent', None)
              if isinstance(p, (ast.For, ast.While)) and p is not loop:
                inner = True
                break
            if not inner:
              self.loop_problems.append((fn, x, 'the handler of a malformed item breaks out of the loop over the items of the frame'))

  def merge(self, env, outs):
    live = [e for e, ft in outs if ft]
    if not live:
      return
    keys = set()
    for e in live:
      keys |= set(e)
    for k in keys:
      v = None
      first = True
      for e in live:
        if k in e:
          v = e[k] if first else join(v, e[k])
          first = False
      env[k] = v

  def refine(self, test, e_true, e_false):
    neg = False
    t = test
    while isinstance(t, ast.UnaryOp) and isinstance(t.op, ast.Not):
      neg = not neg
      t = t.operand
    if isinstance(t, ast.BoolOp):
      # `a and b` true => both true;  `a or b` false => both false
      if isinstance(t.op, ast.And) and not neg:
        for v in t.values:
          self.refine(v, e_true, {})
      if isinstance(t.op, ast.Or) and neg:
        for v in t.values:
          self.refine(ast.UnaryOp(op=ast.Not(), operand=v), e_true, {})
      if isinstance(t.op, ast.Or) and not neg:
        for v in t.values:
          self.refine(v, {}, e_false)
      return
    if isinstance(t, ast.Compare) and len(t.ops) == 1 and isinstance(t.ops[0], (ast.Is, ast.IsNot, ast.Eq, ast.NotEq)) and \
       isinstance(t.left, ast.Name) and isinstance(t.comparators[0], ast.Constant) and t.comparators[0].value is None:
      v = t.left.id
      is_none_true = isinstance(t.ops[0], (ast.Is, ast.Eq)) != neg
      yes, no = (e_true, e_false) if is_none_true else (e_false, e_true)     # yes: the value is None
      cur = e_true.get(v, e_false.get(v))
      if isinstance(cur, Opt):
        yes[v] = 'NONE'
        no[v] = cur.k
      elif cur == 'NONE':
        no['__dead__'] = True
      elif isinstance(cur, tuple) or cur in ('WS', 'WB', 'WSB', 'F?', 'FF', 'INT', 'N?', 'WSL', 'WBL', 'WOL', 'C:T', 'C:F', 'TS'):
        yes['__dead__'] = True          # a value of a known non-None kind
      return
    if isinstance(t, ast.Compare) and len(t.ops) == 1 and isinstance(t.ops[0], (ast.Is, ast.IsNot)) and \
       isinstance(t.left, ast.Name) and isinstance(t.comparators[0], ast.Name) and \
       e_true.get(t.comparators[0].id, e_false.get(t.comparators[0].id)) is None and t.comparators[0].id.isupper():
      # `x is _SENTINEL` with a module-level (upper-case) sentinel: a str / bytes / number is never the sentinel
      cur = e_true.get(t.left.id, e_false.get(t.left.id))
      if cur in ('WS', 'WB', 'WSB', 'F?', 'FF', 'INT', 'N?', 'TS'):
        is_true = isinstance(t.ops[0], ast.Is) != neg
        (e_true if is_true else e_false)['__dead__'] = True
      return
    if isinstance(t, ast.Name) and e_true.get(t.id, e_false.get(t.id)) in ('C:T', 'C:F', 'NONE'):
      cur = e_true.get(t.id, e_false.get(t.id))
      truthy = cur == 'C:T'
      # the branch that contradicts the constant cannot be taken
      (e_false if truthy != neg else e_true)['__dead__'] = True
      return
    if isinstance(t, ast.Name) and isinstance(e_true.get(t.id, e_false.get(t.id)), Opt):
      cur = e_true.get(t.id, e_false.get(t.id))
      if isinstance(cur.k, tuple) and len(cur.k) > 1:
        # a non-empty tuple is truthy: the falsy branch holds None
        yes, no = (e_false, e_true) if neg else (e_true, e_false)
        yes[t.id] = cur.k
        no[t.id] = 'NONE'
      return
    if isinstance(t, ast.Call) and isinstance(t.func, ast.Name) and t.func.id == 'isinstance' and len(t.args) == 2 and \
       isinstance(t.args[0], ast.Subscript) and isinstance(t.args[0].value, ast.Name) and isinstance(t.args[0].slice, ast.Constant) and \
       isinstance(t.args[0].slice.value, int):
      # isinstance(x[i], float) on a tuple of known shape refines component i
      v, i = t.args[0].value.id, t.args[0].slice.value
      cur = e_true.get(v, e_false.get(v))
      ty = t.args[1]
      names = [unparse(e) for e in ty.elts] if isinstance(ty, ast.Tuple) else [unparse(ty)]
      if isinstance(cur, tuple) and cur[0] == 'T' and 0 <= i < len(cur) - 1 and cur[1 + i] == 'N?' and set(names) <= {'float'}:
        yes, no = (e_false, e_true) if neg else (e_true, e_false)
        yes[v] = cur[:1 + i] + ('F?',) + cur[2 + i:]
        no[v] = cur[:1 + i] + ('INT',) + cur[2 + i:]
      return
    if isinstance(t, ast.Call) and isinstance(t.func, ast.Name) and t.func.id == 'isinstance' and len(t.args) == 2 and \
       isinstance(t.args[0], ast.Name):
      v = t.args[0].id
      cur0 = e_true.get(v, e_false.get(v))
      ty0 = t.args[1]
      names0 = [unparse(e) for e in ty0.elts] if isinstance(ty0, ast.Tuple) else [unparse(ty0)]
      if cur0 == 'N?' and set(names0) <= {'float'}:
        yes, no = (e_false, e_true) if neg else (e_true, e_false)
        yes[v], no[v] = 'F?', 'INT'
        return
      ty = t.args[1]
      names = [unparse(e) for e in ty.elts] if isinstance(ty, ast.Tuple) else [unparse(ty)]
      yes, no = (e_false, e_true) if neg else (e_true, e_false)
      cur = yes.get(v, e_true.get(v, e_false.get(v)))
      STR = {'str', 'six.text_type', 'unicode', 'basestring', 'six.string_types'}
      # a value whose kind already says what it is: the other outcome cannot happen
      if cur == 'WS' and set(names) <= STR:
        no['__dead__'] = True
        return
      if cur == 'WB' and set(names) <= {'bytes'}:
        no['__dead__'] = True
        return
      if cur in ('F?', 'FF') and set(names) <= {'float'}:
        no['__dead__'] = True
        return
      if cur in ('WO', 'WS', 'WB', None):
        if set(names) <= {'str', 'six.text_type', 'unicode', 'basestring', 'six.string_types'}:
          if cur == 'WO':
            yes[v] = 'WS'
        elif set(names) <= {'bytes'}:
          if cur == 'WO':
            yes[v] = 'WB'
        elif set(names) <= {'list', 'tuple'}:
          if cur == 'WO':
            yes[v] = 'WOL'
        elif set(names) <= {'float'}:
          if cur == 'WO':
            yes[v] = 'F?'
        elif set(names) <= {'int', 'float', 'six.integer_types', 'long', 'numbers.Number', 'numbers.Real', 'Number'}:
          if cur == 'WO':
            yes[v] = 'N?'

  # ------------------------------------------------------------ binding
  def bind(self, tgt, kind, env, R, at, fn):
    if isinstance(tgt, ast.Name):
      env[tgt.id] = kind
      return
    if isinstance(kind, Opt) or kind == 'NONE':
      if isinstance(tgt, (ast.Tuple, ast.List)) and is_wire(kind):
        R.append(Raised('TypeError', fn, at, 'unpacking a value that may be None'))
      kind = degrade(kind) if kind == 'NONE' else kind.k
    if isinstance(tgt, ast.Starred):
      self.bind(tgt.value, 'WO' if is_wire(kind) else 'TR', env, R, at, fn)
      return
    if isinstance(tgt, (ast.Tuple, ast.List)):
      n = len(tgt.elts)
      if isinstance(kind, tuple):
        if len(kind) - 1 == n:
          for t, k in zip(tgt.elts, kind[1:]):
            self.bind(t, k, env, R, at, fn)
          return
        R.append(Raised('ValueError', fn, at, 'unpacking a %d-tuple into %d names' % (len(kind) - 1, n)))
        for t in tgt.elts:
          self.bind(t, 'WO' if is_wire(kind) else 'TR', env, R, at, fn)
        return
      if kind in ('WSL', 'WBL'):
        R.append(Raised('ValueError', fn, at, 'unpacking a wire-determined number of fields into %d names' % n))
        for t in tgt.elts:
          self.bind(t, 'WS' if kind == 'WSL' else 'WB', env, R, at, fn)
        return
      if kind in ('WO', 'WOL', 'WS', 'WB'):
        R.append(Raised('TypeError', fn, at, 'unpacking an arbitrary wire object'))
        R.append(Raised('ValueError', fn, at, 'unpacking an arbitrary wire object'))
        for t in tgt.elts:
          self.bind(t, 'WO' if kind in ('WO', 'WOL') else kind, env, R, at, fn)
        return
      for t in tgt.elts:
        self.bind(t, 'TR', env, R, at, fn)
      return
    if isinstance(tgt, ast.Subscript):
      b, r = self.ev(tgt.value, env, fn)
      R.extend(r)
      i, r = self.ev(tgt.slice, env, fn)
      R.extend(r)
      if b == 'WO':
        R.append(Raised('TypeError', fn, at, 'item assignment on an arbitrary wire object'))
      if i == 'WO':
        R.append(Raised('TypeError', fn, at, 'unhashable/arbitrary wire object used as a key'))
      return
    # attribute targets: trusted receivers only

  # ------------------------------------------------------------ expressions
  def ev(self, n, env, fn, at=None, keep_opt=False):
    k, R = self._ev(n, env, fn, at)
    if not keep_opt:
      k = degrade(k)
    return k, R

  def _ev(self, n, env, fn, at=None):
    R = []
    at = at or n

    def sub(x):
      k, r = self.ev(x, env, fn)
      R.extend(r)
      return k
    if isinstance(n, ast.Constant) and n.value is None:
      return 'NONE', R
    if isinstance(n, ast.Constant) and n.value is True:
      return 'C:T', R
    if isinstance(n, ast.Constant) and n.value is False:
      return 'C:F', R
    if n is None or isinstance(n, ast.Constant):
      return 'TR', R
    if isinstance(n, ast.Name):
      return env.get(n.id, 'TR'), R
    if isinstance(n, ast.Attribute):
      base = sub(n.value)
      if isinstance(n.value, ast.Name) and fn.params and n.value.id == fn.params[0] and n.attr in self.uninit_attrs and \
         isinstance(n.ctx, ast.Load):
        R.append(Raised('AttributeError', fn, n, 'self.%s, which is only ever set by connectionMade() - never called on this '
                        'kind of receiver' % n.attr))
      if base in ('WO', 'WOL'):
        R.append(Raised('AttributeError', fn, n, 'attribute .%s of an arbitrary unpickled object' % n.attr))
        return 'WO', R
      if base == 'EXC':
        return 'TR', R
      return ('WO' if is_wire(base) else 'TR'), R
    if isinstance(n, ast.Tuple):
      ks = []
      for e in n.elts:
        k_, r_ = self.ev(e, env, fn, keep_opt=True)
        R.extend(r_)
        ks.append(k_)
      return ('T',) + tuple(ks), R
    if isinstance(n, (ast.List, ast.Set)):
      ks = [sub(e) for e in n.elts]
      if isinstance(n, ast.Set) and any(k in ('WO', 'WOL') for k in ks):
        R.append(Raised('TypeError', fn, n, 'unhashable wire object in a set'))
      return ('WOL' if any(is_wire(k) for k in ks) else 'TR'), R
    if isinstance(n, ast.Dict):
      for k in n.keys:
        if k is not None and sub(k) in ('WO', 'WOL'):
          R.append(Raised('TypeError', fn, n, 'unhashable wire object as dict key'))
      for v in n.values:
        sub(v)
      return 'TR', R
    if isinstance(n, ast.Subscript):
      base = sub(n.value)
      if isinstance(n.slice, ast.Slice):
        for p in (n.slice.lower, n.slice.upper, n.slice.step):
          if p is not None:
            sub(p)
        if base in ('WO',):
          R.append(Raised('TypeError', fn, n, 'slice of an arbitrary unpickled object'))
          return 'WO', R
        return base, R
      idx = sub(n.slice)
      if isinstance(base, tuple):
        if isinstance(n.slice, ast.Constant) and isinstance(n.slice.value, int):
          i = n.slice.value
          if -(len(base) - 1) <= i < len(base) - 1:
            return base[1:][i], R
          R.append(Raised('IndexError', fn, n, 'index %d out of range of a %d-tuple' % (i, len(base) - 1)))
          return 'WO', R
        R.append(Raised('IndexError', fn, n, 'computed index into a tuple'))
        return 'WO', R
      if base in ('WO', 'WOL'):
        R.append(Raised('TOP', fn, n, 'subscript of an arbitrary unpickled object'))
        return 'WO', R
      if base in ('WS', 'WB', 'WSB'):
        R.append(Raised('IndexError', fn, n, 'index into wire text that may be shorter (e.g. empty)'))
        return ('WS' if base == 'WS' else 'INT'), R
      if base in ('WSL', 'WBL'):
        R.append(Raised('IndexError', fn, n, 'index into a list whose length is determined by the wire data'))
        return ('WS' if base == 'WSL' else 'WB'), R
      if base == 'WARGS':
        return 'WO', R
      if is_wire(idx):
        R.append(Raised('KeyError', fn, n, 'lookup with a wire-derived key'))
        if idx in ('WO', 'WOL'):
          R.append(Raised('TypeError', fn, n, 'unhashable wire object used as a key'))
      return 'TR', R
    if isinstance(n, ast.Compare):
      l = sub(n.left)
      for op, c in zip(n.ops, n.comparators):
        r = sub(c)
        if isinstance(op, (ast.In, ast.NotIn)):
          R.extend(self._contains(c, r, l, env, fn, n))
        elif isinstance(op, (ast.Eq, ast.NotEq, ast.Is, ast.IsNot)):
          pass
        elif l in ('WO', 'WOL') or r in ('WO', 'WOL') or (l in ('WS', 'WB') and r not in ('WS', 'WB', l)) or \
            (r in ('WS', 'WB') and l not in ('WS', 'WB', r)):
          R.append(Raised('TypeError', fn, n, 'ordering comparison involving an arbitrary wire object'))
        l = r
      return 'TR', R
    if isinstance(n, ast.BoolOp):
      k = None
      for v in n.values:
        k = join(k, sub(v))
      return k, R
    if isinstance(n, ast.UnaryOp):
      k = sub(n.operand)
      if isinstance(n.op, ast.Not):
        return 'TR', R
      if k in ('WO', 'WOL', 'WS', 'WB'):
        R.append(Raised('TypeError', fn, n, 'unary arithmetic on a wire object'))
      return k, R
    if isinstance(n, ast.BinOp):
      return self._binop(n, env, fn, R, at)
    if isinstance(n, ast.Call):
      return self._call(n, env, fn, R)
    if isinstance(n, ast.JoinedStr):
      for v in n.values:
        if isinstance(v, ast.FormattedValue):
          k = sub(v.value)
          if v.format_spec is not None and is_wire(k):
            spec = unparse(v.format_spec)
            if any(c in spec for c in 'dfeEgGxXobn%'):
              R.append(Raised('ValueError', fn, n, 'format spec %s applied to wire data' % spec))
              R.append(Raised('TypeError', fn, n, 'format spec %s applied to wire data' % spec))
      return 'WS' if any(isinstance(v, ast.FormattedValue) and is_wire(self.ev(v.value, env, fn)[0]) for v in n.values) else 'TR', R
    if isinstance(n, ast.IfExp):
      sub(n.test)
      e1_, e2_ = dict(env), dict(env)
      self.refine(n.test, e1_, e2_)
      kb, rb_ = self.ev(n.body, e1_, fn, keep_opt=True)
      ko, ro_ = self.ev(n.orelse, e2_, fn, keep_opt=True)
      R.extend(rb_)
      R.extend(ro_)
      return join(kb, ko), R
    if isinstance(n, ast.Lambda):
      return 'TR', R
    if isinstance(n, (ast.ListComp, ast.SetComp, ast.GeneratorExp, ast.DictComp)):
      e2 = dict(env)
      for g in n.generators:
        k, r = self.ev(g.iter, e2, fn)
        R.extend(r)
        elem = {'WOL': 'WO', 'WSL': 'WS', 'WBL': 'WB'}.get(k, 'WO' if k == 'WO' else 'TR')
        if k == 'WO':
          R.append(Raised('TypeError', fn, g.iter, 'iteration over an arbitrary unpickled object'))
        self.bind(g.target, elem, e2, R, n, fn)
        for i in g.ifs:
          _, r = self.ev(i, e2, fn)
          R.extend(r)
      if isinstance(n, ast.DictComp):
        _, r = self.ev(n.key, e2, fn)
        R.extend(r)
        _, r = self.ev(n.value, e2, fn)
        R.extend(r)
        return 'TR', R
      k, r = self.ev(n.elt, e2, fn)
      R.extend(r)
      return ('WOL' if is_wire(k) else 'TR'), R
    if isinstance(n, ast.Starred):
      return sub(n.value), R
    if isinstance(n, ast.Slice):
      return 'TR', R
    R.append(Raised('TOP', fn, n, 'unmodelled expression %s' % type(n).__name__))
    return 'WO', R

  def _contains(self, cnode, ckind, lkind, env, fn, at):
    R = []
    # value in <instance of a repo class with __contains__>
    for t in self.T.expr_types(cnode, fn.module, fn):
      if t[0] == 'inst':
        m = self.repo.find_method(t[1], '__contains__')
        if m is not None:
          R.extend(self._via(self.analyse(m, ['TR', lkind]), fn, at))
          return R
    if lkind in ('WO', 'WOL'):
      R.append(Raised('TypeError', fn, at, 'membership test with an unhashable/arbitrary wire object'))
    if ckind in ('WO',):
      R.append(Raised('TypeError', fn, at, 'membership test in an arbitrary wire object'))
    if ckind in ('WS', 'WB') and lkind not in ('WS', 'WB', 'TR'):
      R.append(Raised('TypeError', fn, at, 'substring test with a non-string'))
    return R

  def _via(self, raised, fn, at):
    return [Raised(x.exc, x.fn, x.node, x.what, x.via + ((fn, at),)) for x in raised]

  def _binop(self, n, env, fn, R, at):
    l, r1 = self.ev(n.left, env, fn)
    r, r2 = self.ev(n.right, env, fn)
    R.extend(r1)
    R.extend(r2)
    if isinstance(n.op, ast.Mod) and (l == 'TR' or isinstance(n.left, ast.Constant)):
      tpl = n.left.value if isinstance(n.left, ast.Constant) and isinstance(n.left.value, str) else None
      if tpl is None:
        from .symeval import class_constant
        cv = class_constant(n.left, fn)
        tpl = cv if isinstance(cv, str) else None
      args = list(r[1:]) if isinstance(r, tuple) else [r]
      if tpl is not None:
        import re
        specs = re.findall(r'%(?:\([^)]*\))?[-+ #0]*\d*(?:\.\d+)?([a-zA-Z%])', tpl)
        specs = [s for s in specs if s != '%']
        if not isinstance(r, tuple) and r in ('WO', 'WOL') and not isinstance(n.right, ast.Dict):
          R.append(Raised('TypeError', fn, at, '%-formatting with an arbitrary wire object as the only argument (a tuple '
                          'changes the argument count)'))
        if isinstance(r, tuple) and len(specs) != len(args) and '(' not in tpl:
          R.append(Raised('TypeError', fn, at, '%-format with %d conversions and %d arguments' % (len(specs), len(args))))
        for sp, k in zip(specs, args):
          if sp in 'sra':
            continue
          if k in ('WS', 'WB', 'WO', 'WOL', 'WSL', 'WBL', 'EXC') or isinstance(k, tuple):
            R.append(Raised('TypeError', fn, at, '%%%s conversion of non-numeric wire data' % sp))
          elif k in ('F?', 'N?') and sp in 'dioxXc':
            R.append(Raised('ValueError', fn, at, '%%%s of a float that may be NaN' % sp))
            R.append(Raised('OverflowError', fn, at, '%%%s of a float that may be infinite' % sp))
      elif any(is_wire(a) for a in args):
        R.append(Raised('TypeError', fn, at, '%-formatting of wire data with a non-constant template'))
      return ('WS' if any(is_wire(a) for a in args) else 'TR'), R
    if isinstance(n.op, ast.Add):
      if {l, r} <= {'WS', 'TR'}:
        return ('WS' if 'WS' in (l, r) else 'TR'), R
      if {l, r} <= {'WB'}:
        return 'WB', R
      if 'WB' in (l, r) or 'WO' in (l, r) or 'WOL' in (l, r) or ('WS' in (l, r) and {l, r} & {'INT', 'FF', 'F?'}):
        R.append(Raised('TypeError', fn, at, 'addition of incompatible wire values (%s + %s)' % (l, r)))
        return 'WO', R
    num = {'INT', 'FF', 'F?', 'TR', 'N?'}
    if l in num and r in num:
      if isinstance(n.op, (ast.Div, ast.FloorDiv, ast.Mod)):
        if r in ('INT', 'FF', 'F?'):
          R.append(Raised('ZeroDivisionError', fn, at, 'division by a wire-derived number'))
        if isinstance(n.op, ast.FloorDiv) and 'F?' in (l, r):
          pass
      if isinstance(n.op, ast.Pow) and (is_wire(l) or is_wire(r)):
        R.append(Raised('OverflowError', fn, at, 'power with wire-derived operands'))
      if 'N?' in (l, r):
        return 'N?', R
      if 'F?' in (l, r):
        return 'F?', R
      if 'FF' in (l, r):
        return 'FF', R
      return ('INT' if 'INT' in (l, r) else 'TR'), R
    if isinstance(n.op, ast.Mult) and ({l, r} <= {'WS', 'INT', 'TR'}):
      return 'WS', R
    if is_wire(l) or is_wire(r):
      R.append(Raised('TypeError', fn, at, 'arithmetic on wire values (%s %s %s)' % (l, type(n.op).__name__, r)))
      return 'WO', R
    return 'TR', R

  # ------------------------------------------------------------ calls
  def _call(self, n, env, fn, R):
    def sub(x):
      k, r = self.ev(x, env, fn)
      R.extend(r)
      return k
    args = []
    for a in n.args:
      k = sub(a)
      if isinstance(a, ast.Starred):
        if k == 'WARGS':
          args.append('WO')
          args.append('WO')
        elif isinstance(k, tuple):
          args.extend(k[1:])
        else:
          args.append('WO' if is_wire(k) else 'TR')
      else:
        args.append(k)
    kwk = {}
    for kw in n.keywords:
      kwk[kw.arg] = sub(kw.value)
    tainted = any(is_wire(a) for a in args) or any(is_wire(v) for v in kwk.values())
    f = n.func
    name = dotted(f) or unparse(f)
    if isinstance(f, ast.Attribute) and f.attr in CLOSERS:
      self.closers.append((fn, n))
    # ---- builtins
    if isinstance(f, ast.Name) and f.id not in env:
      b = f.id
      a0 = args[0] if args else 'TR'
      if b == 'float':
        if a0 in ('WS', 'WB'):
          R.append(Raised('ValueError', fn, n, 'float(<wire text>)'))
          return 'F?', R
        if a0 in ('WO', 'WOL') or isinstance(a0, tuple):
          for e in ('ValueError', 'TypeError', 'OverflowError'):
            R.append(Raised(e, fn, n, 'float(<arbitrary unpickled object>)'))
          return 'F?', R
        if a0 == 'N?':
          R.append(Raised('OverflowError', fn, n, 'float(<int too large for a float>)'))
          return 'F?', R
        return (a0 if a0 in ('F?', 'FF') else 'FF'), R
      if b in ('int', 'round'):
        if a0 in ('F?', 'N?'):
          R.append(Raised('ValueError', fn, n, '%s(<float that may be NaN>)' % b))
          R.append(Raised('OverflowError', fn, n, '%s(<float that may be infinite>)' % b))
        elif a0 in ('WS', 'WB'):
          R.append(Raised('ValueError', fn, n, '%s(<wire text>)' % b))
        elif a0 in ('WO', 'WOL') or isinstance(a0, tuple):
          R.append(Raised('TOP', fn, n, '%s(<arbitrary unpickled object>)' % b))
        return 'INT', R
      if b == 'len':
        if a0 == 'WO':
          R.append(Raised('TypeError', fn, n, 'len(<arbitrary unpickled object>)'))
        return 'INT', R
      if b in ('repr', 'str', 'ascii'):
        if a0 in ('WO', 'WOL'):
          R.append(Raised('TOP', fn, n, '%s() of an arbitrary unpickled object may run its __repr__' % b)) if False else None
        return ('WS' if is_wire(a0) else 'TR'), R
      if b in ('isinstance', 'bool', 'id', 'type', 'callable', 'hasattr'):
        return 'TR', R
      if b in ('list', 'tuple', 'sorted', 'set', 'frozenset', 'iter', 'enumerate', 'reversed', 'dict'):
        if a0 == 'WO':
          R.append(Raised('TypeError', fn, n, '%s(<arbitrary unpickled object>)' % b))
          return 'WOL', R
        if b in ('sorted', 'set', 'frozenset', 'dict') and a0 == 'WOL':
          R.append(Raised('TypeError', fn, n, '%s() over arbitrary unpickled objects' % b))
        return (a0 if a0 in ('WOL', 'WSL', 'WBL') else ('WOL' if is_wire(a0) else 'TR')), R
      if b in ('min', 'max', 'sum', 'abs'):
        if any(a in ('WO', 'WOL', 'WS', 'WB') for a in args):
          R.append(Raised('TypeError', fn, n, '%s() on non-numeric wire data' % b))
        if any(a in ('WSL', 'WBL') for a in args):
          R.append(Raised('ValueError', fn, n, '%s() of a possibly empty wire list' % b))
        return ('F?' if tainted else 'TR'), R
      if b in ('getattr',):
        if a0 in ('WO', 'WOL'):
          R.append(Raised('AttributeError', fn, n, 'getattr on an arbitrary unpickled object'))
        return ('WO' if tainted else 'TR'), R
      if b == 'setattr':
        return 'TR', R
      if b in ('print', 'super', 'range', 'zip', 'map', 'filter', 'any', 'all', 'chr', 'ord', 'hash', 'divmod', 'open', 'next'):
        if tainted:
          R.append(Raised('TOP', fn, n, 'builtin %s() on wire data' % b))
        return ('WO' if tainted else 'TR'), R
    # ---- calling a local callable (e.g. `handler` in Event.__call__)
    if isinstance(f, ast.Name) and f.id in env:
      R.append(Raised('TOP', fn, n, 'call of the opaque callable `%s`' % f.id))
      return 'TR', R
    # ---- methods on wire values
    if isinstance(f, ast.Attribute):
      recv = sub(f.value)
      m = f.attr
      if recv in ('WB', 'WBM'):
        if m == 'decode':
          R.append(Raised('UnicodeDecodeError', fn, n, '<wire bytes>.decode()'))
          if recv == 'WBM':
            self.hazards.append((fn, n, 'decoding the whole multi-item payload before splitting it: one bad byte discards every '
                                 'item of the datagram'))
          return 'WS', R
        if m in STR_TOTAL:
          if any(a in ('WS',) for a in args):
            R.append(Raised('TypeError', fn, n, 'bytes.%s(str)' % m))
          return ('WB' if m in ('strip', 'lstrip', 'rstrip', 'lower', 'upper', 'replace') else 'TR'), R
        if m in STR_TO_LIST:
          return 'WBL', R
        R.append(Raised('TOP', fn, n, 'bytes method .%s() on wire data' % m))
        return 'WO', R
      if recv == 'WSB':
        if m in STR_TOTAL and not any(is_wire(a) for a in args):
          return ('WSB' if m in ('strip', 'lstrip', 'rstrip', 'lower', 'upper') else 'TR'), R
        R.append(Raised('TOP', fn, n, 'method .%s() on a value that is either wire text or wire bytes' % m))
        return 'WO', R
      if recv == 'WS':
        if m in STR_TOTAL:
          return ('WS' if m in ('strip', 'lstrip', 'rstrip', 'lower', 'upper', 'replace', 'title', 'casefold') else 'TR'), R
        if m in STR_TO_LIST:
          return 'WSL', R
        if m == 'encode':
          return 'WB', R
        if m in ('index', 'rindex'):
          R.append(Raised('ValueError', fn, n, '<wire text>.%s()' % m))
          return 'INT', R
        if m == 'format' or m == 'join':
          return 'WS', R
        R.append(Raised('TOP', fn, n, 'str method .%s() on wire data' % m))
        return 'WO', R
      if recv in ('WSL', 'WBL', 'WOL'):
        if m in ('append', 'extend', 'copy', 'count', 'reverse'):
          return recv, R
        if m == 'pop':
          R.append(Raised('IndexError', fn, n, 'pop from a wire-determined (possibly empty) list'))
          return {'WSL': 'WS', 'WBL': 'WB', 'WOL': 'WO'}[recv], R
        R.append(Raised('TOP', fn, n, 'list method .%s() on wire data' % m))
        return 'WO', R
      if recv == 'WO':
        R.append(Raised('TOP', fn, n, 'method .%s() of an arbitrary unpickled object' % m))
        return 'WO', R
      if recv in ('F?', 'FF', 'INT'):
        return recv, R
      if recv == 'EXC':
        return 'TR', R
      if isinstance(recv, tuple):
        R.append(Raised('TOP', fn, n, 'method .%s() on a tuple of wire data' % m))
        return 'WO', R
      if isinstance(f.value, ast.Constant) and isinstance(f.value.value, str):
        tpl = f.value.value
        if m == 'format':
          import string
          try:
            fields = [(fname, spec, conv) for _, fname, spec, conv in string.Formatter().parse(tpl) if fname is not None]
          except ValueError:
            fields = None
          if fields is not None and all(not spec and '.' not in fname and '[' not in fname for fname, spec, conv in fields):
            # '{}' / '{0}' / '{name}' without a format spec: str() of the argument, total for every kind
            return ('WS' if tainted else 'TR'), R
          if fields is not None and all('.' not in fname and '[' not in fname for fname, spec, conv in fields):
            # format specs: judged like the %-conversions (a nested '{k}' in the spec must be a constant)
            import re as _re
            okspec = True
            auto = [0]

            def arg_index(fname):
              if fname == '':
                auto[0] += 1
                return auto[0] - 1
              return int(fname) if fname.isdigit() else None
            for fname, spec, conv in fields:
              i_ = arg_index(fname)
              if not spec:
                continue
              def fill(mo):
                k_ = mo.group(1)
                node = n.args[int(k_)] if k_.isdigit() and int(k_) < len(n.args) else None
                if isinstance(node, ast.Constant):
                  return str(node.value)
                if isinstance(node, ast.Attribute) and isinstance(node.value, ast.Name) and fn.cls is not None and \
                   isinstance(fn.cls.attrs.get(node.attr), ast.Constant):
                  return str(fn.cls.attrs[node.attr].value)
                raise KeyError(k_)
              try:
                spec2 = _re.sub(r'\{([^{}]*)\}', fill, spec)
              except KeyError:
                okspec = False
                break
              ty = spec2[-1:] if spec2[-1:].isalpha() or spec2[-1:] == '%' else ''
              k = args[i_] if i_ is not None and i_ < len(args) else kwk.get(fname, 'TR')
              if ty in 'feEgG%' and k in ('F?', 'FF', 'INT', 'N?', 'TR'):
                continue          # float presentation of a number (inf / nan included): total
              if ty in 'dxXobcn' and k in ('INT', 'TR'):
                continue
              if ty in ('s', '') and k in ('WS', 'TR'):
                continue
              okspec = False
              break
            if okspec:
              return ('WS' if tainted else 'TR'), R
          if tainted:
            R.append(Raised('ValueError', fn, n, 'str.format with a format spec / attribute lookup applied to wire data'))
            R.append(Raised('TypeError', fn, n, 'str.format with a format spec / attribute lookup applied to wire data'))
            R.append(Raised('AttributeError', fn, n, 'str.format with a format spec / attribute lookup applied to wire data'))
          return ('WS' if tainted else 'TR'), R
        if m == 'join' and len(args) == 1:
          a0 = args[0]
          if a0 in ('WSL',) or (isinstance(a0, tuple) and all(k in ('WS', 'TR') for k in a0[1:])):
            return 'WS', R
          if is_wire(a0):
            R.append(Raised('TypeError', fn, n, 'str.join over wire items that are not known to be text'))
            return 'WS', R
          return 'TR', R
    # ---- math predicates
    if name in ('math.isnan', 'math.isinf', 'math.isfinite', 'isnan', 'isinf', 'isfinite') and len(args) == 1:
      a0 = args[0]
      if a0 in ('WS', 'WB', 'WSB', 'WO', 'WOL', 'WSL', 'WBL') or isinstance(a0, tuple):
        R.append(Raised('TypeError', fn, n, '%s(<non-numeric wire value>)' % name))
      return 'TR', R
    # ---- serialisers: total on plain data (text, numbers, tuples/lists of those)
    if name.split('.')[-1] == 'dumps' and name.split('.')[0] in ('pickle', 'cPickle', 'json', 'marshal'):
      def plain(k):
        if isinstance(k, tuple):
          return all(plain(x) for x in k[1:])
        return k in ('WS', 'WB', 'WSB', 'FF', 'F?', 'N?', 'INT', 'TR', 'WSL', 'WBL')
      if not all(plain(a) for a in args):
        R.append(Raised('TOP', fn, n, '%s of an arbitrary object' % name))
      return 'WB', R
    # ---- deserialisers and other opaque externals fed with wire data
    last = name.split('.')[-1]
    if last in ('loads', 'load', 'FromString', 'ParseFromString') and tainted:
      R.append(Raised('TOP', fn, n, 'deserialiser %s on wire bytes' % name))
      return 'WO', R
    # ---- repository functions (resolved through the type-based call graph)
    cs, how = self.cx.callees(n, fn)
    if how == 'resolved' and cs:
      rks = []
      for callee, via in cs:
        if callee.module.name in TRUSTED_MODULES:
          rks.append('TR')
          continue
        kinds = list(args)
        if via in ('method', 'ctor', 'event') and callee.cls is not None and not callee.is_staticmethod:
          if not (isinstance(f, ast.Attribute) and isinstance(f.value, ast.Name) and via == 'method' and
                  self._is_class_ref(f.value, fn)):
            kinds = ['TR'] + kinds
        if callee.name == 'metricReceived':
          self.dispatches.append((fn, n, list(kinds)))
        R.extend(self._via(self.analyse(callee, kinds), fn, n))
        rks.append('TR' if via == 'ctor' else self.return_kind(callee, kinds))
      if tainted and any(k is None for k in rks):
        return 'WO', R           # result of a generator / recursive / depth-limited callee fed with wire data
      out_kind = None
      for k in rks:
        if k is not None:
          out_kind = join(out_kind, k)
      return ('TR' if out_kind is None else out_kind), R
    if name.startswith(TRUSTED_CALL_PREFIXES):
      return 'TR', R
    if isinstance(f, ast.Attribute) and isinstance(f.value, ast.Name) and f.value.id == 'self' and f.attr in TRUSTED_SELF_METHODS:
      return 'TR', R
    if isinstance(f, ast.Attribute) and f.attr in ('search', 'match', 'fullmatch', 'sub', 'findall'):
      # compiled trusted regex applied to wire text
      if any(a in ('WO', 'WOL', 'WB') or isinstance(a, tuple) for a in args):
        R.append(Raised('TypeError', fn, n, 'regex.%s(<non-string wire object>)' % f.attr))
      return ('WS' if f.attr == 'sub' and tainted else 'TR'), R
    if not tainted:
      return 'TR', R
    R.append(Raised('TOP', fn, n, 'unmodelled call %s with wire-derived arguments' % name))
    return 'WO', R

  def _is_class_ref(self, name_node, fn):
    return any(t[0] == 'cls' for t in self.T.expr_types(name_node, fn.module, fn))


def _load(target):
  import copy
  t = copy.deepcopy(target)
  for x in ast.walk(t):
    if hasattr(x, 'ctx'):
      x.ctx = ast.Load()
  return t
