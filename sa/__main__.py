"""Command line:  python3 -m sa check <ID> [--tier quick|thorough] [--root DIR]
                    python3 -m sa replay <report.json>
                    python3 -m sa all [--tier ...]
                    python3 -m sa --version
"""
import importlib
import json
import os
import sys

from . import __version__
from .model import Repo
from .types import Types
from .report import run_check

PROPS = ['C%02d' % i for i in range(1, 21)]


def _factory(root=None, overlay=None):
  def make():
    from .inline import load_program
    return load_program(root=root, overlay=overlay)
  return make


def load_prop(pid):
  try:
    return importlib.import_module('sa.props.%s' % pid.lower())
  except ImportError:
    return None


def check(pid, tier, root=None, quiet=False, write_evidence=True):
  mod = load_prop(pid)
  if mod is None:
    print('ANALYSIS-ERROR property=%s no checker is implemented for this property' % pid)
    return 2
  selftest = None
  if tier == 'thorough':
    from . import selftest as st
    selftest = lambda chk: st.run(pid, mod, root)   # noqa: E731
  code, _ev, _lines = run_check(pid, tier, mod, _factory(root), quiet=quiet,
                                write_evidence=write_evidence, selftest=selftest)
  return code


def main(argv):
  if not argv or argv[0] in ('-h', '--help'):
    print(__doc__)
    return 0
  if argv[0] == '--version':
    print('sa %s' % __version__)
    return 0
  cmd = argv[0]
  args = argv[1:]
  tier = os.environ.get('VERIF_TIER') or 'quick'
  root = None
  rest = []
  i = 0
  while i < len(args):
    if args[i] == '--tier':
      tier = args[i + 1]
      i += 2
    elif args[i] == '--root':
      root = args[i + 1]
      i += 2
    else:
      rest.append(args[i])
      i += 1
  if tier not in ('quick', 'thorough'):
    tier = 'quick'
  if cmd == 'check':
    if not rest:
      print('usage: python3 -m sa check <ID>')
      return 2
    return check(rest[0].upper(), tier, root, write_evidence=(root is None))
  if cmd == 'all':
    worst = 0
    for pid in PROPS:
      if load_prop(pid) is None:
        continue
      c = check(pid, tier, root, write_evidence=(root is None))
      worst = max(worst, c) if c != 1 else 1 if worst != 1 else 1
      if c == 1:
        worst = 1
    return worst
  if cmd == 'replay':
    with open(rest[0]) as f:
      rep = json.load(f)
    print('replaying %s: %s' % (rep['property'], rep['key']))
    print('  reported at %s: %s' % (rep['location'], rep['message']))
    return check(rep['property'], tier, root, write_evidence=False)
  print(__doc__)
  return 2


if __name__ == '__main__':
  try:
    import signal
    signal.signal(signal.SIGPIPE, signal.SIG_DFL)     # `... | head` is not an error
  except Exception:
    pass
  try:
    sys.exit(main(sys.argv[1:]))
  except SystemExit:
    raise
  except Exception as e:  # never a traceback with exit 1
    print('ANALYSIS-ERROR internal: %s: %s' % (type(e).__name__, e))
    sys.exit(2)
