"""Symbolic *shape* evaluator (DESIGN 2.4): evaluates code into structural terms,
merging branches by union.  No path conditions, nothing is solved; terms are
compared structurally.

Terms (tuples):
  ('param', name)            ('const', value)           ('field', base, i)   i-th result of unpacking base
  ('sub', t, key)            ('tuple', t...)            ('list', t...)
  ('call', fname, t...)      ('meth', name, recv, t...)
  ('fmt', template, t...)    ('either', t...)           ('elem', t)          an element of iterable t
  ('attr', t, name)          ('binop', op, l, r)        ('opaque', src)
"""
import ast
import re

from .model import dotted, unparse, walk_no_nested

PURE_FUNCS = {'float', 'int', 'str', 'len', 'sorted', 'list', 'dict', 'tuple', 'min', 'max', 'abs', 'round', 'repr',
              'bytes', 'bool', 'set', 'reversed', 'enumerate', 'zip', 'range', 'isinstance', 'sha256', 'md5'}


class _Overlay(dict):
  """local bindings (comprehension targets) on top of an environment that computes its entries on demand."""

  def __init__(self, parent):
    dict.__init__(self)
    self.parent = parent

  def get(self, k, default=None):
    if dict.__contains__(self, k):
      return dict.__getitem__(self, k)
    return self.parent.get(k, default)

  def __contains__(self, k):
    return dict.__contains__(self, k) or k in self.parent

  def __getitem__(self, k):
    if dict.__contains__(self, k):
      return dict.__getitem__(self, k)
    return self.parent[k]


def overlay(env):
  return dict(env) if type(env) is dict else _Overlay(env)


def canon(t):
  """one spelling per value: x[k] with a constant non-negative index and the k-th unpacked field of x are the same term."""
  if not isinstance(t, tuple) or not t:
    return t
  if t[0] == 'sub' and len(t) == 3 and isinstance(t[2], int) and not isinstance(t[2], bool) and t[2] >= 0:
    return ('field', canon(t[1]), t[2])
  return tuple(canon(x) if isinstance(x, tuple) else x for x in t)


def either(*ts):
  flat = []
  for t in ts:
    if t is None:
      continue
    if t[0] == 'either':
      for x in t[1:]:
        if x not in flat:
          flat.append(x)
    elif t not in flat:
      flat.append(t)
  if not flat:
    return None
  if len(flat) == 1:
    return flat[0]
  return ('either',) + tuple(flat)


def elem_of(it):
  """the term of an element of iterable ``it``: the element expression of an unfiltered comprehension, else ('elem', it)"""
  if it is None:
    return ('elem', it)
  outs = []
  alts = alternatives(it)
  nonempty = [a for a in alts if a not in (('tuple',), ('list',))]     # an empty literal has no elements to speak of
  if not nonempty:
    nonempty = alts
  for a in nonempty:
    if isinstance(a, tuple) and a[0] == 'comp' and len(a) == 3 and a[2] == ():
      outs.append(a[1])
    elif isinstance(a, tuple) and a[0] == 'call' and a[1] in ('list', 'tuple', 'iter', 'reversed') and len(a) == 3:
      outs.append(elem_of(a[2]))
    elif isinstance(a, tuple) and a[0] in ('list', 'tuple') and len(a) > 1 and any(isinstance(x, tuple) and x and x[0] == 'rest' for x in a[1:]):
      # a list grown by append in a loop: its elements are the appended values
      outs.extend(x[1] if (isinstance(x, tuple) and x and x[0] == 'rest') else x for x in a[1:])
    else:
      outs.append(('elem', a))
  return either(*outs)


def unpackable(t):
  """alternatives of a term that can be unpacked / indexed: a literal None among several alternatives contributes no
  value (the operation raises on it), so it is left out."""
  alts = alternatives(t)
  some = [a for a in alts if a != ('const', None)]
  return some if some else alts


def _refine_none(test, e_true, e_false):
  """`x is None` / `x is not None` / `x` / `not x`: the branch where x is not None loses x's literal-None alternative,
  the other branch keeps only it."""
  neg = False
  t = test
  while isinstance(t, ast.UnaryOp) and isinstance(t.op, ast.Not):
    neg, t = not neg, t.operand
  name = None
  none_when_true = None
  if isinstance(t, ast.Compare) and len(t.ops) == 1 and isinstance(t.left, ast.Name) and isinstance(t.comparators[0], ast.Constant) and \
     t.comparators[0].value is None and isinstance(t.ops[0], (ast.Is, ast.IsNot, ast.Eq, ast.NotEq)):
    name = t.left.id
    none_when_true = isinstance(t.ops[0], (ast.Is, ast.Eq))
  elif isinstance(t, ast.Name):
    name = t.id
    none_when_true = False
  if name is None or name not in e_true:
    return
  if neg:
    none_when_true = not none_when_true
  cur = e_true[name]
  alts = alternatives(cur)
  if ('const', None) not in alts or len(alts) < 2:
    return
  some = either(*[a for a in alts if a != ('const', None)])
  (e_true if none_when_true else e_false)[name] = ('const', None)
  (e_false if none_when_true else e_true)[name] = some


def _terminates(stmts):
  if not stmts:
    return False
  last = stmts[-1]
  if isinstance(last, (ast.Return, ast.Continue, ast.Break, ast.Raise)):
    return True
  if isinstance(last, ast.If):
    return bool(last.orelse) and _terminates(last.body) and _terminates(last.orelse)
  return False


def alternatives(t):
  if t is None:
    return []
  if t[0] == 'either':
    out = []
    for x in t[1:]:
      out.extend(alternatives(x))
    return out
  return [t]


def walk_term(t):
  yield t
  if isinstance(t, tuple):
    for x in t[1:]:
      if isinstance(x, tuple):
        for y in walk_term(x):
          yield y


class SymEval(object):
  def __init__(self, cx, inline_depth=3):
    self.cx = cx
    self.inline_depth = inline_depth

  # ------------------------------------------------------------ expressions
  def ev(self, n, env, fn=None):
    if n is None:
      return ('const', None)
    if isinstance(n, ast.Constant):
      return ('const', n.value)
    if isinstance(n, ast.Name):
      return env.get(n.id, ('param', n.id))
    if isinstance(n, ast.Tuple):
      return ('tuple',) + tuple(self.ev(e, env, fn) for e in n.elts)
    if isinstance(n, ast.List):
      return ('list',) + tuple(self.ev(e, env, fn) for e in n.elts)
    if isinstance(n, ast.Dict) and all(isinstance(k, ast.Constant) for k in n.keys):
      return ('dict',) + tuple(('item', ('const', k.value), self.ev(v, env, fn)) for k, v in zip(n.keys, n.values))
    if isinstance(n, ast.Attribute):
      if isinstance(n.value, ast.Name) and n.value.id in ('self', 'cls') and n.value.id not in env and fn is not None and \
         getattr(fn, 'cls', None) is not None and isinstance(n.ctx, ast.Load) and n.attr.isupper():
        cv = class_constant(n, fn)          # self.PROTOCOL / cls.PROTOCOL: a class-level literal no method rebinds
        if cv is not None and isinstance(cv, (int, str)) and not isinstance(cv, bool):
          return ('const', cv)
      return ('attr', self.ev(n.value, env, fn), n.attr)
    if isinstance(n, ast.Subscript):
      b = self.ev(n.value, env, fn)
      if isinstance(n.slice, ast.Constant):
        k = n.slice.value
        if isinstance(k, int):
          outs = []
          for alt in unpackable(b):
            if alt[0] in ('tuple', 'list') and -(len(alt) - 1) <= k < len(alt) - 1:
              outs.append(alt[1:][k])
            else:
              outs.append(('sub', alt, k))
          return either(*outs)
        return ('sub', b, k)
      if isinstance(n.slice, ast.Slice):
        lo = unparse(n.slice.lower) if n.slice.lower is not None else ''
        hi = unparse(n.slice.upper) if n.slice.upper is not None else ''
        st = unparse(n.slice.step) if n.slice.step is not None else ''
        return ('sub', b, '[%s:%s%s]' % (lo, hi, (':' + st) if st else ''))
      return ('sub', b, self.ev(n.slice, env, fn))
    if isinstance(n, ast.Call):
      f = n.func
      args = tuple(self.ev(a, env, fn) for a in n.args)
      kws = tuple(('kw', kw.arg, self.ev(kw.value, env, fn)) for kw in n.keywords)
      if isinstance(f, ast.Name):
        return ('call', f.id) + args + kws
      if isinstance(f, ast.Attribute):
        summ = self._summary(n, args, fn)
        if summ is not None:
          return summ
        recv = self.ev(f.value, env, fn)
        m = f.attr
        if m == 'format' and recv[0] == 'const' and isinstance(recv[1], str):
          conv = _format_to_percent(recv[1], args, kws, fn)
          if conv is not None:
            return ('fmt', conv[0]) + conv[1]
          tpl = re.sub(r'\{[^}:]*(?::([^}]*))?\}', lambda mo: '%' + (mo.group(1) or 's'), recv[1])
          return ('fmt', tpl) + args
        d = dotted(f)
        if d and recv[0] in ('param', 'attr') and not _rooted_in_env(f.value, env) and not _rooted_in_params(f.value, fn):
          return ('call', d) + args + kws
        return ('meth', m, recv) + args + kws
      return ('opaque', unparse(n))
    if isinstance(n, ast.BinOp):
      if isinstance(n.op, ast.Mod):
        l = self.ev(n.left, env, fn)
        cv = class_constant(n.left, fn)
        if isinstance(cv, str):
          l = ('const', cv)          # a template kept as a class-level constant
        if l[0] == 'const' and isinstance(l[1], str):
          r = self.ev(n.right, env, fn)
          args = r[1:] if r[0] == 'tuple' else (r,)
          return ('fmt', l[1]) + tuple(args)
      l_, r_ = self.ev(n.left, env, fn), self.ev(n.right, env, fn)
      if isinstance(n.op, ast.Add):
        if r_ == ('const', ''):
          return l_              # text + '' (an empty configured suffix)
        if l_ == ('const', ''):
          return r_
      return ('binop', type(n.op).__name__, l_, r_)
    if isinstance(n, ast.JoinedStr):
      tpl, args = '', []
      for v in n.values:
        if isinstance(v, ast.Constant):
          tpl += str(v.value).replace('%', '%%')
        else:
          spec = ''
          if v.format_spec is not None:
            spec = ''.join(x.value for x in v.format_spec.values if isinstance(x, ast.Constant))
          tpl += '%' + (spec or ('r' if v.conversion == 114 else 's'))
          args.append(self.ev(v.value, env, fn))
      return ('fmt', tpl) + tuple(args)
    if isinstance(n, ast.IfExp):
      return either(self.ev(n.body, env, fn), self.ev(n.orelse, env, fn))
    if isinstance(n, ast.BoolOp):
      return either(*[self.ev(v, env, fn) for v in n.values])
    if isinstance(n, ast.UnaryOp):
      return ('call', type(n.op).__name__, self.ev(n.operand, env, fn))
    if isinstance(n, ast.Compare):
      if len(n.ops) == 1:
        op = type(n.ops[0]).__name__
        l, r = self.ev(n.left, env, fn), self.ev(n.comparators[0], env, fn)
        if op in ('In', 'NotIn'):
          return ('in' if op == 'In' else 'notin', l, r)
        return ('cmp', op, l, r)
      return ('opaque', unparse(n))
    if isinstance(n, (ast.ListComp, ast.GeneratorExp, ast.SetComp)):
      e2 = overlay(env)
      conds = []
      for g in n.generators:
        it = self.ev(g.iter, e2, fn)
        self.bind(g.target, elem_of(it), e2)
        for i in g.ifs:
          conds.append(unparse(i))
      return ('comp', self.ev(n.elt, e2, fn), tuple(conds))
    if isinstance(n, ast.DictComp):
      e2 = overlay(env)
      conds = []
      for g in n.generators:
        it = self.ev(g.iter, e2, fn)
        self.bind(g.target, elem_of(it), e2)
        for i in g.ifs:
          conds.append(unparse(i))
      return ('dictcomp', self.ev(n.key, e2, fn), self.ev(n.value, e2, fn), tuple(conds))
    if isinstance(n, ast.Starred):
      return ('star', self.ev(n.value, env, fn))
    return ('opaque', unparse(n))

  def _summary(self, call, args, fn, _depth=[0]):
    """return term of self.<method>(...) / cls.<method>(...) calls that resolve inside the class hierarchy."""
    f = call.func
    if fn is None or fn.cls is None or not (isinstance(f.value, ast.Name) and f.value.id in ('self', 'cls')):
      return None
    if _depth[0] >= self.inline_depth:
      return None
    cs, how = self.cx.callees(call, fn)
    if how != 'resolved' or not cs:
      return None
    outs = []
    _depth[0] += 1
    try:
      for callee, _ in cs[:3]:
        if callee.cls is None or callee is fn:
          return None
        env2 = {}
        params = callee.params[1:] if not callee.is_staticmethod else callee.params
        for p, a in zip(params, args):
          env2[p] = a
        for kw in call.keywords:
          if kw.arg in params:
            env2[kw.arg] = self.ev(kw.value, {}, fn)
        # defaults
        a = callee.node.args
        defaults = dict(zip([x.arg for x in a.args][-len(a.defaults):], a.defaults)) if a.defaults else {}
        for p in params:
          if p not in env2 and p in defaults:
            env2[p] = self.ev(defaults[p], {}, callee)
        rec = []
        self.run(callee.body, env2, callee, lambda c: None, rec)
        rets = [r[2][0] for r in rec if r[0] == '<return>']
        if not rets:
          return None
        outs.extend(rets)
    finally:
      _depth[0] -= 1
    return either(*outs)

  def bind(self, t, v, env):
    if isinstance(t, ast.Name):
      env[t.id] = v
    elif isinstance(t, (ast.Tuple, ast.List)):
      n = len(t.elts)
      for i, e in enumerate(t.elts):
        outs = []
        for alt in unpackable(v):
          if alt[0] in ('tuple', 'list') and len(alt) - 1 == n:
            outs.append(alt[1 + i])
          else:
            outs.append(('field', alt, i))
        self.bind(e, either(*outs), env)
    # attribute / subscript targets are recorded by the caller if it cares

  # ------------------------------------------------------------ statements
  def run(self, stmts, env, fn, sink, out, depth=0, loops=()):
    """sink: predicate(call ast) -> name or None; out: list collecting (name, call, arg terms, kw terms, loops, fn)."""
    for s in stmts:
      self.stmt(s, env, fn, sink, out, depth, loops)

  def stmt(self, s, env, fn, sink, out, depth, loops):
    if isinstance(s, ast.Assign):
      self._calls(s.value, env, fn, sink, out, depth, loops)
      v = self.ev(s.value, env, fn)
      for t in s.targets:
        self.bind(t, v, env)
      return
    if isinstance(s, ast.AugAssign):
      self._calls(s.value, env, fn, sink, out, depth, loops)
      if isinstance(s.target, ast.Name):
        env[s.target.id] = ('binop', type(s.op).__name__, env.get(s.target.id, ('param', s.target.id)), self.ev(s.value, env, fn))
      return
    if isinstance(s, ast.Expr):
      self._calls(s.value, env, fn, sink, out, depth, loops)
      # L.append(v) on a list literal built in straight-line code: the list term grows (inside a loop the element count is
      # not known: the list becomes the comprehension-like ('listof', element alternatives))
      c = s.value
      if isinstance(c, ast.Call) and isinstance(c.func, ast.Attribute) and c.func.attr == 'append' and isinstance(c.func.value, ast.Name) and \
         len(c.args) == 1 and not c.keywords:
        cur = env.get(c.func.value.id)
        if isinstance(cur, tuple) and cur and cur[0] == 'list':
          v = self.ev(c.args[0], env, fn)
          if not loops:
            env[c.func.value.id] = cur + (v,)
          elif len(cur) > 1 and isinstance(cur[-1], tuple) and cur[-1][0] == 'rest':
            env[c.func.value.id] = cur[:-1] + (('rest', either(cur[-1][1], v)),)
          else:
            env[c.func.value.id] = cur + (('rest', v),)       # zero or more elements, each one of these alternatives
      return
    if isinstance(s, ast.Return):
      if s.value is not None:
        self._calls(s.value, env, fn, sink, out, depth, loops)
        out.append(('<return>', s, [self.ev(s.value, env, fn)], {}, loops, fn))
      return
    if isinstance(s, ast.If):
      self._calls(s.test, env, fn, sink, out, depth, loops)
      e1, e2 = dict(env), dict(env)
      _refine_none(s.test, e1, e2)
      self.run(s.body, e1, fn, sink, out, depth, loops)
      self.run(s.orelse, e2, fn, sink, out, depth, loops)
      t1, t2 = _terminates(s.body), _terminates(s.orelse)
      for k in set(e1) | set(e2):
        if t1 and not t2:
          env[k] = e2.get(k, ('param', k))
        elif t2 and not t1:
          env[k] = e1.get(k, ('param', k))
        else:
          env[k] = either(e1.get(k, ('param', k)), e2.get(k, ('param', k)))
      return
    if isinstance(s, (ast.For, ast.AsyncFor)):
      self._calls(s.iter, env, fn, sink, out, depth, loops)
      it = self.ev(s.iter, env, fn)
      self.bind(s.target, elem_of(it), env)
      self.run(s.body, env, fn, sink, out, depth, loops + ((s, it, fn),))
      self.run(s.orelse, env, fn, sink, out, depth, loops)
      return
    if isinstance(s, ast.While):
      self.run(s.body, env, fn, sink, out, depth, loops + ((s, ('opaque', unparse(s.test)), fn),))
      return
    if isinstance(s, ast.Try) or type(s).__name__ == 'TryStar':
      before = dict(env)
      self.run(s.body, env, fn, sink, out, depth, loops)
      self.run(s.orelse, env, fn, sink, out, depth, loops)
      for h in s.handlers:
        he = dict(before)
        for k in env:
          he[k] = either(before.get(k, ('param', k)), env[k])
        self.run(h.body, he, fn, sink, out, depth, loops)
      self.run(s.finalbody, env, fn, sink, out, depth, loops)
      return
    if isinstance(s, (ast.With, ast.AsyncWith)):
      self.run(s.body, env, fn, sink, out, depth, loops)
      return
    # other statements: look for sink calls only
    for c in [x for x in walk_no_nested(s) if isinstance(x, ast.Call)]:
      self._sink(c, env, fn, sink, out, depth, loops)

  def _calls(self, expr, env, fn, sink, out, depth, loops):
    """sink calls of an expression; inside a comprehension its variables stand for an element of what they iterate"""
    comps = [x for x in walk_no_nested(expr) if isinstance(x, (ast.ListComp, ast.SetComp, ast.GeneratorExp, ast.DictComp))]
    inside = {}
    for cp in comps:
      e2 = None
      for x in ast.walk(cp):
        if isinstance(x, ast.Call) and id(x) not in inside:
          if e2 is None:
            try:
              e2 = dict(env)
            except Exception:
              e2 = overlay(env)
            for g in cp.generators:
              self.bind(g.target, elem_of(self.ev(g.iter, e2, fn)), e2)
          inside[id(x)] = e2
    for c in [x for x in walk_no_nested(expr) if isinstance(x, ast.Call)]:
      self._sink(c, inside.get(id(c), env), fn, sink, out, depth, loops)

  def _sink(self, c, env, fn, sink, out, depth, loops):
    name = sink(c)
    if name:
      out.append((name, c, [self.ev(a, env, fn) for a in c.args],
                  {kw.arg: self.ev(kw.value, env, fn) for kw in c.keywords}, loops, fn))
      return
    # inline self.<method>(...) of the same class hierarchy
    if depth < self.inline_depth and fn is not None and isinstance(c.func, ast.Attribute) and \
       isinstance(c.func.value, ast.Name) and c.func.value.id == 'self' and fn.cls is not None:
      cs, how = self.cx.callees(c, fn)
      if how == 'resolved':
        for callee, _ in cs[:2]:
          if callee.cls is None or callee is fn:
            continue
          env2 = {}
          params = callee.params[1:]
          for p, a in zip(params, c.args):
            env2[p] = self.ev(a, env, fn)
          self.run(callee.body, env2, callee, sink, out, depth + 1, loops)
        return
    # callbacks scheduled for later are recorded by the rules that care (see deferred())


def class_constant(node, fn):
  """value of `self.NAME` / `cls.NAME` / `Class.NAME` when NAME is bound once, at class level, to a literal and no method
  of the class assigns an attribute of that name; None otherwise."""
  if not (isinstance(node, ast.Attribute) and isinstance(node.value, ast.Name)) or fn is None or fn.cls is None:
    return None
  if node.value.id not in ((fn.params[:1] if fn.params else []) + [fn.cls.name, 'self', 'cls']):
    return None
  v = fn.cls.attrs.get(node.attr)
  if not isinstance(v, ast.Constant):
    return None
  for m in fn.cls.methods.values():
    for x in ast.walk(m.node):
      if isinstance(x, ast.Attribute) and x.attr == node.attr and isinstance(x.ctx, (ast.Store, ast.Del)):
        return None
  return v.value


def _const_of(t, fn):
  """value of a term that is a constant, or a class-level constant read through self / cls."""
  if isinstance(t, tuple) and t[0] == 'const':
    return t[1]
  if isinstance(t, tuple) and t[0] == 'attr' and isinstance(t[1], tuple) and t[1][0] == 'param' and fn is not None and \
     fn.cls is not None and t[1][1] in ('self', 'cls', fn.cls.name):
    v = fn.cls.attrs.get(t[2])
    if isinstance(v, ast.Constant):
      return v.value
  return None


def _format_to_percent(tpl, args, kws, fn):
  """('%-template', argument terms) equivalent to  tpl.format(*args, **kws): fields in template order, a nested
  replacement field in a format spec ("{0:.{1}f}") filled in when its argument is a constant; None if not expressible."""
  import string
  try:
    parts = list(string.Formatter().parse(tpl))
  except ValueError:
    return None
  out, used = '', []
  auto = 0
  kwmap = {k[1]: k[2] for k in kws}

  def arg_of(field):
    nonlocal auto
    if field == '':
      i = auto
      auto += 1
      return args[i] if i < len(args) else None
    if field.isdigit():
      return args[int(field)] if int(field) < len(args) else None
    return kwmap.get(field)
  for lit, field, spec, conv in parts:
    out += lit.replace('%', '%%')
    if field is None:
      continue
    if '.' in field or '[' in field:
      return None
    a = arg_of(field)
    if a is None:
      return None
    spec = spec or ''
    if '{' in spec:
      def fill(mo):
        v = _const_of(arg_of(mo.group(1)), fn)
        if v is None:
          raise KeyError(mo.group(1))
        return str(v)
      try:
        spec = re.sub(r'\{([^{}]*)\}', fill, spec)
      except KeyError:
        return None
    if conv == 'r' and not spec:
      out += '%r'
    elif not spec:
      out += '%s'
    else:
      out += '%' + spec
    used.append(a)
  return out, tuple(used)


def _rooted_in_env(node, env):
  while isinstance(node, ast.Attribute):
    node = node.value
  return isinstance(node, ast.Name) and node.id in env


def _rooted_in_params(node, fn):
  while isinstance(node, ast.Attribute):
    node = node.value
  if not isinstance(node, ast.Name) or fn is None:
    return False
  f = fn
  while f is not None:
    ps = f.params
    if node.id in ps and not (node.id in ('self', 'cls') and ps and ps[0] == node.id):
      return True
    f = f.parent_fn
  return False


def fmt_specs(template):
  """conversion specs of a %-template: list of (flags+width+precision, type)."""
  return [(m.group(1), m.group(2)) for m in re.finditer(r'%(?:\([^)]*\))?([-+ #0]*\d*(?:\.\d+)?)([a-zA-Z])', template.replace('%%', ''))]


def show(t, depth=0):
  if not isinstance(t, tuple):
    return repr(t)
  k = t[0]
  if k == 'param':
    return t[1]
  if k == 'const':
    return repr(t[1])
  if k == 'field':
    return '%s#%d' % (show(t[1]), t[2])
  if k == 'sub':
    return '%s[%s]' % (show(t[1]), t[2] if not isinstance(t[2], tuple) else show(t[2]))
  if k in ('tuple', 'list'):
    return ('(%s)' if k == 'tuple' else '[%s]') % ', '.join(show(x) for x in t[1:])
  if k == 'call':
    return '%s(%s)' % (t[1], ', '.join(show(x) for x in t[2:]))
  if k == 'meth':
    return '%s.%s(%s)' % (show(t[2]), t[1], ', '.join(show(x) for x in t[3:]))
  if k == 'fmt':
    return 'fmt(%r; %s)' % (t[1], ', '.join(show(x) for x in t[2:]))
  if k == 'either':
    return ' | '.join(show(x) for x in t[1:])
  if k == 'elem':
    return 'elem(%s)' % show(t[1])
  if k == 'attr':
    return '%s.%s' % (show(t[1]), t[2])
  if k == 'kw':
    return '%s=%s' % (t[1], show(t[2]))
  if k == 'binop':
    return '(%s %s %s)' % (show(t[2]), t[1], show(t[3]))
  return str(t)
