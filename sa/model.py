"""Program model: units, modules, classes, functions, imports, hierarchy.

Everything is derived from the *current* source under the repository root
(``SA_REPO_ROOT`` or /repo), optionally with in-memory overlays used by the
self-test.  Nothing is imported or executed.
"""
import ast
import glob
import hashlib
import os

DEFAULT_ROOT = '/repo'


class AnalysisError(Exception):
  """The analysis cannot give a verdict (exit 2, never a VIOLATION)."""


class AnchorMissing(AnalysisError):
  """A function/class/module a rule is anchored in has vanished."""


def repo_root():
  return os.environ.get('SA_REPO_ROOT', DEFAULT_ROOT)


# ---------------------------------------------------------------- small helpers

def unparse(node):
  try:
    return ast.unparse(node)
  except Exception:  # pragma: no cover
    return '<%s>' % type(node).__name__


def norm(node):
  """Normalised one-line text of a statement header / expression (finding keys)."""
  if isinstance(node, (ast.If, ast.While)):
    txt = '%s %s' % (type(node).__name__.lower(), unparse(node.test))
  elif isinstance(node, ast.For):
    txt = 'for %s in %s' % (unparse(node.target), unparse(node.iter))
  elif isinstance(node, ast.With):
    txt = 'with ' + ', '.join(unparse(i.context_expr) for i in node.items)
  elif isinstance(node, ast.Try):
    txt = 'try'
  elif isinstance(node, ast.ExceptHandler):
    txt = 'except ' + (unparse(node.type) if node.type else '')
  elif isinstance(node, (ast.FunctionDef, ast.AsyncFunctionDef)):
    txt = 'def ' + node.name
  elif isinstance(node, ast.ClassDef):
    txt = 'class ' + node.name
  else:
    txt = unparse(node)
  return ' '.join(txt.split())


def set_parents(tree):
  for parent in ast.walk(tree):
    for child in ast.iter_child_nodes(parent):
      child._parent = parent
  tree._parent = None


def ancestors(node):
  node = getattr(node, '_parent', None)
  while node is not None:
    yield node
    node = getattr(node, '_parent', None)


def loop_of(node):
  """the loop statement a break / continue at ``node`` belongs to."""
  for a in ancestors(node):
    if isinstance(a, (ast.For, ast.While, ast.AsyncFor)):
      return a
    if isinstance(a, (ast.FunctionDef, ast.AsyncFunctionDef, ast.Lambda, ast.ClassDef)):
      return None
  return None


def loop_exits(loop, kinds=(ast.Break, ast.Return)):
  """statements inside ``loop`` that leave it (break / return) or cut an iteration short (continue, when asked for):
  a break / continue counts only when it belongs to ``loop`` itself, not to a loop nested in it."""
  out = []
  for x in walk_no_nested(loop, include_self=False):
    if isinstance(x, kinds):
      if isinstance(x, (ast.Break, ast.Continue)) and loop_of(x) is not loop:
        # a break out of an inner loop does not leave `loop`
        continue
      out.append(x)
  return out


def enclosing(node, types):
  for a in ancestors(node):
    if isinstance(a, types):
      return a
  return None


def dotted(node):
  """'a.b.c' for Name/Attribute chains, else None."""
  parts = []
  while isinstance(node, ast.Attribute):
    parts.append(node.attr)
    node = node.value
  if isinstance(node, ast.Name):
    parts.append(node.id)
    return '.'.join(reversed(parts))
  return None


def walk_no_nested(node, include_self=True):
  """ast.walk that does not descend into nested function/class/lambda bodies."""
  if include_self:
    yield node
  todo = list(reversed(list(ast.iter_child_nodes(node))))
  while todo:
    n = todo.pop()
    yield n
    if isinstance(n, (ast.FunctionDef, ast.AsyncFunctionDef, ast.Lambda, ast.ClassDef)):
      continue
    todo.extend(reversed(list(ast.iter_child_nodes(n))))


def calls_in(node, nested=False):
  it = ast.walk(node) if nested else walk_no_nested(node)
  return [n for n in it if isinstance(n, ast.Call)]


# ---------------------------------------------------------------- py2/py3 folding

def _is_py3_test(test):
  """True / False if ``test`` is a python-version test with a known outcome on py3."""
  src = unparse(test).replace(' ', '')
  if src in ('sys.version_info>=(3,0)', 'sys.version_info>=(3,)', 'sys.version_info[0]>=3',
             'sys.version_info[0]==3', 'sys.version_info>(3,)', 'sys.version_info>(3,0)',
             'six.PY3', 'PY3'):
    return True
  if src in ('sys.version_info<(3,0)', 'sys.version_info<(3,)', 'sys.version_info[0]<3',
             'sys.version_info[0]==2', 'six.PY2', 'PY2'):
    return False
  return None


class _FoldPy3(ast.NodeTransformer):
  """Replace ``if sys.version_info >= (3, 0): A else: B`` by A (the py3 arm)."""

  def visit_If(self, node):
    self.generic_visit(node)
    v = _is_py3_test(node.test)
    if v is True:
      return node.body or [ast.copy_location(ast.Pass(), node)]
    if v is False:
      return node.orelse or [ast.copy_location(ast.Pass(), node)]
    return node


# ---------------------------------------------------------------- infos

class FunctionInfo(object):
  def __init__(self, module, qualname, node, cls=None, parent_fn=None, variant=0, guard=None):
    self.module = module
    self.qualname = qualname
    self.node = node
    self.cls = cls
    self.parent_fn = parent_fn
    self.variant = variant
    self.guard = guard          # text of the module-level condition this def sits under
    self.name = qualname.split('.')[-1]

  @property
  def key(self):
    return '%s:%s' % (self.module.name, self.qualname)

  @property
  def params(self):
    if isinstance(self.node, ast.Lambda):
      a = self.node.args
    else:
      a = self.node.args
    return [x.arg for x in a.posonlyargs + a.args]

  @property
  def decorators(self):
    if isinstance(self.node, ast.Lambda):
      return []
    return [unparse(d) for d in self.node.decorator_list]

  @property
  def is_property(self):
    return 'property' in self.decorators

  @property
  def is_classmethod(self):
    return 'classmethod' in self.decorators

  @property
  def is_staticmethod(self):
    return 'staticmethod' in self.decorators

  @property
  def body(self):
    if isinstance(self.node, ast.Lambda):
      return [ast.copy_location(ast.Return(value=self.node.body), self.node)]
    return self.node.body

  def loc(self, node=None):
    n = node if node is not None else self.node
    return '%s:%d' % (self.module.relpath, getattr(n, 'lineno', 0))

  def __repr__(self):
    return '<fn %s>' % self.key


class ClassInfo(object):
  def __init__(self, module, name, node, variant=0, guard=None):
    self.module = module
    self.name = name
    self.node = node
    self.variant = variant
    self.guard = guard
    self.methods = {}           # name -> FunctionInfo
    self.attrs = {}             # class-level simple assignments: name -> value node
    self.base_exprs = []
    for b in node.bases:
      if isinstance(b, ast.Call) and dotted(b.func) in ('with_metaclass', 'six.with_metaclass'):
        self.base_exprs.extend(b.args[1:])
      else:
        self.base_exprs.append(b)
    self.base_names = [dotted(b) or unparse(b) for b in self.base_exprs]

  @property
  def key(self):
    return '%s:%s' % (self.module.name, self.name)

  def __repr__(self):
    return '<class %s>' % self.key


class Module(object):
  def __init__(self, repo, name, relpath, source, tree=None):
    self.repo = repo
    self.name = name
    self.relpath = relpath
    self.source = source
    self.digest = hashlib.sha256(source.encode('utf-8')).hexdigest()
    if tree is None:
      try:
        tree = ast.parse(source, relpath)
      except SyntaxError as e:
        raise AnalysisError('unit %s does not parse: %s' % (relpath, e))
      tree = _FoldPy3().visit(tree)
    ast.fix_missing_locations(tree)
    set_parents(tree)
    self.tree = tree
    self.functions = {}         # qualname -> [FunctionInfo] (variants)
    self.classes = {}           # name -> [ClassInfo]
    self.imports = {}           # local name -> ('module', modname) | ('from', modname, attr)
    self.globals = {}           # name -> [value nodes] of module-level simple assignments
    self._scan_imports()
    self._scan_block(tree.body, None)

  # -- scanning
  def _scan_imports(self):
    for n in ast.walk(self.tree):
      if isinstance(n, ast.Import):
        for a in n.names:
          if a.asname:
            self.imports[a.asname] = ('module', a.name)
          else:
            top = a.name.split('.')[0]
            self.imports[top] = ('module', top)
      elif isinstance(n, ast.ImportFrom) and n.module:
        for a in n.names:
          self.imports[a.asname or a.name] = ('from', n.module, a.name)

  def _scan_block(self, stmts, guard):
    for s in stmts:
      if isinstance(s, (ast.FunctionDef, ast.AsyncFunctionDef)):
        self._add_function(s.name, s, None, None, guard)
      elif isinstance(s, ast.ClassDef):
        self._add_class(s, guard)
      elif isinstance(s, ast.If):
        self._scan_block(s.body, unparse(s.test))
        self._scan_block(s.orelse, 'not (%s)' % unparse(s.test))
      elif isinstance(s, ast.Try):
        self._scan_block(s.body, 'try')
        for h in s.handlers:
          self._scan_block(h.body, 'except ' + (unparse(h.type) if h.type else ''))
        self._scan_block(s.orelse, 'try-else')
        self._scan_block(s.finalbody, guard)
      elif isinstance(s, (ast.With,)):
        self._scan_block(s.body, guard)
      if isinstance(s, (ast.Assign, ast.Expr, ast.AugAssign, ast.AnnAssign)):
        for n in walk_no_nested(s):
          if isinstance(n, ast.Lambda):
            self._add_function('<lambda@%d>' % n.lineno, n, None, None, guard)
      if isinstance(s, ast.Assign):
        for t in s.targets:
          if isinstance(t, ast.Name):
            self.globals.setdefault(t.id, []).append(s.value)
          elif isinstance(t, ast.Tuple) and isinstance(s.value, ast.Tuple) and len(t.elts) == len(s.value.elts):
            for tt, vv in zip(t.elts, s.value.elts):
              if isinstance(tt, ast.Name):
                self.globals.setdefault(tt.id, []).append(vv)

  def _add_class(self, node, guard):
    variants = self.classes.setdefault(node.name, [])
    ci = ClassInfo(self, node.name, node, len(variants), guard)
    variants.append(ci)
    for s in node.body:
      if isinstance(s, (ast.FunctionDef, ast.AsyncFunctionDef)):
        fi = self._add_function('%s.%s' % (node.name, s.name), s, ci, None, guard, variant=ci.variant)
        ci.methods[s.name] = fi
      elif isinstance(s, ast.Assign):
        for t in s.targets:
          if isinstance(t, ast.Name):
            ci.attrs[t.id] = s.value

  def _add_function(self, qualname, node, cls, parent_fn, guard, variant=None):
    variants = self.functions.setdefault(qualname, [])
    fi = FunctionInfo(self, qualname, node, cls, parent_fn, len(variants) if variant is None else variant, guard)
    variants.append(fi)
    node._fi = (qualname, len(variants) - 1)
    fi.inlined_from = list(getattr(node, '_inlined_from', ()))
    # nested functions and lambdas
    for n in walk_no_nested(node, include_self=False):
      if isinstance(n, (ast.FunctionDef, ast.AsyncFunctionDef)):
        self._add_function('%s.%s' % (qualname, n.name), n, cls, fi, guard)
      elif isinstance(n, ast.Lambda):
        self._add_function('%s.<lambda@%d>' % (qualname, n.lineno), n, cls, fi, guard)
    return fi

  # -- access
  def func(self, qualname, variant=0):
    v = self.functions.get(qualname)
    if not v:
      raise AnchorMissing('function %s:%s not found' % (self.name, qualname))
    return v[min(variant, len(v) - 1)]

  def has_func(self, qualname):
    return qualname in self.functions

  def cls(self, name, variant=0):
    v = self.classes.get(name)
    if not v:
      raise AnchorMissing('class %s:%s not found' % (self.name, name))
    return v[min(variant, len(v) - 1)]

  def all_functions(self):
    for v in self.functions.values():
      for f in v:
        yield f

  def all_classes(self):
    for v in self.classes.values():
      for c in v:
        yield c

  def module_level_lambdas(self):
    """Lambdas that appear in module-level statements (e.g. default event handlers)."""
    out = []
    for s in self.tree.body:
      if isinstance(s, (ast.FunctionDef, ast.AsyncFunctionDef, ast.ClassDef)):
        continue
      for n in walk_no_nested(s):
        if isinstance(n, ast.Lambda):
          out.append(n)
    return out


UNIT_PATTERNS = [
  ('lib/carbon/*.py', 'carbon.'),
  ('lib/carbon/aggregator/*.py', 'carbon.aggregator.'),
  ('lib/twisted/plugins/*.py', 'twisted.plugins.'),
  ('bin/*.py', 'bin.'),
]


class Repo(object):
  def __init__(self, root=None, overlay=None, trees=None):
    self.root = root or repo_root()
    self.overlay = dict(overlay or {})
    self.trees = dict(trees or {})     # relpath -> already-normalised ast.Module (see sa/inline.py: normalise)
    self.modules = {}
    self.by_relpath = {}
    self._load()
    self._lambda_modules = {}

  def _load(self):
    rels = set()
    for pat, _ in UNIT_PATTERNS:
      for p in glob.glob(os.path.join(self.root, pat)):
        rels.add(os.path.relpath(p, self.root))
    rels.update(self.overlay)
    if not rels:
      raise AnalysisError('no source units found under %s' % self.root)
    for rel in sorted(rels):
      if '/tests/' in rel:
        continue
      if rel in self.overlay:
        src = self.overlay[rel]
        if src is None:
          continue
      else:
        with open(os.path.join(self.root, rel), encoding='utf-8') as f:
          src = f.read()
      name = self._modname(rel)
      m = Module(self, name, rel, src, self.trees.get(rel))
      self.modules[name] = m
      self.by_relpath[rel] = m

  @staticmethod
  def _modname(rel):
    base = rel[:-3] if rel.endswith('.py') else rel
    if base.startswith('lib/'):
      base = base[4:]
    parts = base.split('/')
    if parts[-1] == '__init__':
      parts = parts[:-1]
    return '.'.join(parts)

  # -- access
  def module(self, name):
    m = self.modules.get(name)
    if m is None:
      raise AnchorMissing('module %s not found' % name)
    return m

  def func(self, modname, qualname, variant=0):
    return self.module(modname).func(qualname, variant)

  def cls(self, modname, name, variant=0):
    return self.module(modname).cls(name, variant)

  def has_func(self, modname, qualname):
    return modname in self.modules and self.modules[modname].has_func(qualname)

  def all_functions(self):
    for m in self.modules.values():
      for f in m.all_functions():
        yield f

  def all_classes(self):
    for m in self.modules.values():
      for c in m.all_classes():
        yield c

  def digest(self, modnames=None):
    h = hashlib.sha256()
    for n in sorted(modnames or self.modules):
      if n in self.modules:
        h.update(n.encode())
        h.update(self.modules[n].digest.encode())
    return h.hexdigest()[:16]

  # -- hierarchy
  def resolve_class_name(self, module, name):
    """ClassInfo list for a (possibly dotted / imported) class name used in ``module``."""
    if name is None:
      return []
    head, _, rest = name.partition('.')
    if not rest:
      if name in module.classes:
        return list(module.classes[name])
      imp = module.imports.get(name)
      if imp and imp[0] == 'from':
        m = self.modules.get(imp[1])
        if m and imp[2] in m.classes:
          return list(m.classes[imp[2]])
      return []
    imp = module.imports.get(head)
    if imp:
      modname = imp[1] if imp[0] == 'module' else '%s.%s' % (imp[1], imp[2])
      # a.b.C  -> module a.b, class C
      full = modname + '.' + rest if '.' in rest else modname
      cname = rest.split('.')[-1]
      for cand in (full.rsplit('.', 1)[0] if '.' in rest else modname, modname):
        m = self.modules.get(cand)
        if m and cname in m.classes:
          return list(m.classes[cname])
    return []

  def bases(self, ci):
    """(repo ClassInfo bases, external base names) in declaration order."""
    repo_bases, ext = [], []
    for b in ci.base_names:
      found = self.resolve_class_name(ci.module, b)
      if found:
        repo_bases.append(found[min(ci.variant, len(found) - 1)])
      else:
        ext.append(b)
    return repo_bases, ext

  def mro(self, ci):
    """Linearisation as a list of ClassInfo | ('ext', name) (C3 over what is known,
    falling back to depth-first left-to-right for external bases)."""
    out = []
    seen = set()

    def visit(c):
      if isinstance(c, tuple):
        if c not in seen:
          seen.add(c)
          out.append(c)
        return
      if c.key + str(c.variant) in seen:
        return
      seen.add(c.key + str(c.variant))
      out.append(c)
      for b in c.base_names:
        found = self.resolve_class_name(c.module, b)
        if found:
          visit(found[min(c.variant, len(found) - 1)])
        else:
          visit(('ext', b))
    visit(ci)
    return out

  def find_method(self, ci, name):
    """First definition of ``name`` along the MRO: FunctionInfo, ('ext', base) or None."""
    for c in self.mro(ci):
      if isinstance(c, tuple):
        continue
      if name in c.methods:
        return c.methods[name]
    return None

  def subclasses(self, ci, strict=True):
    out = []
    for c in self.all_classes():
      if c is ci:
        if not strict:
          out.append(c)
        continue
      if any(x is ci or (not isinstance(x, tuple) and x.key == ci.key) for x in self.mro(c)[1:]):
        out.append(c)
    return out

  def is_subclass(self, c, ci):
    return any((not isinstance(x, tuple)) and x.key == ci.key for x in self.mro(c))

  def classes_named(self, name):
    return [c for c in self.all_classes() if c.name == name]

  def enclosing_function(self, module, node):
    """FunctionInfo whose body directly contains ``node`` (innermost)."""
    fn_node = enclosing(node, (ast.FunctionDef, ast.AsyncFunctionDef, ast.Lambda))
    if fn_node is None:
      return None
    for f in module.all_functions():
      if f.node is fn_node:
        return f
    return None
