"""Facts about carbon.cache._MetricCache shared by C02, C03, C09, C10, C17:
accesses to the cache state classified by kind, the lock region each lies in,
per-metric-dict aliases and where they escape, and a path-wise abstract
execution of every critical section (DESIGN 2.6, C02-delta, C10-refusal)."""
import ast

from .model import dotted, unparse, norm, walk_no_nested, AnchorMissing, enclosing
from .rulelib import short

PURE_READERS = {'len', 'sorted', 'min', 'max', 'list', 'dict', 'tuple', 'bool', 'iter', 'next', 'sum', 'any', 'all',
                'repr', 'str', 'enumerate', 'reversed', 'set', 'frozenset', 'isinstance', 'id', 'type'}
ALIAS_READ_METHODS = {'items', 'keys', 'values', 'get', 'copy', '__contains__', '__len__'}
STRUCT_MUTATORS = {'clear', 'popitem', 'setdefault', 'update', '__setitem__', '__delitem__', 'pop'}
DICT_BASES = {'defaultdict', 'dict', 'OrderedDict'}


class Access(object):
  def __init__(self, kind, node, fn, block, detail=''):
    self.kind = kind
    self.node = node
    self.fn = fn
    self.block = block        # enclosing ``with self.lock`` statement or None
    self.detail = detail

  def __repr__(self):
    return '<%s %s @%s %s>' % (self.kind, short(self.node, 40), getattr(self.node, 'lineno', 0),
                               'locked' if self.block is not None else 'UNLOCKED')


MUTATING = {'size-write', 'struct-write', 'autoviv', 'alias-store', 'strategy-call', 'insert'}
STRUCT_READS = {'lookup', 'alias-read'}


class CacheModel(object):
  def __init__(self, cx):
    self.cx = cx
    self.repo = cx.repo
    mod = self.repo.module('carbon.cache')
    self.mod = mod
    self.cls = None
    for c in mod.all_classes():
      if set(c.base_names) & DICT_BASES and '__init__' in c.methods:
        for n in walk_no_nested(c.methods['__init__'].node, include_self=False):
          if isinstance(n, ast.Assign) and isinstance(n.value, ast.Call) and \
             (dotted(n.value.func) or '').split('.')[-1] in ('Lock', 'RLock'):
            for t in n.targets:
              if isinstance(t, ast.Attribute) and dotted(t.value) == 'self':
                self.cls = c
                self.lock_attr = t.attr
    if self.cls is None:
      raise AnchorMissing('no dict-derived cache class with a lock attribute found in carbon.cache')
    self.methods = {k: cx.inl(v) for k, v in self.cls.methods.items() if k != '__init__'}
    # a private helper that was spliced into every one of its callers is analysed there, in the caller's lock context
    self.absorbed = set()
    spliced = set()
    for m in self.methods.values():
      spliced |= set(getattr(m, 'inlined_from', ()))
    for k, v in list(self.methods.items()):
      if v.key in spliced and k.startswith('_') and not k.startswith('__') and not self._still_called(k):
        self.absorbed.add(k)
        del self.methods[k]
    self.accesses = {}
    self.aliases = {}
    self._owned_helpers = None
    self._lock_inherited = None
    for name, m in self.methods.items():
      self.aliases[name] = self._find_aliases(m)
    for name, m in self.methods.items():
      self.accesses[name] = self._collect(m)

  def _still_called(self, name):
    for m in self.methods.values():
      for n in walk_no_nested(m.node, include_self=False):
        if isinstance(n, ast.Attribute) and n.attr == name:
          return True
    for f in self.repo.all_functions():
      if f.cls is self.cls:
        continue
      for n in walk_no_nested(f.node, include_self=False):
        if isinstance(n, ast.Attribute) and n.attr == name:
          return True
    return False

  # ------------------------------------------------------------ basics
  def lock_blocks(self, m):
    out = []
    for n in walk_no_nested(m.node, include_self=False):
      if isinstance(n, ast.With):
        for i in n.items:
          if dotted(i.context_expr) == 'self.' + self.lock_attr:
            out.append(n)
    return out

  def block_of(self, m, node):
    p = getattr(node, '_parent', None)
    while p is not None and p is not m.node:
      if isinstance(p, ast.With) and any(dotted(i.context_expr) == 'self.' + self.lock_attr for i in p.items):
        return p
      p = getattr(p, '_parent', None)
    return None

  def is_self(self, e):
    return isinstance(e, ast.Name) and e.id == 'self'

  def is_dict_base_call(self, c, names):
    """defaultdict.pop(self, ...) / dict.pop(self, ...) / super(...).pop(...)"""
    f = c.func
    if not isinstance(f, ast.Attribute) or f.attr not in names:
      return False
    if isinstance(f.value, ast.Name) and f.value.id in DICT_BASES and c.args and self.is_self(c.args[0]):
      return True
    if isinstance(f.value, ast.Call) and isinstance(f.value.func, ast.Name) and f.value.func.id == 'super':
      return True
    return False

  # ------------------------------------------------------------ aliases
  def owned_helpers(self):
    """methods that remove a per-metric dict from the cache and return it."""
    if self._owned_helpers is None:
      self._owned_helpers = set()
      for name, m in self.methods.items():
        owned = set()
        for n in walk_no_nested(m.node, include_self=False):
          if isinstance(n, ast.Assign) and isinstance(n.value, ast.Call) and self.is_dict_base_call(n.value, {'pop'}):
            for t in n.targets:
              if isinstance(t, ast.Name):
                owned.add(t.id)
        for n in walk_no_nested(m.node, include_self=False):
          if isinstance(n, ast.Return) and n.value is not None:
            if isinstance(n.value, ast.Name) and n.value.id in owned:
              self._owned_helpers.add(name)
            if isinstance(n.value, ast.Call) and self.is_dict_base_call(n.value, {'pop'}):
              self._owned_helpers.add(name)
    return self._owned_helpers

  def _find_aliases(self, m):
    """local name -> 'shared' | 'owned' | 'attr:<name>' (alias loaded from an attribute)."""
    out = {}
    copies = []
    for n in walk_no_nested(m.node, include_self=False):
      pairs = []
      if isinstance(n, ast.Assign):
        for t in n.targets:
          if isinstance(t, ast.Name):
            pairs.append((t.id, n.value))
          elif isinstance(t, (ast.Tuple, ast.List)) and isinstance(n.value, (ast.Tuple, ast.List)) and \
              len(t.elts) == len(n.value.elts):
            for tt, vv in zip(t.elts, n.value.elts):
              if isinstance(tt, ast.Name):
                pairs.append((tt.id, vv))
          elif isinstance(t, (ast.Tuple, ast.List)):
            # unpacking of an attribute that may hold an alias:  a, b = self._recent
            if isinstance(n.value, ast.Attribute) and self.is_self(n.value.value):
              for tt in t.elts:
                if isinstance(tt, ast.Name):
                  pairs.append((tt.id, n.value))
      for name, v in pairs:
        k = self.alias_kind_of_expr(v, m)
        if k:
          prev = out.get(name)
          out[name] = k if prev in (None, k) else 'shared'
        elif isinstance(v, ast.Name):
          copies.append((name, v.id))
    # plain copies (x = y), to a fixpoint
    changed = True
    while changed:
      changed = False
      for name, src in copies:
        k = out.get(src)
        if k and out.get(name) != k and out.get(name) != 'shared':
          out[name] = k if out.get(name) is None else 'shared'
          changed = True
    # loop / comprehension targets over self.items() / self.values()
    for n in ast.walk(m.node):
      if isinstance(n, (ast.For, ast.comprehension)):
        it = n.iter
        if isinstance(it, ast.Call) and isinstance(it.func, ast.Attribute) and self.is_self(it.func.value) and \
           it.func.attr in ('items', 'values'):
          tgt = n.target
          if it.func.attr == 'values' and isinstance(tgt, ast.Name):
            out[tgt.id] = 'shared'
          elif it.func.attr == 'items' and isinstance(tgt, ast.Tuple) and len(tgt.elts) == 2 and \
              isinstance(tgt.elts[1], ast.Name):
            out[tgt.elts[1].id] = 'shared'
    return out

  def alias_kind_of_expr(self, v, m):
    if isinstance(v, ast.Call):
      f = v.func
      if isinstance(f, ast.Attribute) and self.is_self(f.value):
        if f.attr in ('get', 'setdefault', '__getitem__'):
          return 'shared'
        if f.attr in self.owned_helpers_quick():
          return 'owned'
      if self.is_dict_base_call(v, {'pop'}):
        return 'owned'
      if self.is_dict_base_call(v, {'get', '__getitem__', 'setdefault'}):
        return 'shared'
    if isinstance(v, ast.Subscript) and self.is_self(v.value):
      return 'shared'
    if isinstance(v, ast.Attribute) and self.is_self(v.value) and v.attr in self.alias_attrs():
      return 'attr:' + v.attr
    return None

  def owned_helpers_quick(self):
    try:
      return self.owned_helpers()
    except RecursionError:  # pragma: no cover
      return set()

  def alias_attrs(self):
    """attributes of the cache object that are assigned a (tuple containing a) per-metric dict alias."""
    if not hasattr(self, '_alias_attrs'):
      self._alias_attrs = set()
      # two rounds: aliases found first without attr knowledge
      for name, m in self.methods.items():
        al = {}
        for n in walk_no_nested(m.node, include_self=False):
          if isinstance(n, ast.Assign) and len(n.targets) == 1 and isinstance(n.targets[0], ast.Name):
            v = n.value
            if (isinstance(v, ast.Call) and isinstance(v.func, ast.Attribute) and self.is_self(v.func.value) and
                v.func.attr in ('get', 'setdefault')) or (isinstance(v, ast.Subscript) and self.is_self(v.value)):
              al[n.targets[0].id] = 'shared'
        for n in walk_no_nested(m.node, include_self=False):
          if isinstance(n, ast.Assign):
            for t in n.targets:
              if isinstance(t, ast.Attribute) and self.is_self(t.value):
                if any(isinstance(x, ast.Name) and x.id in al for x in ast.walk(n.value)) or \
                   any(isinstance(x, ast.Subscript) and self.is_self(x.value) and isinstance(x.ctx, ast.Load)
                       for x in ast.walk(n.value)):
                  self._alias_attrs.add(t.attr)
    return self._alias_attrs

  def _filled_at_once(self, m, n, par):
    """`q = self[metric]` whose every continuation (inside the function, normal flow) first passes an item store `q[k] = v`
    before it can leave: the entry is created as the container of the datapoint that fills it, one statement apart."""
    if not (isinstance(par, ast.Assign) and par.value is n and len(par.targets) == 1 and isinstance(par.targets[0], ast.Name)):
      return False
    q = par.targets[0].id
    g = self.cx.cfg(m)
    nodes = g.nodes_of(par)
    if not nodes:
      return False
    fills = [x for x in g.nodes if x.kind == 'stmt' and isinstance(x.ast, ast.Assign) and
             any(isinstance(t, ast.Subscript) and isinstance(t.value, ast.Name) and t.value.id == q for t in x.ast.targets)]
    if not fills:
      return False
    r = g.reach(g.after(nodes[-1]), removed_nodes=set(fills), normal_only=True)
    if g.exit in r:
      return False
    # nothing between the look-up and the fill may raise (a call would leave the empty entry behind)
    for x in r:
      if x.ast is not None and x.kind == 'stmt' and any(isinstance(c, ast.Call) for c in ast.walk(x.ast)):
        return False
    return True

  # ------------------------------------------------------------ accesses
  def _collect(self, m):
    out = []
    al = self.aliases[m.name]
    add = lambda kind, node, detail='': out.append(Access(kind, node, m, self.block_of(m, node), detail))  # noqa
    for n in walk_no_nested(m.node, include_self=False):
      # size
      if isinstance(n, (ast.Assign, ast.AugAssign)):
        tgts = n.targets if isinstance(n, ast.Assign) else [n.target]
        for t in tgts:
          if isinstance(t, ast.Attribute) and self.is_self(t.value) and t.attr == 'size':
            add('size-write', n)
          if isinstance(t, ast.Subscript):
            base = t.value
            if self.is_self(base):
              add('struct-write', n, 'self[...] = ...')
            elif isinstance(base, ast.Subscript) and self.is_self(base.value):
              add('insert', n, 'self[m][k] = v')
            elif isinstance(base, ast.Name) and base.id in al and al[base.id] != 'owned':
              add('alias-store', n, base.id)
      if isinstance(n, ast.Delete):
        for t in n.targets:
          if isinstance(t, ast.Subscript) and (self.is_self(t.value) or (isinstance(t.value, ast.Name) and t.value.id in al)):
            add('struct-write', n, 'del')
      if isinstance(n, ast.Subscript) and isinstance(n.ctx, ast.Load) and self.is_self(n.value):
        par = getattr(n, '_parent', None)
        if isinstance(par, ast.Subscript) and par.value is n and isinstance(par.ctx, ast.Store):
          pass        # container of an immediate item store: counted as 'insert'
        elif self._filled_at_once(m, n, par):
          pass        # q = self[metric] ... q[timestamp] = value on every path that follows: the same, through a local
        else:
          add('autoviv', n)
      if isinstance(n, ast.Call):
        f = n.func
        if self.is_dict_base_call(n, {'pop', 'clear', 'popitem', 'setdefault', 'update', '__setitem__', '__delitem__'}):
          add('struct-write', n, 'dict-base %s' % f.attr)
        elif isinstance(f, ast.Attribute) and self.is_self(f.value):
          if f.attr in ('clear', 'popitem', 'setdefault', 'update', '__setitem__', '__delitem__'):
            add('struct-write', n, f.attr)
          elif f.attr in ('get', 'items', 'keys', 'values', '__contains__', '__getitem__'):
            add('lookup', n, f.attr)
          elif f.attr in self.methods:
            add('self-call', n, f.attr)
        elif isinstance(f, ast.Attribute) and isinstance(f.value, ast.Attribute) and self.is_self(f.value.value) \
            and f.value.attr == 'strategy':
          add('strategy-call', n, f.attr)
        elif isinstance(f, ast.Attribute) and isinstance(f.value, ast.Name) and f.value.id in al and \
            al[f.value.id] != 'owned':
          if f.attr in ALIAS_READ_METHODS:
            add('alias-read', n, f.value.id)
          else:
            add('alias-store', n, '%s.%s()' % (f.value.id, f.attr))
        elif isinstance(f, ast.Name) and f.id in ('iter', 'next', 'list', 'len') and n.args and self.is_self(n.args[0]):
          add('lookup', n, f.id)
        d = dotted(f) or ''
        if d.split('.')[-1] in ('cacheFull', 'cacheOverflow', 'cacheSpaceAvailable') and 'events' in d:
          add('event:' + d.split('.')[-1], n)
      if isinstance(n, ast.Compare):
        for op, c in zip(n.ops, n.comparators):
          if isinstance(op, (ast.In, ast.NotIn)):
            if self.is_self(c):
              add('lookup', n, 'in self')
            elif isinstance(c, ast.Name) and c.id in al and al[c.id] != 'owned':
              add('alias-read', n, c.id)
      if isinstance(n, ast.Attribute) and self.is_self(n.value) and isinstance(n.ctx, ast.Load):
        if n.attr == 'size':
          add('size-read', n)
        elif n.attr in self.methods and self.methods[n.attr].is_property:
          add('prop:' + n.attr, n)
      if isinstance(n, ast.Name) and n.id in al and al[n.id] != 'owned' and isinstance(n.ctx, ast.Load):
        par = getattr(n, '_parent', None)
        if isinstance(par, (ast.UnaryOp, ast.BoolOp, ast.If, ast.While, ast.IfExp)) or \
           (isinstance(par, ast.Compare) and isinstance(par.ops[0], (ast.Is, ast.IsNot)) and par.left is n):
          add('alias-read', n, n.id)
    return out

  def is_mutating(self, mname):
    return any(a.kind in MUTATING for a in self.accesses[mname])

  def intra_calls(self, target):
    """[(caller method, call node, block)] for self.<target>(...) calls inside the class."""
    out = []
    for name, accs in self.accesses.items():
      for a in accs:
        if a.kind == 'self-call' and a.detail == target:
          out.append((self.methods[name], a.node, a.block))
    return out

  def lock_inherited(self):
    """methods without a lock block of their own, called only from lock-holding sites in the class."""
    if self._lock_inherited is None:
      inh = set()
      changed = True
      while changed:
        changed = False
        for name, m in self.methods.items():
          if name in inh or self.lock_blocks(m) or m.is_property:
            continue
          calls = self.intra_calls(name)
          if calls and all(b is not None or c.name in inh for (c, n, b) in calls):
            inh.add(name)
            changed = True
      self._lock_inherited = inh
    return self._lock_inherited

  def external_calls(self, mname):
    """call sites of the method from outside the class (resolved by type, else by private name)."""
    out = []
    for f in self.repo.all_functions():
      if f.cls is self.cls:
        continue
      for c in [n for n in walk_no_nested(f.node, include_self=False) if isinstance(n, ast.Call)]:
        if isinstance(c.func, ast.Attribute) and c.func.attr == mname:
          ts = self.cx.types.expr_types(c.func.value, f.module, f)
          if any(t[0] == 'inst' and t[1].key == self.cls.key for t in ts) or (not ts and mname.startswith('_')):
            out.append((f, c))
    return out

  def holds_lock(self, acc):
    return acc.block is not None or acc.fn.name in self.lock_inherited()

  # ------------------------------------------------------------ path-wise abstract execution
  def region_paths(self, m, block, limit=4000):
    """Enumerate the acyclic normal paths through a lock block; yields lists of (node, label_to_next)."""
    g = self.cx.cfg(m)
    inside_ids = {id(x) for s in block.body for x in ast.walk(s)}

    def in_region(n):
      if n.ast is None:
        return False
      return id(n.ast) in inside_ids or (n.owner is not None and id(n.owner) in inside_ids)
    wnodes = [n for n in g.nodes if n.kind == 'with' and n.owner is block]
    if not wnodes:
      return g, []
    paths = []
    stack = [([(wnodes[0], None)], {wnodes[0].id})]
    while stack and len(paths) < limit:
      path, seen = stack.pop()
      node = path[-1][0]
      succs = [(y, lab) for y, lab in node.succ if lab != 'exc']
      if not succs:
        paths.append(path)
        continue
      for y, lab in succs:
        if not in_region(y):
          paths.append(path[:-1] + [(node, lab), (y, 'leave')])
          continue
        if y.id in seen:
          continue          # loop back: ignore the repeated iteration
        stack.append((path[:-1] + [(node, lab), (y, None)], seen | {y.id}))
    return g, paths

  def classify_edge(self, m, g, node, lab, metric_aliases):
    """'new' / 'dup' if the test edge decides whether (metric, timestamp) is a new key; 'full'/'notfull';
    'nearfull'/'notnearfull'; else None."""
    if not isinstance(lab, tuple):
      return None
    pol, t = lab
    return self._classify_test(m, g, node, pol, t, metric_aliases, depth=0)

  def _classify_test(self, m, g, node, pol, t, al, depth):
    if isinstance(t, ast.Attribute) and self.is_self(t.value):
      if t.attr == 'is_full':
        return 'full' if pol == 'T' else 'notfull'
      if t.attr == 'is_nearly_full':
        return 'nearfull' if pol == 'T' else 'notnearfull'
    if isinstance(t, ast.Compare) and len(t.ops) == 1:
      op, c = t.ops[0], t.comparators[0]
      per_metric = (isinstance(c, ast.Name) and c.id in al) or (isinstance(c, ast.Subscript) and self.is_self(c.value)) \
        or (isinstance(c, ast.Call) and isinstance(c.func, ast.Attribute) and self.is_self(c.func.value) and
            c.func.attr == 'get')
      if isinstance(op, ast.NotIn) and per_metric:
        return 'new' if pol == 'T' else 'dup'
      if isinstance(op, ast.In) and per_metric:
        return 'dup' if pol == 'T' else 'new'
      if isinstance(t.left, ast.Name) and t.left.id in al and isinstance(c, ast.Constant) and c.value is None:
        if isinstance(op, (ast.Is, ast.Eq)):
          return 'new' if pol == 'T' else None
        if isinstance(op, (ast.IsNot, ast.NotEq)):
          return 'new' if pol == 'F' else None
    if isinstance(t, ast.Name) and depth < 2:
      # a local flag computed from a classifiable expression
      from .rulelib import reaching_defs, value_assigned
      rds = reaching_defs(g, t.id, node)
      if len(rds) == 1 and rds[0] is not g.entry:
        v = value_assigned(rds[0], t.id)
        if isinstance(v, ast.BoolOp) and isinstance(v.op, ast.Or):
          ks = {self._classify_test(m, g, rds[0], 'T', x, al, depth + 1) for x in v.values}
          if ks == {'new'}:
            return 'new' if pol == 'T' else 'dup'
        elif isinstance(v, ast.AST):
          k = self._classify_test(m, g, rds[0], pol, v, al, depth + 1)
          if k:
            return k
    return None


class PathFacts(object):
  """What one acyclic path through a critical section does (abstract counts)."""

  def __init__(self):
    self.key = None            # 'new' | 'dup' | 'conflict' | None
    self.full = None           # 'full' | 'notfull' | None
    self.near = None
    self.inc = 0
    self.dec = 0
    self.inserts = []          # nodes storing one item into a per-metric dict
    self.struct = []           # other structural mutations (pop / autoviv / clear ...)
    self.overflow = 0
    self.cachefull = 0
    self.strategy = []
    self.newmetrics = 0
    self.nodes = []
    self.leave = None

  def describe(self, g):
    return g.describe_path([n for n in self.nodes])


def path_facts(cm, m, block):
  """[(PathFacts)] for every enumerated path through ``block`` of method ``m``."""
  g, paths = cm.region_paths(m, block)
  al = cm.aliases[m.name]
  accs = cm.accesses[m.name]
  by_stmt = {}
  for a in accs:
    for n in g.node_containing(a.node):
      by_stmt.setdefault(n.id, []).append(a)
  out = []
  for path in paths:
    pf = PathFacts()
    for (node, lab) in path:
      if lab == 'leave':
        pf.leave = node
        continue
      pf.nodes.append(node)
      for a in by_stmt.get(node.id, []):
        if a.kind == 'size-write':
          s = a.node
          if isinstance(s, ast.AugAssign) and isinstance(s.op, ast.Add):
            pf.inc += 1 if (isinstance(s.value, ast.Constant) and s.value.value == 1) else 99
          elif isinstance(s, ast.AugAssign) and isinstance(s.op, ast.Sub):
            pf.dec += 1
          else:
            pf.inc += 99
        elif a.kind in ('insert', 'alias-store'):
          if isinstance(a.node, (ast.Assign, ast.AugAssign)):
            pf.inserts.append(a)
          else:
            pf.struct.append(a)
        elif a.kind in ('struct-write', 'autoviv'):
          pf.struct.append(a)
        elif a.kind == 'event:cacheOverflow':
          pf.overflow += 1
        elif a.kind == 'event:cacheFull':
          pf.cachefull += 1
        elif a.kind == 'strategy-call':
          pf.strategy.append(a)
        elif a.kind == 'self-call' and a.detail in cm.lock_inherited():
          # summary of the helper: every access it makes
          for b in cm.accesses[a.detail]:
            if b.kind == 'size-write' and isinstance(b.node, ast.AugAssign) and isinstance(b.node.op, ast.Sub):
              pf.dec += 1
            elif b.kind == 'size-write':
              pf.inc += 99
            elif b.kind in ('struct-write', 'autoviv', 'insert', 'alias-store'):
              pf.struct.append(b)
      if node.kind == 'stmt' and node.ast is not None:
        for c in g.calls(node):
          d = dotted(c.func) or ''
          if d.endswith('new_metrics.append'):
            pf.newmetrics += 1
      k = cm.classify_edge(m, g, node, lab, al)
      if k in ('new', 'dup'):
        pf.key = k if pf.key in (None, k) else 'conflict'
      elif k in ('full', 'notfull'):
        pf.full = k
      elif k in ('nearfull', 'notnearfull'):
        pf.near = k
    out.append(pf)
  return g, out
