"""Thorough tier: test the checker both ways (DESIGN 2.9).

1. Seeded variants: every change kept under /verif/seeded/<id>/ that names this
   property is applied (git apply) to a scratch copy of the *current* source tree
   (a temp dir outside /repo and /verif, removed afterwards); the check must
   report an unlisted violation by one of the expected rules.  A patch that no
   longer applies to the current tree is recorded as not-applicable.
2. Benign variants: behaviour-preserving rewrites of every consulted module, held
   as in-memory overlays (re-formatting through ast.unparse, shifted line numbers,
   renamed locals); the check must stay silent (no violation, no analysis error).
A self-test failure makes the run exit 2 (the checker is broken), never 1.
"""
import ast
import glob
import json
import os
import shutil
import subprocess
import tempfile

from .model import Repo, repo_root, walk_no_nested
from .types import Types
from .report import Check, VERIF, load_known

SEEDED_DIR = os.path.join(VERIF, 'seeded')


def _run_rules(pid, mod, root=None, overlay=None):
  from .inline import load_program
  repo, types = load_program(root=root, overlay=overlay)
  check = Check(pid, 'thorough', repo, types)
  mod.run(check)
  known, _ = load_known()
  keys = {k['key'] for k in known if k['property'] == pid}
  unlisted = [v for v in check.violations if v.key not in keys]
  errors = []
  for r in check.rules:
    errors.extend(r.undecided)
    if len(r.instances) < r.minimum:
      errors.append('%s below minimum' % r.name)
  return check, unlisted, errors


def seeded_variants(pid):
  out = []
  for meta_path in sorted(glob.glob(os.path.join(SEEDED_DIR, '*', 'meta.json'))):
    try:
      meta = json.load(open(meta_path))
    except Exception:
      continue
    exp = meta.get('expected', {})
    if pid in exp:
      # a change recorded as out of reach of the rules (DESIGN 3.0b / 8.1) is still run, and reported as such - never as killed
      rules = ['<expected-undetected>'] if meta.get('expected_undetected') else exp[pid]
      out.append((os.path.basename(os.path.dirname(meta_path)), os.path.join(os.path.dirname(meta_path), 'patch.diff'), rules))
  return out


def _scratch_copy(root):
  tmp = tempfile.mkdtemp(prefix='sa-selftest-')
  for sub in ('lib', 'bin'):
    src = os.path.join(root, sub)
    if os.path.isdir(src):
      shutil.copytree(src, os.path.join(tmp, sub), ignore=shutil.ignore_patterns('__pycache__', '*.pyc', 'tests'))
  return tmp


# ------------------------------------------------------------------ benign transforms

def t_reformat(src):
  return ast.unparse(ast.parse(src)) + '\n'


def t_shift(src):
  head = '# reviewed\n#\n#\n\n'
  if src.startswith('"""') or src.startswith('#!'):
    # keep a module docstring / shebang first
    lines = src.split('\n')
    return lines[0] + '\n' + '\n'.join(lines[1:]).replace('\nimport ', '\n\n\n# spacer\nimport ', 1)
  return head + src


class _RenameLocals(ast.NodeTransformer):
  """rename function-local variables that are never used by nested scopes / global statements."""

  def __init__(self, suffix='_v'):
    self.suffix = suffix

  def visit_FunctionDef(self, node):
    self.generic_visit(node)
    params = {a.arg for a in node.args.args + node.args.kwonlyargs + node.args.posonlyargs}
    if node.args.vararg:
      params.add(node.args.vararg.arg)
    if node.args.kwarg:
      params.add(node.args.kwarg.arg)
    stores, blocked = set(), set(params)
    for n in walk_no_nested(node, include_self=False):
      if isinstance(n, ast.Name) and isinstance(n.ctx, ast.Store):
        stores.add(n.id)
      elif isinstance(n, (ast.Global, ast.Nonlocal)):
        blocked.update(n.names)
      elif isinstance(n, (ast.FunctionDef, ast.Lambda, ast.ClassDef, ast.ListComp, ast.SetComp, ast.DictComp, ast.GeneratorExp)):
        for x in ast.walk(n):
          if isinstance(x, ast.Name):
            blocked.add(x.id)
      elif isinstance(n, ast.ExceptHandler) and n.name:
        blocked.add(n.name)
      elif isinstance(n, (ast.Import, ast.ImportFrom)):
        for a in n.names:
          blocked.add((a.asname or a.name).split('.')[0])
    ren = {s for s in stores if s not in blocked and not s.startswith('_')}
    if not ren:
      return node
    for n in walk_no_nested(node, include_self=False):
      if isinstance(n, ast.Name) and n.id in ren:
        n.id = n.id + self.suffix
    return node


def t_rename_locals(src):
  tree = ast.parse(src)
  tree = _RenameLocals().visit(tree)
  ast.fix_missing_locations(tree)
  return ast.unparse(tree) + '\n'


BENIGN = [('reformat (ast.unparse round trip: comments, quoting, line numbers change)', t_reformat),
          ('shift (extra comment/blank lines move every line number)', t_shift)]
BENIGN_EXTRA = [('rename-locals (every plain local variable gets a new name)', t_rename_locals)]


BENIGN_DIR = os.path.join(VERIF, 'benign')


def _patch_job(args):
  """worker: apply one stored patch to a scratch copy of the tree and run the property's rules on it."""
  pid, root, patch = args
  import importlib
  mod = importlib.import_module('sa.props.%s' % pid.lower())
  tmp = _scratch_copy(root)
  try:
    p = subprocess.run(['git', 'apply', '--whitespace=nowarn', '--exclude=*/tests/*', patch], cwd=tmp, stdout=subprocess.PIPE,
                       stderr=subprocess.STDOUT)
    if p.returncode != 0:
      return dict(applied=False)
    try:
      _c, unlisted, errors = _run_rules(pid, mod, root=tmp)
    except Exception as e:
      unlisted, errors = [], ['%s: %s' % (type(e).__name__, e)]
    return dict(applied=True, errors=[str(e) for e in errors][:5],
                unlisted=[dict(rule=v.rule, key=v.key, construct=v.construct[:160], loc=v.loc) for v in unlisted])
  finally:
    shutil.rmtree(tmp, ignore_errors=True)


def benign_refactorings():
  out = []
  for d in sorted(glob.glob(os.path.join(BENIGN_DIR, '*'))):
    patch = os.path.join(d, 'patch.diff')
    if os.path.isfile(patch):
      out.append((os.path.basename(d), patch))
  return out


def run(pid, mod, root=None):
  from concurrent.futures import ProcessPoolExecutor
  root = root or repo_root()
  result = dict(seeded_total=0, seeded_killed=0, seeded_not_applicable=0, benign_total=0, benign_silent=0,
                refactorings_total=0, refactorings_silent=0, refactorings_not_applicable=0,
                variants=[], failures=[], informational=[])
  base_check, base_unlisted, base_errors = _run_rules(pid, mod, root=root)
  consulted = sorted({k.split(':')[0] for k in base_check.functions_analysed if ':' in k})
  repo = base_check.repo
  base_keys = {v.key for v in base_unlisted}
  seeded = seeded_variants(pid)
  refs = benign_refactorings()
  jobs = [(pid, root, patch) for (_n, patch, _e) in seeded] + [(pid, root, patch) for (_n, patch) in refs]
  outs = []
  if jobs:
    workers = min(16, len(jobs), (os.cpu_count() or 2))
    with ProcessPoolExecutor(workers) as ex:
      outs = list(ex.map(_patch_job, jobs))
  # ---- seeded: each must be reported by one of the expected rules
  for (name, patch, expected_rules), o in zip(seeded, outs[:len(seeded)]):
    result['seeded_total'] += 1
    if not o.get('applied'):
      result['seeded_not_applicable'] += 1
      result['variants'].append(dict(kind='seeded', name=name, outcome='not-applicable (patch does not apply to the current tree)'))
      continue
    new = [v for v in o['unlisted'] if v['key'] not in base_keys]
    hit = sorted({v['rule'] for v in new})
    if expected_rules == ['<expected-undetected>']:
      result['seeded_total'] -= 1
      result['seeded_undetected_known'] = result.get('seeded_undetected_known', 0) + (0 if new else 1)
      result['variants'].append(dict(kind='seeded', name=name, outcome='reported after all' if new else
                                     'NOT DETECTED (recorded as out of reach of the rules, DESIGN 3.0b)', rules=hit))
      continue
    if new and (not expected_rules or set(hit) & set(expected_rules)):
      result['seeded_killed'] += 1
      result['variants'].append(dict(kind='seeded', name=name, outcome='killed', rules=hit,
                                     construct=new[0]['construct'][:120], location=new[0]['loc']))
    else:
      result['variants'].append(dict(kind='seeded', name=name, outcome='SURVIVED', rules=hit, errors=o.get('errors', [])[:3]))
      result['failures'].append('seeded change %s is not reported by %s (expected one of %s, got %s)'
                                % (name, pid, expected_rules, hit))
  # ---- stored behaviour-preserving refactorings (every property is checked against all of them): must stay silent
  if not base_unlisted and not base_errors:
    for (name, patch), o in zip(refs, outs[len(seeded):]):
      if not o.get('applied'):
        result['refactorings_not_applicable'] += 1
        result['variants'].append(dict(kind='refactoring', name=name, outcome='not-applicable (patch does not apply to the current tree)'))
        continue
      result['refactorings_total'] += 1
      if not o['unlisted'] and not o['errors']:
        result['refactorings_silent'] += 1
        result['variants'].append(dict(kind='refactoring', name=name, outcome='silent'))
      else:
        result['variants'].append(dict(kind='refactoring', name=name, outcome='NOT SILENT',
                                       violations=[v['key'][:160] for v in o['unlisted']][:3], errors=o['errors'][:3]))
        result['failures'].append('behaviour-preserving refactoring %s is not silent: %s'
                                  % (name, [v['rule'] for v in o['unlisted']][:3] + o['errors'][:2]))
  # ---- generated benign overlays (re-formatting, shifted lines, renamed locals)
  if not base_unlisted and not base_errors:
    for label, fn in BENIGN + BENIGN_EXTRA:
      overlay = {}
      for m in repo.modules.values():
        if m.name in consulted or not consulted:
          try:
            overlay[m.relpath] = fn(m.source)
          except Exception:
            pass
      hard = (label, fn) in BENIGN
      if hard:
        result['benign_total'] += 1
      try:
        _c, unlisted, errors = _run_rules(pid, mod, root=root, overlay=overlay)
      except Exception as e:
        unlisted, errors = [], ['%s: %s' % (type(e).__name__, e)]
      if not unlisted and not errors:
        if hard:
          result['benign_silent'] += 1
        result['variants'].append(dict(kind='benign', name=label, outcome='silent', modules=len(overlay)))
      else:
        msg = 'benign variant "%s" is not silent: %s' % (label, [v.key[:100] for v in unlisted][:2] + errors[:2])
        result['variants'].append(dict(kind='benign', name=label, outcome='NOT SILENT' if hard else 'not silent (informational)',
                                       violations=[v.key[:160] for v in unlisted][:3], errors=errors[:3]))
        if hard:
          result['failures'].append(msg)
        else:
          result['informational'].append(msg)
  return result
