"""Event-handler registry: which functions are registered on which Event
singleton by ``<event>.addHandler(h)`` sites found in the current source."""
import ast

from .model import dotted, walk_no_nested


def _sites(cx):
  if hasattr(cx, '_registry_sites'):
    return cx._registry_sites
  repo, T = cx.repo, cx.types
  sites = []
  for m in repo.modules.values():
    for n in ast.walk(m.tree):
      if isinstance(n, ast.Call) and isinstance(n.func, ast.Attribute) and n.func.attr in ('addHandler', 'removeHandler') \
         and n.args:
        f = repo.enclosing_function(m, n)
        origin = T.event_origin(n.func.value, m, f)
        if origin is None:
          continue
        targets = []
        for t in T.expr_types(n.args[0], m, f):
          if t[0] == 'func':
            targets.append((t[1], None))
          elif t[0] == 'inst' and t[1].name == 'Event' and t[2]:
            targets.append((None, t[2]))       # chained event
        sites.append(dict(kind=n.func.attr, event=origin, module=m, fn=f, call=n, targets=targets))
  cx._registry_sites = sites
  return sites


def handlers_of(cx, origin):
  """[(FunctionInfo|None, chained_event|None, site)] registered with addHandler on the event."""
  out = []
  for s in _sites(cx):
    if s['kind'] == 'addHandler' and s['event'] == origin:
      for (f, ev) in s['targets']:
        out.append((f, ev, s))
      if not s['targets']:
        out.append((None, None, s))
  return out


def sites(cx, kind=None, origin=None):
  return [s for s in _sites(cx) if (kind is None or s['kind'] == kind) and (origin is None or s['event'] == origin)]
