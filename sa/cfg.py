"""Statement-level control-flow graphs with exception edges, and the
reachability-after-removal queries every path rule is built from.

Node kinds: entry, exit (normal return / fall-off), raise (exceptional exit),
stmt, test (one per short-circuit operand), loop (loop head), iter (the
iterable expression of a ``for``), handler (an ``except`` clause), with.
Compound statements carry only their header expression.

Edge labels: None (sequential), ('T', test) / ('F', test) out of test and
loop-iteration nodes, 'exc' (an exception raised by the source node).
"""
import ast
from collections import deque

from .model import norm, walk_no_nested, unparse


class Node(object):
  __slots__ = ('id', 'kind', 'ast', 'succ', 'pred', 'cfg', 'owner')

  def __init__(self, cfg, nid, kind, a=None, owner=None):
    self.cfg = cfg
    self.id = nid
    self.kind = kind
    self.ast = a
    self.owner = owner      # the compound statement this node is the header of
    self.succ = []          # [(node, label)]
    self.pred = []          # [(node, label)]

  @property
  def lineno(self):
    return getattr(self.ast, 'lineno', 0) if self.ast is not None else 0

  @property
  def text(self):
    if self.ast is None:
      return self.kind
    if self.kind == 'handler':
      return norm(self.ast)
    if self.kind in ('loop', 'with') and self.owner is not None:
      return norm(self.owner)
    return norm(self.ast)

  def __repr__(self):
    return '<%s@%s %s>' % (self.kind, self.lineno, self.text[:60])


def expr_may_raise(e):
  """Conservative: can evaluating this expression/statement raise?"""
  for x in walk_no_nested(e):
    if isinstance(x, (ast.Call, ast.Subscript, ast.BinOp, ast.Raise, ast.AugAssign,
                      ast.Delete, ast.Import, ast.ImportFrom, ast.Await, ast.Starred)):
      return True
    if isinstance(x, ast.Compare) and any(isinstance(o, (ast.In, ast.NotIn, ast.Lt, ast.Gt, ast.LtE, ast.GtE))
                                          for o in x.ops):
      return True
    if isinstance(x, ast.Assign) and any(isinstance(t, (ast.Tuple, ast.List)) for t in x.targets):
      return True
    if isinstance(x, (ast.ListComp, ast.SetComp, ast.DictComp, ast.GeneratorExp)):
      return True
    if isinstance(x, ast.Attribute) and not isinstance(x.value, ast.Name):
      return True
  return False


CATCH_ALL = ('Exception', 'BaseException')


def handler_types(h):
  if h.type is None:
    return [None]
  if isinstance(h.type, ast.Tuple):
    return [unparse(e) for e in h.type.elts]
  return [unparse(h.type)]


def handler_catches_all(h):
  return any(t is None or t.split('.')[-1] in CATCH_ALL for t in handler_types(h))


class CFG(object):
  def __init__(self, fn):
    """fn: model.FunctionInfo (or anything with .body and .node)."""
    self.fn = fn
    self.nodes = []
    self.entry = self._new('entry')
    self.exit = self._new('exit')
    self.raise_exit = self._new('raise')
    self._by_ast = {}
    ends = self._block(fn.body, [(self.entry, None)], None, [self.raise_exit])
    self._link(ends, self.exit)
    for n in self.nodes:
      for (m, lab) in n.succ:
        m.pred.append((n, lab))

  # ------------------------------------------------------------ construction
  def _new(self, kind, a=None, owner=None):
    n = Node(self, len(self.nodes), kind, a, owner)
    self.nodes.append(n)
    if a is not None:
      self._by_ast.setdefault(id(a), []).append(n)
    if owner is not None:
      self._by_ast.setdefault(id(owner), []).append(n)
    return n

  def _link(self, preds, node):
    for p, lab in preds:
      p.succ.append((node, lab))

  def _exc(self, node, handlers):
    for h in handlers:
      node.succ.append((h, 'exc'))

  def _test(self, test, preds, handlers):
    """short-circuit expansion; returns (true_preds, false_preds)."""
    if isinstance(test, ast.BoolOp):
      if isinstance(test.op, ast.And):
        falses, cur = [], preds
        for v in test.values:
          t, f = self._test(v, cur, handlers)
          falses += f
          cur = t
        return cur, falses
      trues, cur = [], preds
      for v in test.values:
        t, f = self._test(v, cur, handlers)
        trues += t
        cur = f
      return trues, cur
    if isinstance(test, ast.UnaryOp) and isinstance(test.op, ast.Not):
      t, f = self._test(test.operand, preds, handlers)
      return f, t
    n = self._new('test', test)
    self._link(preds, n)
    if expr_may_raise(test):
      self._exc(n, handlers)
    if isinstance(test, ast.Constant):
      if test.value:
        return [(n, ('T', test))], []
      return [], [(n, ('F', test))]
    return [(n, ('T', test))], [(n, ('F', test))]

  def _block(self, stmts, preds, loop, handlers):
    for s in stmts:
      preds = self._stmt(s, preds, loop, handlers)
    return preds

  def _stmt(self, s, preds, loop, handlers):
    if isinstance(s, ast.If):
      t, f = self._test(s.test, preds, handlers)
      a = self._block(s.body, t, loop, handlers)
      b = self._block(s.orelse, f, loop, handlers) if s.orelse else f
      return a + b
    if isinstance(s, ast.While):
      head = self._new('loop', s.test, owner=s)
      self._link(preds, head)
      t, f = self._test(s.test, [(head, None)], handlers)
      brk = []
      body_end = self._block(s.body, t, (head, brk), handlers)
      self._link(body_end, head)
      outs = self._block(s.orelse, f, loop, handlers) if s.orelse else f
      return outs + brk
    if isinstance(s, (ast.For, ast.AsyncFor)):
      it = self._new('iter', s.iter, owner=None)
      self._link(preds, it)
      self._exc(it, handlers)
      head = self._new('loop', s.iter, owner=s)
      self._link([(it, None)], head)
      self._exc(head, handlers)       # next() of the iterator / unpacking of the target
      brk = []
      body_end = self._block(s.body, [(head, ('T', s.iter))], (head, brk), handlers)
      self._link(body_end, head)
      f = [(head, ('F', s.iter))]
      outs = self._block(s.orelse, f, loop, handlers) if s.orelse else f
      return outs + brk
    if isinstance(s, ast.Try) or type(s).__name__ == 'TryStar':
      hnodes = [self._new('handler', h) for h in s.handlers]
      catches_all = any(handler_catches_all(h) for h in s.handlers)
      outer = handlers
      fin_exc = None
      if s.finalbody:
        fin_exc = self._new('stmt', None)
        fin_exc.kind = 'finally'
        outer = [fin_exc]
      inner = hnodes + ([] if catches_all else outer)
      body_end = self._block(s.body, preds, loop, inner)
      else_end = self._block(s.orelse, body_end, loop, outer) if s.orelse else body_end
      outs = list(else_end)
      for hn, h in zip(hnodes, s.handlers):
        outs += self._block(h.body, [(hn, None)], loop, outer)
      if s.finalbody:
        outs = self._block(s.finalbody, outs, loop, handlers)
        exc_end = self._block(s.finalbody, [(fin_exc, None)], loop, handlers)
        for p, lab in exc_end:
          self._exc(p, handlers)
      return outs
    if isinstance(s, (ast.With, ast.AsyncWith)):
      n = self._new('with', s.items[0].context_expr, owner=s)
      self._link(preds, n)
      if any(expr_may_raise(i.context_expr) for i in s.items):
        self._exc(n, handlers)
      return self._block(s.body, [(n, None)], loop, handlers)
    if isinstance(s, (ast.FunctionDef, ast.AsyncFunctionDef, ast.ClassDef)):
      n = self._new('stmt', s)
      self._link(preds, n)
      return [(n, None)]
    n = self._new('stmt', s)
    self._link(preds, n)
    if expr_may_raise(s):
      self._exc(n, handlers)
    if isinstance(s, ast.Return):
      n.succ.append((self.exit, None))
      return []
    if isinstance(s, ast.Raise):
      if not expr_may_raise(s):
        self._exc(n, handlers)
      return []
    if isinstance(s, ast.Break):
      if loop is not None:
        loop[1].append((n, None))
      return []
    if isinstance(s, ast.Continue):
      if loop is not None:
        n.succ.append((loop[0], None))
      return []
    return [(n, None)]

  # ------------------------------------------------------------ lookup
  def nodes_of(self, a):
    """CFG nodes whose ast (or owner) is exactly ``a``."""
    return list(self._by_ast.get(id(a), []))

  def node_containing(self, sub):
    """The CFG node(s) whose ast contains the ast node ``sub`` (not through nested defs)."""
    out = []
    for n in self.nodes:
      if n.ast is None:
        continue
      if n.kind == 'handler':
        if n.ast.type is not None and any(x is sub for x in ast.walk(n.ast.type)):
          out.append(n)
        continue
      for x in walk_no_nested(n.ast):
        if x is sub:
          out.append(n)
          break
    return out

  def find(self, pred, kinds=('stmt', 'test', 'iter', 'with', 'loop')):
    return [n for n in self.nodes if n.ast is not None and n.kind in kinds and pred(n)]

  def calls(self, node):
    if node.ast is None or node.kind in ('handler', 'loop'):
      return []
    return [c for c in walk_no_nested(node.ast) if isinstance(c, ast.Call)]

  # ------------------------------------------------------------ queries
  @staticmethod
  def is_exc(lab):
    return lab == 'exc'

  def reach(self, starts, removed_nodes=(), removed_edge=None, normal_only=False):
    """Nodes reachable from ``starts`` (inclusive) avoiding removed nodes/edges."""
    removed_nodes = set(removed_nodes)
    seen = set()
    todo = [s for s in starts if s not in removed_nodes]
    while todo:
      x = todo.pop()
      if x in seen:
        continue
      seen.add(x)
      for y, lab in x.succ:
        if y in removed_nodes:
          continue
        if normal_only and lab == 'exc':
          continue
        if removed_edge is not None and removed_edge(x, lab, y):
          continue
        todo.append(y)
    return seen

  def succs(self, node, normal_only=False):
    return [y for y, lab in node.succ if not (normal_only and lab == 'exc')]

  def after(self, node, normal_only=True):
    """Start set for 'what happens after node completed normally'."""
    return self.succs(node, normal_only=normal_only)

  def must_pass(self, starts, target, via, removed_edge=None, normal_only=True):
    """True iff every path from starts to target passes a node of ``via``."""
    r = self.reach(starts, removed_nodes=via, removed_edge=removed_edge, normal_only=normal_only)
    return target not in r

  def path(self, starts, target, removed_nodes=(), removed_edge=None, normal_only=False):
    """A shortest path (list of nodes) from starts to target avoiding removed, or None."""
    removed_nodes = set(removed_nodes)
    prev = {}
    dq = deque()
    for s in starts:
      if s not in removed_nodes and s not in prev:
        prev[s] = None
        dq.append(s)
    while dq:
      x = dq.popleft()
      if x is target:
        out = []
        while x is not None:
          out.append(x)
          x = prev[x]
        return list(reversed(out))
      for y, lab in x.succ:
        if y in removed_nodes or y in prev:
          continue
        if normal_only and lab == 'exc':
          continue
        if removed_edge is not None and removed_edge(x, lab, y):
          continue
        prev[y] = x
        dq.append(y)
    return None

  def describe_path(self, path):
    if not path:
      return ''
    return ' -> '.join('%s@%d' % (n.kind, n.lineno) if n.ast is not None else n.kind for n in path)

  def dominated_by_edge(self, node, edge_pred, normal_only=False):
    """True iff every path entry->node uses an edge satisfying edge_pred(src, label, dst)."""
    r = self.reach([self.entry], removed_edge=edge_pred, normal_only=normal_only)
    return node not in r

  def test_edges(self, pred):
    """[(src, label, dst)] for T/F edges whose (polarity, test_ast) satisfy pred."""
    out = []
    for n in self.nodes:
      for y, lab in n.succ:
        if isinstance(lab, tuple) and pred(lab[0], lab[1], n):
          out.append((n, lab, y))
    return out

  def in_loop_nodes(self, loop_stmt):
    """CFG nodes lexically inside the loop statement (header included)."""
    inside = set()
    ids = {id(x) for x in ast.walk(loop_stmt)}
    for n in self.nodes:
      if n.ast is not None and (id(n.ast) in ids or (n.owner is not None and id(n.owner) in ids)):
        inside.add(n)
      elif n.kind == 'handler' and id(n.ast) in ids:
        inside.add(n)
    return inside


def normal(a, lab, b):
  """removed_edge predicate that drops exception edges."""
  return lab == 'exc'
