"""A small flow-insensitive type inference over the program model, used for
call resolution ("the resolved program, not text").

Abstract types (tuples):
  ('inst', ClassInfo, origin)   instance of a repo class; origin = 'mod.name' for
                                module-level singletons (e.g. 'carbon.events.cacheFull')
  ('cls', ClassInfo)            the class object itself
  ('mod', modname)              a module (repo or external)
  ('func', FunctionInfo)        a function / bound method / lambda
  ('gen', FunctionInfo)         generator object produced by calling FunctionInfo
  ('ext', dotted)               instance of / value from an external callable (deque, Deferred...)

Every attribute type is *derived from assignments found in the current source*
(these are the "witnesses" of DESIGN 2.1): when the assignment that justified
a resolution disappears, the resolution disappears with it.
"""
import ast

from .model import dotted, walk_no_nested, unparse

BUILTIN_CONTAINERS = ('dict', 'list', 'set', 'tuple', 'deque', 'defaultdict', 'frozenset')


class Types(object):
  def __init__(self, repo):
    self.repo = repo
    self._attr_cache = {}
    self._modattr_cache = {}
    self._ret_cache = {}
    self._busy = set()
    self._index_attr_assignments()

  # ------------------------------------------------------------ indexing
  def _index_attr_assignments(self):
    """All ``<expr>.attr = rhs`` assignments in the repo: attr -> [(module, fn, target, rhs)]."""
    self.attr_assigns = {}
    self.global_assigns = {}      # (modname, name) -> [(fn, rhs)] for ``global x; x = rhs``
    for m in self.repo.modules.values():
      fns = list(m.all_functions())
      for f in fns:
        globs = set()
        for n in walk_no_nested(f.node, include_self=False):
          if isinstance(n, ast.Global):
            globs.update(n.names)
        for n in walk_no_nested(f.node, include_self=False):
          if isinstance(n, ast.Assign):
            for t in self._flat_targets(n.targets, n.value):
              tgt, rhs = t
              if isinstance(tgt, ast.Attribute):
                self.attr_assigns.setdefault(tgt.attr, []).append((m, f, tgt, rhs))
              elif isinstance(tgt, ast.Name) and tgt.id in globs:
                self.global_assigns.setdefault((m.name, tgt.id), []).append((f, rhs))
      for s in ast.walk(m.tree):
        if isinstance(s, ast.Assign) and self.repo.enclosing_function(m, s) is None:
          for tgt, rhs in self._flat_targets(s.targets, s.value):
            if isinstance(tgt, ast.Attribute):
              self.attr_assigns.setdefault(tgt.attr, []).append((m, None, tgt, rhs))

  @staticmethod
  def _flat_targets(targets, value):
    out = []
    for t in targets:
      if isinstance(t, (ast.Tuple, ast.List)) and isinstance(value, (ast.Tuple, ast.List)) \
         and len(t.elts) == len(value.elts):
        out.extend(zip(t.elts, value.elts))
      elif isinstance(t, (ast.Tuple, ast.List)):
        out.extend((e, None) for e in t.elts)
      else:
        out.append((t, value))
    return out

  # ------------------------------------------------------------ names
  def resolve_name(self, name, module, fn):
    """Types of a bare name used inside fn (or at module level when fn is None)."""
    f = fn
    while f is not None:
      t = self._local_types(name, module, f)
      if t is not None:
        return t
      f = f.parent_fn
    return self.module_attr(module.name, name)

  def _local_types(self, name, module, fn):
    if name in fn.params or (not isinstance(fn.node, ast.Lambda) and (
        (fn.node.args.vararg and fn.node.args.vararg.arg == name) or
        (fn.node.args.kwarg and fn.node.args.kwarg.arg == name) or
        name in [a.arg for a in fn.node.args.kwonlyargs])):
      params = fn.params
      if fn.cls is not None and params and name == params[0] and fn.parent_fn is None:
        if fn.is_classmethod:
          return {('cls', fn.cls)}
        if not fn.is_staticmethod:
          return {('inst', fn.cls, None)}
      return self._param_types(fn, name)
    key = ('local', fn.key, fn.variant, name)
    if key in self._busy:
      return set()
    assigned = False
    out = set()
    self._busy.add(key)
    try:
      globs = set()
      for n in walk_no_nested(fn.node, include_self=False):
        if isinstance(n, ast.Global):
          globs.update(n.names)
      if name in globs:
        return None
      for n in walk_no_nested(fn.node, include_self=False):
        if isinstance(n, ast.Assign):
          for tgt, rhs in self._flat_targets(n.targets, n.value):
            if isinstance(tgt, ast.Name) and tgt.id == name:
              assigned = True
              if rhs is not None:
                out |= self.expr_types(rhs, module, fn)
        elif isinstance(n, (ast.For, ast.comprehension)):
          for x in ast.walk(n.target):
            if isinstance(x, ast.Name) and x.id == name:
              assigned = True
              out |= self._elem_types(n.iter, module, fn)
        elif isinstance(n, (ast.With,)):
          for i in n.items:
            if i.optional_vars is not None and any(isinstance(x, ast.Name) and x.id == name
                                                   for x in ast.walk(i.optional_vars)):
              assigned = True
        elif isinstance(n, ast.ExceptHandler) and n.name == name:
          assigned = True
        elif isinstance(n, (ast.FunctionDef, ast.AsyncFunctionDef)) and n.name == name:
          assigned = True
          for cand in module.all_functions():
            if cand.node is n:
              out.add(('func', cand))
        elif isinstance(n, (ast.Import, ast.ImportFrom)):
          for a in n.names:
            if (a.asname or a.name.split('.')[0]) == name:
              assigned = True
              if isinstance(n, ast.ImportFrom) and n.module:
                out |= self.module_attr(n.module, a.name)
              else:
                out.add(('mod', a.name if a.asname else a.name.split('.')[0]))
        elif isinstance(n, ast.AugAssign) and isinstance(n.target, ast.Name) and n.target.id == name:
          assigned = True
    finally:
      self._busy.discard(key)
    return out if assigned else None

  def _param_types(self, fn, name):
    """Types of a parameter: union over resolved call sites is too costly in general;
    use the repository's constructor wiring for a few well-known shapes."""
    out = set()
    # strategy(self) in _MetricCache.__init__ : DrainStrategy.__init__(cache)
    hints = PARAM_HINTS.get((fn.module.name, fn.qualname, name))
    if hints:
      for h in hints:
        kind = 'inst'
        if len(h) == 3:
          kind, modname, cname = h
        else:
          modname, cname = h
        m = self.repo.modules.get(modname)
        if m and cname in m.classes:
          c = m.classes[cname][0]
          if kind == 'inst':
            out.add(('inst', c, None))
          else:
            out.add(('cls', c))
            for sc in self.repo.subclasses(c):
              out.add(('cls', sc))
    return out

  def _elem_types(self, it, module, fn):
    """Element types when iterating ``it`` (only a few shapes matter)."""
    out = set()
    for t in self.expr_types(it, module, fn):
      if t[0] == 'gen':
        pass
    # for x in <dict>.values() where dict attr is known to hold instances
    if isinstance(it, ast.Call) and isinstance(it.func, ast.Attribute) and it.func.attr in ('values',):
      out |= self._container_value_types(it.func.value, module, fn)
    if isinstance(it, ast.Call) and isinstance(it.func, ast.Name) and it.func.id == 'list' and it.args:
      return self._elem_types(it.args[0], module, fn)
    return out

  def _container_value_types(self, expr, module, fn):
    """Types stored into a dict-valued attribute via ``<expr>[k] = rhs``."""
    out = set()
    d = dotted(expr)
    if d is None or '.' not in d:
      return out
    attr = d.split('.')[-1]
    key = ('container', attr)
    if key in self._busy:
      return out
    if key in self._attr_cache:
      return self._attr_cache[key]
    self._busy.add(key)
    try:
      for (m, f, t, value) in self._subscript_stores():
        td = dotted(t.value)
        if td and '.' in td and td.split('.')[-1] == attr:
          out |= self.expr_types(value, m, f)
    finally:
      self._busy.discard(key)
    self._attr_cache[key] = out
    return out

  def _subscript_stores(self):
    if not hasattr(self, '_sub_stores'):
      self._sub_stores = []
      for m in self.repo.modules.values():
        for n in ast.walk(m.tree):
          if isinstance(n, ast.Assign):
            for t in n.targets:
              if isinstance(t, ast.Subscript):
                self._sub_stores.append((m, self.repo.enclosing_function(m, n), t, n.value))
    return self._sub_stores

  # ------------------------------------------------------------ module attributes
  def module_attr(self, modname, name):
    key = (modname, name)
    if key in self._modattr_cache:
      return self._modattr_cache[key]
    if key in self._busy:
      return set()
    self._busy.add(key)
    try:
      out = self._module_attr(modname, name)
    finally:
      self._busy.discard(key)
    self._modattr_cache[key] = out
    return out

  def _module_attr(self, modname, name):
    m = self.repo.modules.get(modname)
    out = set()
    if '%s.%s' % (modname, name) in self.repo.modules:
      return {('mod', '%s.%s' % (modname, name))}
    if m is None:
      # external module attribute
      return {('ext', '%s.%s' % (modname, name))}
    if name in m.functions:
      for f in m.functions[name]:
        out.add(('func', f))
    if name in m.classes:
      for c in m.classes[name]:
        out.add(('cls', c))
    for v in m.globals.get(name, []):
      for t in self.expr_types(v, m, None):
        if t[0] == 'inst' and t[2] is None:
          t = ('inst', t[1], '%s.%s' % (modname, name))
        out.add(t)
    for f, rhs in self.global_assigns.get((modname, name), []):
      for t in self.expr_types(rhs, m, f):
        if t[0] == 'inst' and t[2] is None:
          t = ('inst', t[1], '%s.%s' % (modname, name))
        out.add(t)
    # external attribute assignment:  state.events = events
    for (am, af, tgt, rhs) in self.attr_assigns.get(name, []):
      if rhs is None:
        continue
      base = self.expr_types(tgt.value, am, af)
      if ('mod', modname) in base:
        out |= self.expr_types(rhs, am, af)
    if not out and name in m.imports:
      imp = m.imports[name]
      if imp[0] == 'module':
        out.add(('mod', imp[1]))
      else:
        sub = '%s.%s' % (imp[1], imp[2])
        if sub in self.repo.modules:
          out.add(('mod', sub))
        else:
          out |= self.module_attr(imp[1], imp[2])
    return out

  # ------------------------------------------------------------ class attributes
  def class_attr(self, ci, attr):
    key = (ci.key, ci.variant, attr)
    if key in self._attr_cache:
      return self._attr_cache[key]
    if key in self._busy:
      return set()
    self._busy.add(key)
    try:
      out = self._class_attr(ci, attr)
    finally:
      self._busy.discard(key)
    self._attr_cache[key] = out
    return out

  def _class_attr(self, ci, attr):
    repo = self.repo
    out = set()
    family = [c for c in repo.mro(ci) if not isinstance(c, tuple)] + repo.subclasses(ci)
    fam_keys = {c.key for c in family}
    # methods / properties / class-level attributes
    for c in repo.mro(ci):
      if isinstance(c, tuple):
        continue
      if attr in c.methods:
        f = c.methods[attr]
        if f.is_property:
          out |= self.return_types(f)
        else:
          out.add(('func', f))
        break
      if attr in c.attrs:
        out |= self.expr_types(c.attrs[attr], c.module, None)
        break
    for c in repo.subclasses(ci):
      if attr in c.methods and not c.methods[attr].is_property:
        out.add(('func', c.methods[attr]))
    # instance attributes assigned anywhere
    for (am, af, tgt, rhs) in self.attr_assigns.get(attr, []):
      if rhs is None:
        continue
      base = tgt.value
      if isinstance(base, ast.Name) and af is not None and af.cls is not None and af.params \
         and base.id == af.params[0] and not af.is_staticmethod:
        owner_ok = af.cls.key in fam_keys
      else:
        bt = self.expr_types(base, am, af)
        owner_ok = any(t[0] == 'inst' and t[1].key in fam_keys for t in bt)
      if owner_ok:
        out |= self.expr_types(rhs, am, af)
    return out

  # ------------------------------------------------------------ functions
  def return_types(self, fi):
    key = (fi.key, fi.variant)
    if key in self._ret_cache:
      return self._ret_cache[key]
    if key in self._busy:
      return set()
    self._busy.add(key)
    try:
      out = set()
      is_gen = any(isinstance(n, (ast.Yield, ast.YieldFrom)) for n in walk_no_nested(fi.node, include_self=False))
      if is_gen:
        out.add(('gen', fi))
      elif isinstance(fi.node, ast.Lambda):
        out |= self.expr_types(fi.node.body, fi.module, fi)
      else:
        for n in walk_no_nested(fi.node, include_self=False):
          if isinstance(n, ast.Return) and n.value is not None:
            out |= self.expr_types(n.value, fi.module, fi)
    finally:
      self._busy.discard(key)
    self._ret_cache[key] = out
    return out

  # ------------------------------------------------------------ expressions
  def expr_types(self, e, module, fn):
    if e is None:
      return set()
    if isinstance(e, ast.Name):
      return set(self.resolve_name(e.id, module, fn) or ())
    if isinstance(e, ast.Attribute):
      out = set()
      for t in self.expr_types(e.value, module, fn):
        if t[0] == 'mod':
          sub = '%s.%s' % (t[1], e.attr)
          if sub in self.repo.modules:
            out.add(('mod', sub))
          else:
            out |= self.module_attr(t[1], e.attr)
        elif t[0] == 'inst':
          out |= self.class_attr(t[1], e.attr)
        elif t[0] == 'cls':
          r = self.class_attr(t[1], e.attr)
          out |= r
        elif t[0] == 'ext':
          out.add(('ext', '%s.%s' % (t[1], e.attr)))
      return out
    if isinstance(e, ast.Call):
      out = set()
      for t in self.expr_types(e.func, module, fn):
        if t[0] == 'cls':
          out.add(('inst', t[1], None))
        elif t[0] == 'func':
          out |= self.return_types(t[1])
        elif t[0] == 'ext':
          out.add(('ext', t[1] + '()'))
        elif t[0] == 'inst':
          call = self.repo.find_method(t[1], '__call__')
          if call is not None:
            out |= self.return_types(call)
      if not out and isinstance(e.func, ast.Name) and e.func.id in BUILTIN_CONTAINERS:
        out.add(('ext', e.func.id + '()'))
      return out
    if isinstance(e, ast.IfExp):
      return self.expr_types(e.body, module, fn) | self.expr_types(e.orelse, module, fn)
    if isinstance(e, ast.BoolOp):
      out = set()
      for v in e.values:
        out |= self.expr_types(v, module, fn)
      return out
    if isinstance(e, ast.Lambda):
      for cand in module.all_functions():
        if cand.node is e:
          return {('func', cand)}
      return set()
    if isinstance(e, ast.Dict):
      return {('ext', 'dict()')}
    if isinstance(e, (ast.List, ast.ListComp)):
      return {('ext', 'list()')}
    if isinstance(e, (ast.Set, ast.SetComp)):
      return {('ext', 'set()')}
    if isinstance(e, ast.Subscript):
      # plugins registry lookup: X.plugins[...]  -> any registered subclass of X
      if isinstance(e.value, ast.Attribute) and e.value.attr == 'plugins':
        out = set()
        for t in self.expr_types(e.value.value, module, fn):
          if t[0] == 'cls':
            for c in self.repo.subclasses(t[1]):
              out.add(('cls', c))
        return out
      return self._container_value_types(e.value, module, fn)
    return set()

  # ------------------------------------------------------------ calls
  def callees(self, call, module, fn, byname_fallback=True):
    """Resolve a Call to a list of (FunctionInfo, how) where how in
    {'direct', 'method', 'ctor', 'event', 'byname'}; ([], 'external') when the callee
    is known to be outside the repo; ([], 'unknown') otherwise."""
    f = call.func
    out = []
    ftypes = self.expr_types(f, module, fn)
    ext = False
    for t in ftypes:
      if t[0] == 'func':
        out.append((t[1], 'direct' if isinstance(f, ast.Name) else 'method'))
      elif t[0] == 'cls':
        init = self.repo.find_method(t[1], '__init__')
        if init is not None:
          out.append((init, 'ctor'))
        else:
          ext = True
      elif t[0] == 'inst':
        c = self.repo.find_method(t[1], '__call__')
        if c is not None:
          out.append((c, 'event'))
      elif t[0] in ('ext', 'mod', 'gen'):
        ext = True
    if out:
      return _dedup(out), 'resolved'
    if ext:
      return [], 'external'
    if isinstance(f, ast.Attribute):
      sup = self._super_call(f, module, fn)
      if sup is not None:
        return sup
      base_types = self.expr_types(f.value, module, fn)
      if any(t[0] in ('inst', 'cls') for t in base_types):
        # a repo class whose method is not defined in the repo: inherited from an external base
        ok = True
        for t in base_types:
          if t[0] in ('inst', 'cls'):
            if self.repo.find_method(t[1], f.attr) is not None:
              ok = False
            if not any(isinstance(x, tuple) and x[1] != 'object' for x in self.repo.mro(t[1])):
              ok = False
        if ok:
          return [], 'external'
      if any(t[0] in ('ext', 'gen') for t in base_types) and not any(t[0] in ('inst', 'cls') for t in base_types):
        return [], 'external'
      if any(t[0] == 'mod' and t[1] not in self.repo.modules for t in base_types):
        return [], 'external'
      if isinstance(f.value, ast.Constant) or isinstance(f.value, (ast.JoinedStr, ast.List, ast.Dict, ast.Tuple)):
        return [], 'external'
      if byname_fallback and f.attr not in COMMON_BUILTIN_METHODS:
        cands = [(c.methods[f.attr], 'byname') for c in self.repo.all_classes() if f.attr in c.methods]
        if cands:
          return _dedup(cands), 'byname'
      return [], 'unknown'
    if isinstance(f, ast.Name):
      import builtins
      if hasattr(builtins, f.id):
        return [], 'external'
    return [], 'unknown'

  def _super_call(self, f, module, fn):
    """super(X, self).m(...)  /  super().m(...)  -> next definition of m after X in the MRO."""
    v = f.value
    if not (isinstance(v, ast.Call) and isinstance(v.func, ast.Name) and v.func.id == 'super'):
      return None
    start = None
    if v.args:
      cands = self.repo.resolve_class_name(module, dotted(v.args[0]))
      if cands:
        start = cands[0]
    if start is None and fn is not None:
      start = fn.cls
    if start is None:
      return [], 'unknown'
    # the runtime MRO depends on type(self); use the static MRO of the class the method lives in
    mro = self.repo.mro(start)[1:]
    for c in mro:
      if isinstance(c, tuple):
        if c[1] != 'object':
          return [], 'external'
        continue
      if f.attr in c.methods:
        return [(c.methods[f.attr], 'method')], 'resolved'
    return [], 'external'

  def event_origin(self, expr, module, fn):
    """'carbon.events.<name>' if expr denotes a module-level Event singleton."""
    for t in self.expr_types(expr, module, fn):
      if t[0] == 'inst' and t[1].name == 'Event' and t[2]:
        return t[2]
    return None


COMMON_BUILTIN_METHODS = frozenset("""
append appendleft extend pop popleft remove clear add discard update get keys items values setdefault
copy encode decode read write close split strip lstrip rstrip replace join format startswith endswith
find rfind index count sort reverse insert upper lower title partition splitlines isdigit
""".split())


def _dedup(pairs):
  seen = set()
  out = []
  for f, how in pairs:
    k = (f.key, f.variant)
    if k not in seen:
      seen.add(k)
      out.append((f, how))
  return out


# Parameters whose type is fixed by constructor wiring that the flow-insensitive
# inference above cannot see.  Each entry is re-validated by a witness check in
# sa/witness.py (the wiring statement must exist in the current source).
PARAM_HINTS = {
  ('carbon.cache', 'DrainStrategy.__init__', 'cache'): [('carbon.cache', '_MetricCache')],
  ('carbon.cache', 'NaiveStrategy.__init__', 'cache'): [('carbon.cache', '_MetricCache')],
  ('carbon.cache', 'SortedStrategy.__init__', 'cache'): [('carbon.cache', '_MetricCache')],
  ('carbon.cache', 'TimeSortedStrategy.__init__', 'cache'): [('carbon.cache', '_MetricCache')],
  ('carbon.cache', 'BucketMaxStrategy.__init__', 'cache'): [('carbon.cache', '_MetricCache')],
  ('carbon.cache', '_MetricCache.__init__', 'strategy'): [('cls', 'carbon.cache', 'DrainStrategy')],
  ('carbon.client', 'CarbonClientManager.__init__', 'router'): [('carbon.routers', 'DatapointRouter')],
  ('carbon.client', 'CarbonClientFactory.__init__', 'router'): [('carbon.routers', 'DatapointRouter')],
}
