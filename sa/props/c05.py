"""C05 - Hash routing returns a well-formed replica set for every metric.

Decided: the yield-dedup discipline of the ring walk (none repeated), ports come
from the configured map and ring/map/node-set are updated together (only
configured destinations), the replication cut-off lies on every yield-to-yield
path and its counter advances exactly once per yielded destination (what is
counted is what the property counts), diverse replicas never share a server,
routing is a pure function of key and membership.
Not decided: the cardinality arithmetic itself; FastHashRing index arithmetic.
"""
import ast

from ..model import dotted, unparse, norm, walk_no_nested
from ..symeval import show
from ..rulelib import Ctx, nodes_calling, reaching_defs, value_assigned, short, ValueNumbers
from .c06 import rule_local_mutation, rule_replicas_total

IMPURE = ('random', 'choice', 'shuffle', 'time', 'randint', 'uuid4', 'urandom', 'sample')


def _yields(g):
  out = []
  for n in g.nodes:
    if n.kind == 'stmt' and n.ast is not None:
      for x in walk_no_nested(n.ast):
        if isinstance(x, ast.Yield):
          out.append((n, x))
  return out


def _set_attrs(cls):
  out = set()
  init = cls.methods.get('__init__')
  if init is not None:
    for s in walk_no_nested(init.node, include_self=False):
      if isinstance(s, ast.Assign) and isinstance(s.value, ast.Call) and dotted(s.value.func) == 'set':
        for t in s.targets:
          if isinstance(t, ast.Attribute) and dotted(t.value) == 'self':
            out.add(t.attr)
  return out


def rule_dedup(check, cx, rule, fn, cls, restrict=None, what='node'):
  """for every ordered pair of yield sites connected by a path, the earlier value was recorded in the seen-set that guards
  the later one."""
  g = cx.cfg(fn)
  ys = _yields(g)
  if restrict is not None:
    ys = [(n, y) for n, y in ys if restrict(n)]
  if not ys:
    rule.cannot_decide('%s has no yield' % fn.qualname)
    return
  set_attrs = _set_attrs(cls)

  def self_distinct(n, y):
    # yield of the loop variable of a `for` over a set-typed attribute
    for lp in [x for x in g.nodes if x.kind == 'loop' and isinstance(x.owner, ast.For)]:
      if n in g.in_loop_nodes(lp.owner):
        it = lp.owner.iter
        if isinstance(it, ast.Attribute) and dotted(it.value) == 'self' and it.attr in set_attrs and \
           isinstance(lp.owner.target, ast.Name) and isinstance(y.value, ast.Name) and y.value.id == lp.owner.target.id:
          return True
    return False

  def guard_of(n, y):
    """(set name, value expr text) if the yield is dominated by the True edge of `<v> not in S`"""
    vtxt = None
    cands = []
    for a in g.nodes:
      for b, lab in a.succ:
        if isinstance(lab, tuple) and isinstance(lab[1], ast.Compare) and len(lab[1].ops) == 1:
          t = lab[1]
          pol = lab[0]
          if (isinstance(t.ops[0], ast.NotIn) and pol == 'T') or (isinstance(t.ops[0], ast.In) and pol == 'F'):
            cands.append((a, lab, unparse(t.left), dotted(t.comparators[0])))
    for a, lab, v, S in cands:
      if S is None:
        continue
      same = [(a2, l2) for a2, l2, v2, S2 in cands if v2 == v and S2 == S]
      r = g.reach([g.entry], normal_only=True, removed_edge=lambda x, l, z: any(x is a2 and l == l2 for a2, l2 in same))
      if n not in r:
        return S, v
    return None
  for (n1, y1) in ys:
    for (n2, y2) in ys:
      if n2 not in g.reach(g.after(n1, normal_only=True), normal_only=True):
        continue          # no path from the first yield to the second
      if n1 is n2 and self_distinct(n1, y1):
        rule.ok('%s: yield of a set\'s own elements is self-distinct' % fn.qualname, fn.loc(y1))
        continue
      gd = guard_of(n2, y2)
      if gd is None:
        rule.violate('%s: repeated %s possible' % (fn.qualname, what), fn, y2,
                     'the %s yielded at line %d can be yielded again at line %d: the later yield is not guarded by a '
                     '"not seen yet" test' % (what, y1.lineno, y2.lineno))
        continue
      S, v = gd
      # the value yielded first must have been added to S on every path from yield1 to yield2 (or before yield1)
      v1 = _yield_key(y1, v)
      adds = {x for x in g.nodes if x.kind == 'stmt' and any(
        isinstance(c.func, ast.Attribute) and c.func.attr == 'add' and dotted(c.func.value) == S and c.args and
        unparse(c.args[0]) == v1 for c in g.calls(x))}
      before = bool(adds) and n1 not in g.reach([g.entry], removed_nodes=adds, normal_only=True)
      between = bool(adds) and n2 not in g.reach(g.after(n1, normal_only=True), removed_nodes=adds, normal_only=True)
      if before or between:
        rule.ok('%s: yield@%d -> yield@%d separated by %s.add(%s) and guarded by `%s not in %s`'
                % (fn.qualname, y1.lineno, y2.lineno, S, v1, v, S), fn.loc(y2))
      else:
        rule.violate('%s: repeated %s possible' % (fn.qualname, what), fn, y2,
                     'the %s yielded at line %d is not recorded in `%s` before the yield at line %d can run, so the same %s can be '
                     'returned twice' % (what, y1.lineno, S, y2.lineno, what))


def _yield_key(y, guard_var):
  """the expression of the yielded value that corresponds to the guard variable (by name if the yield is a tuple)."""
  v = y.value
  if isinstance(v, ast.Tuple):
    for e in v.elts:
      if unparse(e) == guard_var:
        return guard_var
    return unparse(v)
  return unparse(v)


def run(check):
  cx = Ctx(check)
  repo = check.repo
  check.explanation = (
    'Structural clauses of "well-formed replica set". None repeated: for every ordered pair of yield sites in the ring walk (and '
    'in the diverse branch of the router) joined by a CFG path, the value yielded first is in the seen-set whose "not in" test '
    'dominates the second. Only configured: yielded triples take their port from the configured map, and map, ring and node-set '
    'are updated together (remove_node filters out every entry of the node). Cut-off: every path from one yield to the next '
    'passes the comparison with replication_factor whose true edge leaves, and the compared counter advances exactly once per '
    'yielded destination (a set-size counter requires the yield to be dominated by the not-in-set test unconditionally). '
    'Purity: no random/time, no writes to router/ring state. The count min(RF, eligible) itself and FastHashRing\'s index '
    'arithmetic are not decided.')
  check.not_decided = ['the count min(REPLICATION_FACTOR, eligible) (off-by-one is arithmetic)', 'distinctness in FastHashRing.get_nodes '
                       '(index arithmetic n % len)', 'mmh3_ch']
  check.trusted_base = ['set / dict semantics', 'bisect']
  ring = repo.cls('carbon.hashing', 'ConsistentHashRing')
  router = repo.cls('carbon.routers', 'ConsistentHashingRouter')

  # ------------------------------------------------------------------ dedup
  r_dd = check.rule('R-C05-dedup', 2, rule_dedup.__doc__)
  gn = ring.methods.get('get_nodes')
  if gn is None:
    r_dd.cannot_decide('ConsistentHashRing.get_nodes not found')
  else:
    check.analysed(gn)
    rule_dedup(check, cx, r_dd, gn, ring)
  gd = router.methods.get('getDestinations')
  r_cf = check.rule('R-C05-configured', 3, 'only configured destinations are returned')
  r_co = check.rule('R-C05-cutoff', 1, 'the replication cut-off counts each returned destination exactly once')
  r_dv = check.rule('R-C05-diverse', 1, 'with DIVERSE_REPLICAS no two returned destinations share a server')
  if gd is None:
    r_cf.cannot_decide('ConsistentHashingRouter.getDestinations not found')
  else:
    check.analysed(gd)
    g = cx.cfg(gd)
    ys = _yields(g)
    vn = ValueNumbers(cx, gd)
    PORTS = ('attr', ('param', gd.params[0]), 'instance_ports')
    for n, y in ys:
      v = y.value
      okc = False
      tv = vn.term(v, n) if v is not None else None
      if isinstance(tv, tuple) and tv[0] == 'tuple' and len(tv) == 4:
        s_t, p_t, i_t = tv[1:]
        if isinstance(p_t, tuple) and p_t[0] == 'sub' and p_t[1] == PORTS:
          k_t = p_t[2]
          # looked up under (server, instance): spelled out, or as the ring node the two were unpacked from
          okc = k_t == ('tuple', s_t, i_t) or (s_t == ('field', k_t, 0) and i_t == ('field', k_t, 1))
      if okc:
        r_cf.ok('destination = (server, instance_ports[(server, instance)], instance)', gd.loc(y))
      else:
        r_cf.violate('port not from the configured map', gd, y, 'a destination is yielded as `%s`: its port is not looked up in '
                     'self.instance_ports[(server, instance)], so a ring entry of an unconfigured instance would be returned'
                     % unparse(v))
    # diverse / dedup in the router
    from ..paths import mentions

    def tests_diverse(a, lab):
      """the test reads self.diverse_replicas, directly or through a local that holds it"""
      if 'diverse_replicas' in unparse(lab[1]):
        return True
      t_ = vn.term(lab[1], a)
      return mentions(t_, lambda x: isinstance(x, tuple) and x[0] == 'attr' and x[-1] == 'diverse_replicas')
    div_edge = lambda a, lab, b: isinstance(lab, tuple) and lab[0] == 'T' and tests_diverse(a, lab)   # noqa
    nondiv_edge = lambda a, lab, b: isinstance(lab, tuple) and lab[0] == 'F' and tests_diverse(a, lab)   # noqa
    div_only = {n for n, y in ys if n not in g.reach([g.entry], removed_edge=div_edge, normal_only=True)}
    nondiv_only = {n for n, y in ys if n not in g.reach([g.entry], removed_edge=nondiv_edge, normal_only=True)}
    mixed = [n for n, y in ys if n not in div_only and n not in nondiv_only]
    # ---- cut-off: counter semantics per yield
    for n, y in ys:
      loops = [lp for lp in g.nodes if lp.kind == 'loop' and lp.owner is not None and n in g.in_loop_nodes(lp.owner)]
      if not loops:
        r_co.cannot_decide('a destination is yielded outside the walk over ring.get_nodes()')
        continue
      lp = loops[-1]
      inside = g.in_loop_nodes(lp.owner)
      outside = set(g.nodes) - inside
      cuts = [a for a in inside if a.kind == 'test' and 'replication_factor' in unparse(a.ast)]
      if not cuts:
        r_co.violate('no cut-off', gd, y, 'no comparison with self.replication_factor guards the walk: every node of the ring '
                     'would be returned')
        continue
      # every path from this yield to the next yield passes a cut-off test
      others = {m for m, _ in ys}
      rr = g.reach(g.after(n, normal_only=True), removed_nodes=set(cuts) | outside, normal_only=True)
      if any(m in rr for m in others):
        r_co.violate('cut-off skipped between two yields', gd, y, 'a second destination can be yielded after this one without the '
                     'comparison with replication_factor having been evaluated in between')
        continue
      cut = cuts[0].ast
      counter = None
      if isinstance(cut, ast.Compare) and len(cut.ops) == 1:
        counter = cut.left if 'replication_factor' in unparse(cut.comparators[0]) else cut.comparators[0]
      ctxt = unparse(counter) if counter is not None else '?'
      if isinstance(counter, ast.Call) and isinstance(counter.func, ast.Name) and counter.func.id == 'len' and counter.args:
        S = dotted(counter.args[0])
        # the counter is a set size: it advances once per yield only if the yield is dominated by `x not in S`
        def notin(a, lab, b, S=S):
          if not (isinstance(lab, tuple) and isinstance(lab[1], ast.Compare) and len(lab[1].ops) == 1):
            return False
          t = lab[1]
          if dotted(t.comparators[0]) != S:
            return False
          return (isinstance(t.ops[0], ast.NotIn) and lab[0] == 'T') or (isinstance(t.ops[0], ast.In) and lab[0] == 'F')
        start = [s for s, lab in lp.succ if isinstance(lab, tuple) and lab[0] == 'T']
        dominated = n not in g.reach(start, removed_nodes=outside, removed_edge=notin, normal_only=True)
        adds = any(isinstance(c.func, ast.Attribute) and c.func.attr == 'add' and dotted(c.func.value) == S
                   for a in inside for c in g.calls(a))
        if dominated and adds:
          r_co.ok('counter len(%s) grows by one per yielded destination (yield dominated by the not-in-%s test)' % (S, S), gd.loc(y))
        else:
          r_co.violate('counter does not count destinations', gd, y, 'the walk stops when `%s` reaches the replication factor, but this '
                       'yield is not dominated by a `not in %s` test on every path (e.g. when DIVERSE_REPLICAS is off the test is '
                       'skipped): two instances on one server count once, so more than REPLICATION_FACTOR destinations are returned'
                       % (ctxt, S))
      elif isinstance(counter, ast.Name):
        # enumerate index of the loop, or an explicit counter
        tgt_names = {x.id for x in ast.walk(lp.owner.target) if isinstance(x, ast.Name)} if isinstance(lp.owner, ast.For) else set()
        is_enum = counter.id in tgt_names and isinstance(lp.owner.iter, ast.Call) and dotted(lp.owner.iter.func) == 'enumerate'
        incs = [a for a in inside if a.kind == 'stmt' and isinstance(a.ast, ast.AugAssign) and dotted(a.ast.target) == counter.id]
        if is_enum:
          # each iteration must yield exactly once (or leave)
          start = [s for s, lab in lp.succ if isinstance(lab, tuple) and lab[0] == 'T']
          zero = lp in g.reach(start, removed_nodes={m for m, _ in ys} | outside, normal_only=True)
          if zero:
            r_co.violate('enumerate index counts skipped nodes', gd, y, 'the cut-off compares the enumerate() index, but an iteration '
                         'can finish without yielding: skipped nodes are counted as replicas')
          else:
            r_co.ok('counter = enumerate index, every iteration yields exactly one destination', gd.loc(y))
        elif incs:
          r_co.ok('explicit counter `%s`' % counter.id, gd.loc(y))
        else:
          r_co.cannot_decide('cut-off counter `%s` not recognised' % ctxt)
      else:
        r_co.cannot_decide('cut-off counter `%s` not recognised' % ctxt)
      # the true edge of the cut-off leaves the generator
      for cnode in cuts:
        tsucc = [b for b, lab in cnode.succ if isinstance(lab, tuple) and lab[0] == 'T']
        if any(m in g.reach(tsucc, normal_only=True) for m in others):
          r_co.violate('cut-off does not stop the walk', gd, cnode.ast, 'after the comparison with replication_factor is true, further '
                       'destinations can still be yielded')
    # ---- diverse
    dys = [(n, y) for n, y in ys if n in div_only] + [(n, y) for n, y in ys if n in mixed]
    if not dys:
      r_dv.violate('no diverse branch', gd, None, 'getDestinations has no branch for DIVERSE_REPLICAS', construct='diverse_replicas')
    for n, y in dys:
      tv = vn.term(y.value, n) if y.value is not None else None
      srv_t = tv[1] if isinstance(tv, tuple) and tv[0] == 'tuple' and len(tv) > 1 else None
      stxt = show(srv_t) if srv_t is not None else '?'
      def srv_notin(a, lab, b):
        if not (isinstance(lab, tuple) and isinstance(lab[1], ast.Compare) and len(lab[1].ops) == 1):
          return False
        t = lab[1]
        if srv_t is None or vn.term(t.left, a) != srv_t:
          return False
        return (isinstance(t.ops[0], ast.NotIn) and lab[0] == 'T') or (isinstance(t.ops[0], ast.In) and lab[0] == 'F')
      # under diverse_replicas: remove the non-diverse edges first
      reach = g.reach([g.entry], removed_edge=lambda a, lab, b: srv_notin(a, lab, b) or nondiv_edge(a, lab, b), normal_only=True)
      if n in reach:
        r_dv.violate('two replicas on one server', gd, y, 'with DIVERSE_REPLICAS on, this destination can be yielded although its '
                     'server `%s` was already used' % stxt)
      else:
        r_dv.ok('diverse: yield dominated by `%s not in used servers`' % stxt, gd.loc(y))
    if gn is not None and dys:
      # dedup discipline of the diverse branch w.r.t. servers
      r_dd.ok('router delegates distinctness of (server, instance) to ring.get_nodes()', gd.loc())
  # ---- ring / map / node-set updated together
  for mname, ring_call, map_op in (('addDestination', 'add_node', 'store'), ('removeDestination', 'remove_node', 'del')):
    m = router.methods.get(mname)
    if m is None:
      r_cf.cannot_decide('ConsistentHashingRouter.%s not found' % mname)
      continue
    g = cx.cfg(m)
    rc = nodes_calling(g, lambda c: isinstance(c.func, ast.Attribute) and c.func.attr == ring_call and dotted(c.func.value) == 'self.ring')
    if map_op == 'store':
      mp = [n for n in g.nodes if n.kind == 'stmt' and isinstance(n.ast, ast.Assign) and any(
        isinstance(t, ast.Subscript) and dotted(t.value) == 'self.instance_ports' for t in n.ast.targets)]
    else:
      mp = [n for n in g.nodes if n.kind == 'stmt' and isinstance(n.ast, ast.Delete) and any(
        isinstance(t, ast.Subscript) and dotted(t.value) == 'self.instance_ports' for t in n.ast.targets)]
      mp += nodes_calling(g, lambda c: isinstance(c.func, ast.Attribute) and c.func.attr == 'pop' and dotted(c.func.value) == 'self.instance_ports')
    def paired(a, b):
      # every normal path through a also passes b (before or after)
      dominated = a not in g.reach([g.entry], removed_nodes={b}, normal_only=True)
      followed = g.exit not in g.reach(g.after(a), removed_nodes={b}, normal_only=True)
      return dominated or followed
    both_or_neither = bool(rc) and bool(mp) and all(paired(a, mp[0]) for a in rc) and all(paired(a, rc[0]) for a in mp)
    if rc and mp and both_or_neither:
      r_cf.ok('%s updates instance_ports and the ring together' % mname, m.loc(rc[0].ast))
    else:
      r_cf.violate('%s leaves map and ring out of step' % mname, m, (rc or mp or [None])[0].ast if (rc or mp) else None,
                   '%s does not update self.instance_ports and self.ring on the same paths' % mname, construct='%s pairing' % mname)
  r_rm = check.rule('R-C05-ring-membership', 4, 'ring entries, node set and lengths change together; a removed node leaves no entry behind')
  rule_local_mutation(check, cx, r_rm)
  fr = repo.cls('carbon.routers', 'FastHashRing')
  for mname in ('add_node', 'remove_node'):
    m = fr.methods.get(mname)
    if m is None:
      continue
    g = cx.cfg(m)
    upd = nodes_calling(g, lambda c: isinstance(c.func, ast.Attribute) and c.func.attr == '_update_nodes')
    mut = nodes_calling(g, lambda c: isinstance(c.func, ast.Attribute) and dotted(c.func.value) == 'self.nodes' and c.func.attr in ('add', 'discard', 'remove'))
    if upd and mut and g.exit not in g.reach(g.after(mut[0]), removed_nodes=set(upd), normal_only=True):
      r_rm.ok('FastHashRing.%s re-sorts after changing the node set' % mname, m.loc())
    else:
      r_rm.violate('FastHashRing.%s' % mname, m, None, 'FastHashRing.%s does not rebuild sorted_nodes after changing the node set'
                   % mname, construct='self._update_nodes()')

  un = fr.methods.get('_update_nodes')
  if un is None:
    r_rm.cannot_decide('FastHashRing._update_nodes not found')
  else:
    asg = [n for n in walk_no_nested(un.node, include_self=False) if isinstance(n, ast.Assign) and
           any(dotted(t) == 'self.sorted_nodes' for t in n.targets)]
    okf = False
    why = 'self.sorted_nodes is not assigned'
    vn_u = ValueNumbers(cx, un)
    NODES = ('attr', ('param', un.params[0]), 'nodes')
    for a in asg:
      v = a.value
      tv = vn_u.term(v, a)
      inner = tv[2] if isinstance(tv, tuple) and tv[0] == 'call' and tv[1] == 'sorted' and len(tv) >= 3 else None
      while isinstance(inner, tuple) and inner[0] == 'call' and inner[1] in ('list', 'tuple') and len(inner) == 3:
        inner = inner[2]
      if isinstance(inner, tuple) and inner[0] == 'comp' and not inner[2] and isinstance(inner[1], tuple) and \
         inner[1][0] == 'tuple' and len(inner[1]) == 3 and inner[1][-1] == ('elem', NODES):
        okf = True
      else:
        why = '`%s` is not sorted(<one (hash, node) pair per element of self.nodes>)' % short(v, 70)
    if okf:
      r_rm.ok('FastHashRing.sorted_nodes holds exactly one entry per configured node', un.loc(asg[0]))
    else:
      r_rm.violate('FastHashRing.sorted_nodes can lose nodes', un, asg[0] if asg else None, 'FastHashRing._update_nodes: %s - when two nodes '
                   'hash alike (or are filtered) the walk in get_nodes, which counts len(self.nodes) steps, wraps early: a node is '
                   'returned twice and another never' % why, construct='self.sorted_nodes = sorted((hash, n) for n in self.nodes)')

  # ------------------------------------------------------------------ positions in the ring are taken modulo the ring's own length
  r_ix = check.rule('R-C05-ring-index', 2, 'every index into the ring (and the walk\'s stop marker) wraps at the length of the ring')
  for mname in ('get_node', 'get_nodes'):
    m = ring.methods.get(mname)
    if m is None:
      continue
    idx_vars = {x.slice.id for x in walk_no_nested(m.node, include_self=False) if isinstance(x, ast.Subscript) and
                dotted(x.value) == 'self.ring' and isinstance(x.slice, ast.Name)}
    # names compared for (in)equality with an index take part in the same arithmetic (the stop marker of the walk)
    grew = True
    while grew:
      grew = False
      for x in walk_no_nested(m.node, include_self=False):
        if isinstance(x, ast.Compare) and len(x.ops) == 1 and isinstance(x.ops[0], (ast.Eq, ast.NotEq)) and \
           isinstance(x.left, ast.Name) and isinstance(x.comparators[0], ast.Name):
          a_, b_ = x.left.id, x.comparators[0].id
          for u, v in ((a_, b_), (b_, a_)):
            if u in idx_vars and v not in idx_vars:
              idx_vars.add(v)
              grew = True
    vn_m = ValueNumbers(cx, m)
    S_ = ('param', m.params[0])
    RING_LENS = (('attr', S_, 'ring_len'), ('call', 'len', ('attr', S_, 'ring')))
    judged_mods = []
    for st in walk_no_nested(m.node, include_self=False):
      mods = []
      if isinstance(st, ast.Assign) and any(isinstance(t, ast.Name) and t.id in idx_vars for t in st.targets):
        mods = [(b, st) for b in ast.walk(st.value) if isinstance(b, ast.BinOp) and isinstance(b.op, ast.Mod)]
      elif isinstance(st, ast.Subscript) and dotted(st.value) == 'self.ring' and not isinstance(st.slice, ast.Name):
        # an index computed in place:  self.ring[(start + offset) % n]
        mods = [(b, st) for b in ast.walk(st.slice) if isinstance(b, ast.BinOp) and isinstance(b.op, ast.Mod)]
      for b, where in mods:
        if any(b is x for x in judged_mods):
          continue
        judged_mods.append(b)
        mt = vn_m.term(b.right, where)
        if mt in RING_LENS:
          r_ix.ok('%s: `%s` wraps at the ring length' % (mname, short(where)), m.loc(where))
        else:
          r_ix.violate('%s: index wraps at something else' % mname, m, where, '`%s` takes a ring index modulo `%s`, which is not the '
                       'length of the ring: the walk over the ring then stops early (or never) for keys near the ends of the ring, '
                       'so fewer replicas than required are returned' % (short(where), unparse(b.right)))

  # ------------------------------------------------------------------ purity
  r_pu = check.rule('R-C05-pure', 4, 'same key and membership -> same ordered list')
  fns = [f for f in (gn, gd, repo.func('carbon.hashing', 'carbonHash'), ring.methods.get('compute_ring_position'),
                     ring.methods.get('get_node'), fr.methods.get('get_nodes'), fr.methods.get('_hash')) if f is not None]
  agg = repo.cls('carbon.routers', 'AggregatedConsistentHashingRouter').methods.get('getDestinations')
  if agg is not None:
    fns.append(agg)
  rule_pure(check, r_pu, fns)
  rule_replicas_total(check, cx, check.rule('R-C05-replicas-total', 1, 'every node added to the ring owns replica_count entries: a node without entries is configured but never returned'))


def rule_pure(check, r_pu, fns):
  """the listed functions use no randomness, clock or state they write themselves (shared with C06)"""
  for f in fns:
    bad = []
    for n in walk_no_nested(f.node, include_self=False):
      if isinstance(n, ast.Call) and (dotted(n.func) or '').split('.')[-1] in IMPURE:
        bad.append(n)
      if isinstance(n, (ast.Assign, ast.AugAssign, ast.Delete)):
        for t in (n.targets if isinstance(n, (ast.Assign, ast.Delete)) else [n.target]):
          for x in ast.walk(t):
            if isinstance(x, ast.Attribute) and isinstance(x.ctx, ast.Store) and (dotted(x) or '').startswith('self.'):
              bad.append(n)
            # self.table[key] = ... : state kept on the router between lookups (a memo of earlier answers)
            if isinstance(x, ast.Subscript) and isinstance(x.ctx, (ast.Store, ast.Del)) and (dotted(x.value) or '').startswith('self.'):
              bad.append(n)
      if isinstance(n, ast.Call) and isinstance(n.func, ast.Attribute) and (dotted(n.func.value) or '').startswith('self.') and \
         n.func.attr in ('append', 'add', 'pop', 'remove', 'discard', 'clear', 'sort', 'insert', 'update'):
        bad.append(n)
    if bad:
      r_pu.violate('%s is not pure' % f.qualname, f, bad[0], '%s uses `%s`: the replica list then depends on something else than the '
                   'key and the current membership' % (f.qualname, short(bad[0])))
    else:
      r_pu.ok('%s: no randomness, clock or state mutation' % f.qualname, f.loc())



