"""C10 - The cache stays within its configured bound and every refusal is signalled.

Decided: growth is guarded atomically by the hard limit (inductive bound
size < HARD_MAX + 1), limits are derived as stated, a refusal signals exactly
once and mutates nothing, an update of a cached timestamp is still accepted.
"""
import ast

from ..model import dotted, unparse, norm, walk_no_nested
from ..rulelib import Ctx, short
from ..cachemodel import CacheModel
from .c02 import rule_delta, rule_lockset


def _returns(m):
  return [n for n in walk_no_nested(m.node, include_self=False) if isinstance(n, ast.Return)]


def rule_limit_property(check, cm, rule, prop, setting):
  m = cm.methods.get(prop)
  if m is None or not m.is_property:
    rule.cannot_decide('%s.%s is not a property any more' % (cm.cls.name, prop))
    return
  ok_live = False
  for r in _returns(m):
    v = r.value
    if isinstance(v, ast.Constant) and v.value is False:
      # allowed only under a test that the limit is infinite
      par = getattr(r, '_parent', None)
      t = unparse(par.test).replace(' ', '') if isinstance(par, ast.If) else ''
      if "float('inf')" in t and setting in t and any(x is r for x in par.body):
        rule.ok('%s: `return False` only when %s is infinite' % (prop, setting), m.loc(r))
      else:
        rule.violate('%s returns False' % prop, m, r, '%s can answer False regardless of the cache size' % prop)
      continue
    txt = unparse(v).replace(' ', '') if v is not None else ''
    if isinstance(v, ast.Compare) and len(v.ops) == 1 and isinstance(v.ops[0], ast.GtE) and \
       dotted(v.left) == 'self.size' and (dotted(v.comparators[0]) or '').endswith(setting):
      ok_live = True
      rule.ok('%s compares the live self.size >= settings.%s' % (prop, setting), m.loc(r))
    else:
      rule.violate('%s comparison' % prop, m, r, '%s does not return `self.size >= settings.%s` (found `%s`): the '
                   'bound no longer follows from the guarded increment' % (prop, setting, txt))
  if not ok_live and not any(i['verdict'] == 'VIOLATED' for i in rule.instances):
    rule.cannot_decide('%s has no recognisable comparison' % prop)


def run(check):
  cx = Ctx(check)
  cm = CacheModel(cx)
  check.explanation = (
    'Inductive bound: the only size increment lies on critical-section paths that passed the False outcome of '
    'is_full (live self.size >= CACHE_SIZE_HARD_MAX) in the same critical section, every mutation holds the lock '
    '(shared with C02), so size < HARD_MAX + 1 for every history and interleaving. Refusal paths signal '
    'cacheOverflow exactly once and perform no mutation at all (including the implicit defaultdict insert). Limits '
    'are constant-folded from conf.py. With the 105% limit the bound is within one datapoint (size <= ceil(limit)).')
  check.not_decided = ['nothing value-level: the bound is ceil(HARD_MAX) for a fractional limit']
  check.trusted_base = ['threading.Lock', 'events dispatch (checked for C09)']
  for m in cm.methods.values():
    check.analysed(m)
  r_lock = check.rule('R-C10-lockset', 10, 'every cache mutation and every lookup of a mutating method holds the lock '
                      '(check-then-act is atomic)')
  rule_lockset(check, cm, r_lock)
  r_delta = check.rule('R-C10-delta', 4, 'size delta == key delta (needed for the bound to speak about real contents)')
  r_ref = check.rule('R-C10-refusal', 1, 'a refusal signals cacheOverflow exactly once and mutates nothing')
  r_upd = check.rule('R-C10-update-when-full', 1, 'an update of an already cached timestamp is stored even when full')
  r_grow = check.rule('R-C10-guarded-growth', 1, 'growth only after is_full was False in the same critical section')
  rule_delta(check, cm, r_delta, r10=r_ref, r10u=r_upd, r10g=r_grow)
  r_prop = check.rule('R-C10-is-full', 2, 'is_full compares the live size with the hard limit')
  rule_limit_property(check, cm, r_prop, 'is_full', 'CACHE_SIZE_HARD_MAX')

  # ------------------------------------------------------------------ limits in conf.py
  r_lim = check.rule('R-C10-limits', 3, 'hard limit = MAX_CACHE_SIZE (x1.05 under flow control); low watermark = x0.95')
  conf = check.repo.module('carbon.conf')
  found = {}
  for n in ast.walk(conf.tree):
    if isinstance(n, ast.Assign):
      for t in n.targets:
        d = dotted(t) or ''
        if d.endswith('CACHE_SIZE_HARD_MAX') or d.endswith('CACHE_SIZE_LOW_WATERMARK'):
          found.setdefault(d.split('.')[-1], []).append(n)
  for n in ast.walk(conf.tree):
    if isinstance(n, ast.Call) and isinstance(n.func, ast.Attribute) and n.func.attr == 'setdefault' and n.args and \
       isinstance(n.args[0], ast.Constant) and n.args[0].value in ('CACHE_SIZE_HARD_MAX', 'CACHE_SIZE_LOW_WATERMARK'):
      f_ = check.repo.enclosing_function(conf, n)
      r_lim.violate('derived limit set with setdefault', f_ if f_ is not None else 'carbon.conf:<module>', n,
                    '%s is installed with setdefault(): once set from one configuration section it is not recomputed when a later '
                    'section (the instance override) changes MAX_CACHE_SIZE or USE_FLOW_CONTROL, so the cache is bounded by a stale limit'
                    % n.args[0].value)
    if isinstance(n, ast.Assign):
      for t in n.targets:
        if isinstance(t, ast.Subscript) and isinstance(t.slice, ast.Constant) and t.slice.value in ('CACHE_SIZE_HARD_MAX', 'CACHE_SIZE_LOW_WATERMARK'):
          found.setdefault(t.slice.value, []).append(n)

  def factor(v):
    txt = unparse(v).replace(' ', '')
    if txt.endswith('MAX_CACHE_SIZE'):
      return 1.0
    if isinstance(v, ast.BinOp) and isinstance(v.op, ast.Mult):
      for a, b in ((v.left, v.right), (v.right, v.left)):
        if (dotted(a) or '').endswith('MAX_CACHE_SIZE') and isinstance(b, ast.Constant):
          return float(b.value)
    return None
  hm = found.get('CACHE_SIZE_HARD_MAX', [])
  if len(hm) != 2:
    r_lim.cannot_decide('expected two assignments of CACHE_SIZE_HARD_MAX in conf.py, found %d' % len(hm))
  for n in hm:
    par = getattr(n, '_parent', None)
    fc = None
    if isinstance(par, ast.If) and 'USE_FLOW_CONTROL' in unparse(par.test):
      neg = isinstance(par.test, ast.UnaryOp)
      in_body = any(x is n for x in par.body)
      fc = in_body != neg
    f = factor(n.value)
    want = 1.05 if fc else 1.0
    if fc is None:
      r_lim.violate('hard limit not tied to USE_FLOW_CONTROL', 'carbon.conf:<module>', n, 'CACHE_SIZE_HARD_MAX is assigned '
                    'outside an `if settings.USE_FLOW_CONTROL` arm', construct=norm(n))
    elif f is not None and abs(f - want) < 1e-12:
      r_lim.ok('flow control %s: hard limit = MAX_CACHE_SIZE * %s' % ('on' if fc else 'off', want),
               '%s:%d' % (conf.relpath, n.lineno))
    else:
      r_lim.violate('hard limit factor', 'carbon.conf:<module>', n, 'with flow control %s the hard limit is `%s`, the '
                    'documented value is MAX_CACHE_SIZE%s' % ('on' if fc else 'off', unparse(n.value),
                                                                ' * 1.05' if fc else ''), construct=norm(n))
  for n in hm:
    f_ = check.repo.enclosing_function(conf, n)
    if f_ is not None and f_.name != 'postOptions':
      upd = [c for c in ast.walk(f_.node) if isinstance(c, ast.Call) and isinstance(c.func, ast.Attribute) and c.func.attr in ('update', 'readFrom')]
      if any(getattr(c, 'lineno', 0) > n.lineno for c in upd):
        r_lim.violate('limit derived before the configuration is complete', f_, n, 'CACHE_SIZE_HARD_MAX is computed in %s before later '
                      'configuration sections are read' % f_.qualname)
  lw = found.get('CACHE_SIZE_LOW_WATERMARK', [])
  for n in lw:
    f = factor(n.value)
    if f is not None and abs(f - 0.95) < 1e-12:
      r_lim.ok('low watermark = MAX_CACHE_SIZE * 0.95', '%s:%d' % (conf.relpath, n.lineno))
    else:
      r_lim.violate('low watermark factor', 'carbon.conf:<module>', n, 'the low watermark is `%s`, documented value is 95%% '
                    'of MAX_CACHE_SIZE' % unparse(n.value), construct=norm(n))
  if not lw:
    r_lim.cannot_decide('no assignment of CACHE_SIZE_LOW_WATERMARK in conf.py')

  # ------------------------------------------------------------------ overflow counter wiring
  r_cnt = check.rule('R-C10-overflow-counter', 1, 'cacheOverflow feeds the cache.overflow counter')
  from ..registry import handlers_of
  hs = handlers_of(cx, 'carbon.events.cacheOverflow')
  good = [h for h in hs if h[0] is not None and any(
    isinstance(c, ast.Call) and (dotted(c.func) or '').endswith('increment') and c.args and
    isinstance(c.args[0], ast.Constant) and c.args[0].value == 'cache.overflow' for c in ast.walk(h[0].node))]
  if good:
    r_cnt.ok('handler increments cache.overflow', good[0][0].loc())
  else:
    r_cnt.violate('overflow not counted', 'carbon.events:<module>', None, 'no handler registered on events.cacheOverflow '
                  'increments the cache.overflow counter', construct='cacheOverflow.addHandler(... cache.overflow ...)')
