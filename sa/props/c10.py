"""C10 - The cache stays within its configured bound and every refusal is signalled.

Decided: growth is guarded atomically by the hard limit (inductive bound
size < HARD_MAX + 1), limits are derived as stated, a refusal signals exactly
once and mutates nothing, an update of a cached timestamp is still accepted.
"""
import ast

from ..model import dotted, unparse, norm, walk_no_nested
from ..rulelib import Ctx, short, resolve_copies, nodes_calling
from ..cachemodel import CacheModel
from .c02 import rule_delta, rule_lockset


def _returns(m):
  return [n for n in walk_no_nested(m.node, include_self=False) if isinstance(n, ast.Return)]


def rule_limit_property(check, cm, rule, prop, setting):
  """the property answers exactly `live self.size >= settings.<setting>` (an infinite limit is never reached).

  Decided as a truth table: on every path to a return (sa/paths.py) the returned boolean expression is evaluated for
  every valuation of the two atoms "limit is infinite" and "size >= limit" that the path's own decisions allow."""
  import itertools
  from ..paths import PathExec
  cx = cm.cx
  m = cm.methods.get(prop)
  if m is None or not m.is_property:
    rule.cannot_decide('%s.%s is not a property any more' % (cm.cls.name, prop))
    return
  g = cx.cfg(m)
  px = PathExec(cx, m, unroll=0, follow_exceptions=False)
  SIZE = ('attr', ('param', m.params[0]), 'size')
  INF = ('const', float('inf'))

  def is_limit(t):
    return isinstance(t, tuple) and t[0] == 'attr' and t[-1] == setting

  def atom(t):
    """('inf' | 'ge', positive?) for a comparison term, None for anything else"""
    if not (isinstance(t, tuple) and t[0] == 'cmp'):
      return None
    op, l, r = t[1], t[2], t[3]
    if (is_limit(l) and r == INF) or (is_limit(r) and l == INF):
      if op in ('Eq', 'Is'):
        return ('inf', True)
      if op in ('NotEq', 'IsNot'):
        return ('inf', False)
      if (op == 'GtE' and is_limit(l)) or (op == 'LtE' and is_limit(r)):
        return ('inf', True)
      if (op == 'Lt' and is_limit(l)) or (op == 'Gt' and is_limit(r)):
        return ('inf', False)
    if l == SIZE and is_limit(r):
      return {'GtE': ('ge', True), 'Lt': ('ge', False)}.get(op)
    if r == SIZE and is_limit(l):
      return {'LtE': ('ge', True), 'Gt': ('ge', False)}.get(op)
    return None

  def value(e, env, val):
    """truth value of the boolean expression under the atom valuation, or None if it has an unrecognised part"""
    if isinstance(e, ast.Constant) and isinstance(e.value, bool):
      return e.value
    if isinstance(e, ast.UnaryOp) and isinstance(e.op, ast.Not):
      v = value(e.operand, env, val)
      return None if v is None else not v
    if isinstance(e, ast.BoolOp):
      vs = [value(x, env, val) for x in e.values]
      if any(v is None for v in vs):
        return None
      return all(vs) if isinstance(e.op, ast.And) else any(vs)
    if isinstance(e, ast.IfExp):
      c = value(e.test, env, val)
      return None if c is None else value(e.body if c else e.orelse, env, val)
    if isinstance(e, ast.Name):
      srcs = resolve_copies(m, e)
      if len(srcs) == 1 and isinstance(srcs[0], ast.AST) and srcs[0] is not e:
        return value(srcs[0], env, val)
      return None
    if isinstance(e, ast.Compare):
      a = atom(px.test_term(e, env))
      if a is None:
        return None
      return val[a[0]] == a[1]
    return None

  rets = [n for n in g.nodes if n.kind == 'stmt' and isinstance(n.ast, ast.Return)]
  decided = 0
  for hit in px.run(rets):
    fixed = {}
    unknown_cond = None
    for pol, t, a, n in hit.conds:
      if pol not in ('T', 'F'):
        continue
      at = atom(t)
      if at is None:
        unknown_cond = a
        continue
      fixed[at[0]] = at[1] == (pol == 'T')
    if unknown_cond is not None:
      rule.violate('%s depends on something else' % prop, m, unknown_cond, '%s is additionally conditioned on `%s`: the bound no '
                   'longer follows from the guarded increment' % (prop, unparse(unknown_cond)))
      continue
    e = hit.node.ast.value
    for inf, ge in itertools.product((False, True), (False, True)):
      if inf and ge:
        continue               # a finite size is never >= an infinite limit
      if fixed.get('inf', inf) != inf or fixed.get('ge', ge) != ge:
        continue
      v = value(e, hit.env, {'inf': inf, 'ge': ge}) if e is not None else None
      if v is None:
        rule.violate('%s comparison' % prop, m, hit.node.ast, '%s does not return `self.size >= settings.%s` (found `%s`): '
                     'the bound no longer follows from the guarded increment' % (prop, setting, unparse(e) if e is not None else 'None'))
        break
      want = ge and not inf
      if v != want:
        rule.violate('%s comparison' % prop, m, hit.node.ast, '%s answers %s where `self.size >= settings.%s` is %s (limit %s): '
                     'the bound no longer follows from the guarded increment' % (
                       prop, v, setting, want, 'infinite' if inf else 'finite'))
        break
    else:
      decided += 1
      rule.ok('%s: `%s` == (live self.size >= settings.%s) on this path' % (prop, short(hit.node.ast, 60), setting), m.loc(hit.node.ast))
  if px.truncated or not decided and not any(i['verdict'] == 'VIOLATED' for i in rule.instances):
    rule.cannot_decide('%s has no recognisable comparison' % prop)


def run(check):
  cx = Ctx(check)
  cm = CacheModel(cx)
  check.explanation = (
    'Inductive bound: the only size increment lies on critical-section paths that passed the False outcome of '
    'is_full (live self.size >= CACHE_SIZE_HARD_MAX) in the same critical section, every mutation holds the lock '
    '(shared with C02), so size < HARD_MAX + 1 for every history and interleaving. Refusal paths signal '
    'cacheOverflow exactly once and perform no mutation at all (including the implicit defaultdict insert). Limits '
    'are constant-folded from conf.py. With the 105% limit the bound is within one datapoint (size <= ceil(limit)).')
  check.not_decided = ['nothing value-level: the bound is ceil(HARD_MAX) for a fractional limit']
  check.trusted_base = ['threading.Lock', 'events dispatch (checked for C09)']
  for m in cm.methods.values():
    check.analysed(m)
  r_lock = check.rule('R-C10-lockset', 10, 'every cache mutation and every lookup of a mutating method holds the lock '
                      '(check-then-act is atomic)')
  rule_lockset(check, cm, r_lock)
  r_delta = check.rule('R-C10-delta', 4, 'size delta == key delta (needed for the bound to speak about real contents)')
  r_ref = check.rule('R-C10-refusal', 1, 'a refusal signals cacheOverflow exactly once and mutates nothing')
  r_upd = check.rule('R-C10-update-when-full', 1, 'an update of an already cached timestamp is stored even when full')
  r_grow = check.rule('R-C10-guarded-growth', 1, 'growth only after is_full was False in the same critical section')
  rule_delta(check, cm, r_delta, r10=r_ref, r10u=r_upd, r10g=r_grow)
  r_prop = check.rule('R-C10-is-full', 1, 'is_full compares the live size with the hard limit')
  rule_limit_property(check, cm, r_prop, 'is_full', 'CACHE_SIZE_HARD_MAX')

  # ------------------------------------------------------------------ limits in conf.py
  r_lim = check.rule('R-C10-limits', 3, 'hard limit = MAX_CACHE_SIZE (x1.05 under flow control); low watermark = x0.95')
  conf = check.repo.module('carbon.conf')
  found = {}
  for n in ast.walk(conf.tree):
    if isinstance(n, ast.Assign):
      for t in n.targets:
        d = dotted(t) or ''
        if d.endswith('CACHE_SIZE_HARD_MAX') or d.endswith('CACHE_SIZE_LOW_WATERMARK'):
          found.setdefault(d.split('.')[-1], []).append(n)
  for n in ast.walk(conf.tree):
    if isinstance(n, ast.Call) and isinstance(n.func, ast.Attribute) and n.func.attr == 'setdefault' and n.args and \
       isinstance(n.args[0], ast.Constant) and n.args[0].value in ('CACHE_SIZE_HARD_MAX', 'CACHE_SIZE_LOW_WATERMARK'):
      f_ = check.repo.enclosing_function(conf, n)
      r_lim.violate('derived limit set with setdefault', f_ if f_ is not None else 'carbon.conf:<module>', n,
                    '%s is installed with setdefault(): once set from one configuration section it is not recomputed when a later '
                    'section (the instance override) changes MAX_CACHE_SIZE or USE_FLOW_CONTROL, so the cache is bounded by a stale limit'
                    % n.args[0].value)
    if isinstance(n, ast.Assign):
      for t in n.targets:
        if isinstance(t, ast.Subscript) and isinstance(t.slice, ast.Constant) and t.slice.value in ('CACHE_SIZE_HARD_MAX', 'CACHE_SIZE_LOW_WATERMARK'):
          found.setdefault(t.slice.value, []).append(n)

  hm = found.get('CACHE_SIZE_HARD_MAX', [])
  lw = found.get('CACHE_SIZE_LOW_WATERMARK', [])
  owners = {check.repo.enclosing_function(conf, n) for n in hm + lw}
  owners.discard(None)
  if len(owners) != 1 or not hm or not lw:
    r_lim.cannot_decide('CACHE_SIZE_HARD_MAX / CACHE_SIZE_LOW_WATERMARK are not assigned in one function of conf.py '
                        '(%d / %d assignments)' % (len(hm), len(lw)))
  else:
    from ..paths import PathExec
    from ..symeval import show
    from ..rulelib import local_sources
    fo = owners.pop()
    go = cx.cfg(fo)
    # backward slice over the locals feeding the two settings: the exploration starts at its first statement
    rel = set()
    names = set()
    todo = list(hm + lw)
    while todo:
      a = todo.pop()
      if id(a) in {id(x) for x in rel}:
        continue
      rel.add(a)
      for x in ast.walk(a.value):
        if isinstance(x, ast.Name) and x.id not in names:
          names.add(x.id)
          for st in walk_no_nested(fo.node, include_self=False):
            if isinstance(st, ast.Assign) and any(isinstance(t, ast.Name) and t.id == x.id for t in st.targets):
              todo.append(st)
    rel_nodes = [n for a in rel for n in go.nodes_of(a)]
    # an assignment nested in `if <cond>:` starts at that test (the decision is part of how the value is derived)
    for a in list(rel):
      p_ = getattr(a, '_parent', None)
      while p_ is not None and p_ is not fo.node:
        if isinstance(p_, ast.If):
          rel_nodes.extend(n for n in go.nodes if n.kind == 'test' and (n.ast is p_.test or any(x is n.ast for x in ast.walk(p_.test))))
        p_ = getattr(p_, '_parent', None)
    starts = [n for n in rel_nodes if not any(m is not n and n in go.reach(go.after(m), normal_only=True) for m in rel_nodes)]
    MAXS = ('attr', ('param', 'settings'), 'MAX_CACHE_SIZE')

    def factor_of(t):
      if t == MAXS:
        return 1.0
      if isinstance(t, tuple) and t[0] == 'binop' and t[1] == 'Mult':
        for a, b in ((t[2], t[3]), (t[3], t[2])):
          if a == MAXS and isinstance(b, tuple) and b[0] == 'const' and isinstance(b[1], (int, float)):
            return float(b[1])
      return None
    px = PathExec(cx, fo, unroll=0, follow_exceptions=False)
    judged = set()
    for hit in px.run([go.exit], start=starts):
      hard = hit.env.get('@settings.CACHE_SIZE_HARD_MAX', hit.env.get("@settings['CACHE_SIZE_HARD_MAX']"))
      low = hit.env.get('@settings.CACHE_SIZE_LOW_WATERMARK', hit.env.get("@settings['CACHE_SIZE_LOW_WATERMARK']"))
      flow = hit.decided(lambda t: isinstance(t, tuple) and t[0] == 'truth' and isinstance(t[1], tuple) and t[1][0] == 'attr' and
                         t[1][-1] == 'USE_FLOW_CONTROL')
      key = (hard, low, flow)
      if key in judged:
        continue
      judged.add(key)
      where = hm[0]
      if hard is None or low is None:
        r_lim.violate('limit not installed', fo, where, 'on some path through %s CACHE_SIZE_HARD_MAX / CACHE_SIZE_LOW_WATERMARK '
                      'is not assigned' % fo.qualname)
        continue
      if flow is None:
        r_lim.violate('hard limit not tied to USE_FLOW_CONTROL', fo, where, 'CACHE_SIZE_HARD_MAX is installed on a path that '
                      'did not look at settings.USE_FLOW_CONTROL', construct='CACHE_SIZE_HARD_MAX without USE_FLOW_CONTROL')
        continue
      fct = factor_of(hard)
      want = 1.05 if flow == 'T' else 1.0
      if fct is not None and abs(fct - want) < 1e-12:
        r_lim.ok('flow control %s: hard limit = MAX_CACHE_SIZE * %s' % ('on' if flow == 'T' else 'off', want), fo.loc(where))
      else:
        r_lim.violate('hard limit factor', fo, where, 'with flow control %s the hard limit is `%s`, the documented value is '
                      'MAX_CACHE_SIZE%s' % ('on' if flow == 'T' else 'off', show(hard), ' * 1.05' if flow == 'T' else ''),
                      construct='hard limit, flow control %s' % ('on' if flow == 'T' else 'off'))
      fl = factor_of(low)
      if fl is not None and abs(fl - 0.95) < 1e-12:
        r_lim.ok('low watermark = MAX_CACHE_SIZE * 0.95', fo.loc(lw[0]))
      else:
        r_lim.violate('low watermark factor', fo, lw[0], 'the low watermark is `%s`, documented value is 95%% of MAX_CACHE_SIZE'
                      % show(low), construct='low watermark factor')
    if px.truncated:
      r_lim.cannot_decide('too many paths through %s' % fo.qualname)
  for n in hm:
    f_ = check.repo.enclosing_function(conf, n)
    if f_ is not None and f_.name != 'postOptions':
      upd = [c for c in ast.walk(f_.node) if isinstance(c, ast.Call) and isinstance(c.func, ast.Attribute) and c.func.attr in ('update', 'readFrom')]
      if any(getattr(c, 'lineno', 0) > n.lineno for c in upd):
        r_lim.violate('limit derived before the configuration is complete', f_, n, 'CACHE_SIZE_HARD_MAX is computed in %s before later '
                      'configuration sections are read' % f_.qualname)
  # ------------------------------------------------------------------ overflow counter wiring
  r_cnt = check.rule('R-C10-overflow-counter', 1, 'cacheOverflow feeds the cache.overflow counter')
  from ..registry import handlers_of
  hs = handlers_of(cx, 'carbon.events.cacheOverflow')
  def counts_overflow(h, s_):
    closure = {}
    site_arg = s_['call'].args[0] if s_['call'].args else None
    # a handler produced by a factory call  F('<stat>')  closes over F's parameters
    if h.parent_fn is not None and isinstance(site_arg, ast.Call) and dotted(site_arg.func) == h.parent_fn.name and \
       len(site_arg.args) <= len(h.parent_fn.params):
      closure = {p_: a_ for p_, a_ in zip(h.parent_fn.params, site_arg.args) if isinstance(a_, ast.Constant)}
    for c in ast.walk(h.node):
      if isinstance(c, ast.Call) and (dotted(c.func) or '').endswith('increment') and c.args:
        a0 = c.args[0]
        if isinstance(a0, ast.Name) and a0.id in closure:
          a0 = closure[a0.id]
        if isinstance(a0, ast.Constant) and a0.value == 'cache.overflow':
          return True
    return False
  good = [h for h in hs if h[0] is not None and counts_overflow(h[0], h[2])]
  if good:
    r_cnt.ok('handler increments cache.overflow', good[0][0].loc())
  else:
    r_cnt.violate('overflow not counted', 'carbon.events:<module>', None, 'no handler registered on events.cacheOverflow '
                  'increments the cache.overflow counter', construct='cacheOverflow.addHandler(... cache.overflow ...)')
  rule_growth_everywhere(check, cx, cm, r_grow)
  rule_feed_total(check, cx, check.rule('R-C10-feed-total', 1, 'the pipeline stage hands every datapoint to cache.store(); nothing is refused in front of it'))


def rule_growth_everywhere(check, cx, cm, rule):
  """EVERY statement of _MetricCache that increases self.size - in store() or in any method added later (a 'requeue', a
  bulk load) - is dominated by the False outcome of an is_full test: the inductive bound speaks about all growth sites."""
  def notfull_edge(src, lab, dst):
    if not isinstance(lab, tuple):
      return False
    pol, t = lab
    neg = False
    while isinstance(t, ast.UnaryOp) and isinstance(t.op, ast.Not):
      t, neg = t.operand, not neg
    if isinstance(t, ast.Attribute) and t.attr == 'is_full':
      return pol == ('T' if neg else 'F')
    return False
  todo = [(name, m, {m.params[0]}) for name, m in sorted(cm.methods.items())]
  for f in check.repo.all_functions():
    if (f.cls is not None and f.cls.name == cm.cls.name) or isinstance(f.node, ast.Lambda):
      continue
    fi = cx.inl(f)
    # a method of the cache spliced into a caller elsewhere (cache.requeue(...) inside the writer): the receiver is the caller's name
    recv = {t.id for st in ast.walk(fi.node) if isinstance(st, ast.Assign) and isinstance(st.value, ast.Call) and
            (dotted(st.value.func) or '').split('.')[-1] == 'MetricCache' for t in st.targets if isinstance(t, ast.Name)}
    if recv:
      todo.append((f.qualname, fi, recv))
  for name, m, receivers in todo:
    g = cx.cfg(m)
    for n in g.nodes:
      a = n.ast
      if n.kind == 'stmt' and isinstance(a, ast.AugAssign) and isinstance(a.op, ast.Add) and isinstance(a.target, ast.Attribute) and \
         a.target.attr == 'size' and isinstance(a.target.value, ast.Name) and a.target.value.id in receivers:
        if g.dominated_by_edge(n, notfull_edge):
          rule.ok('%s(): `%s` only after is_full was False' % (name, short(a, 30)), m.loc(a))
        else:
          rule.violate('growth not gated by is_full', m, a, '%s() increases self.size on a path that did not pass the False outcome '
                       'of an is_full test: datapoints stored through it take the cache past CACHE_SIZE_HARD_MAX' % name)
      elif n.kind == 'stmt' and isinstance(a, ast.Assign) and any(isinstance(t, ast.Attribute) and t.attr == 'size' and
                                                                 isinstance(t.value, ast.Name) and t.value.id in receivers for t in a.targets) \
          and name != '__init__' and not (isinstance(a.value, ast.Constant) and a.value.value == 0):
        rule.violate('size assigned', m, a, '%s() assigns self.size (`%s`): growth must go through the gated `+= 1`' % (name, short(a, 40)))


def rule_feed_total(check, cx, rule):
  """CacheFeedingProcessor.process hands EVERY datapoint to cache.store(): the decision whether a datapoint is a new key
  (refused when full) or an update of a cached timestamp (accepted even when full) is store()'s, taken under the lock - a
  shortcut in front of it (`if cache.is_full: return`) drops updates and signals overflow for them."""
  fn = cx.fn('carbon.cache', 'CacheFeedingProcessor.process')
  if not rule.require(fn is not None, 'CacheFeedingProcessor.process not found'):
    return
  g = cx.cfg(fn)
  stores = nodes_calling(g, lambda c: cx.calls_method(c, fn, {'_MetricCache'}, 'store'))
  if not rule.require(bool(stores), 'no cache.store() call found in CacheFeedingProcessor.process'):
    return
  if g.exit in g.reach([g.entry], removed_nodes=stores, normal_only=True):
    p = g.path([g.entry], g.exit, removed_nodes=stores, normal_only=True)
    last = [x for x in (p or []) if x.ast is not None]
    rule.violate('datapoint dropped in front of store()', fn, last[-1].ast if last else fn.node,
                 'process() can return without calling cache.store(): whether a datapoint is refused is decided by store() '
                 '(an update of a cached timestamp is accepted even when the cache is full)', path=g.describe_path(p))
  else:
    rule.ok('every path through process() reaches cache.store()', fn.loc(stores[0].ast))
