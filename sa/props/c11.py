"""C11 - Malformed input is skipped without harming the connection or its neighbours.

Decided: with the exception-effect analysis (sa/effects.py) nothing that the
input can cause escapes the three receiver callbacks; inside loops over wire
items nothing escapes an iteration and no handler leaves the loop; no carbon
code reachable from the callbacks closes the connection.
Not decided: exceptions not caused by the input (MemoryError); Twisted's own
length-limit handling.
"""
import ast

from ..model import dotted, unparse, norm
from ..rulelib import Ctx, short
from ..effects import Effects

# the address Twisted hands to datagramReceived is a (host string, port) pair: trusted, and never None
CALLBACKS = {'lineReceived': ['TR', 'WB'], 'datagramReceived': ['TR', 'WBM', ('T', 'TS', 'TR')], 'stringReceived': ['TR', 'WB']}
LISTENERS = ('carbon.protocols',)


def entries(check):
  base = check.repo.cls('carbon.protocols', 'MetricReceiver')
  out = []
  for c in check.repo.subclasses(base):
    if c.module.name not in LISTENERS:
      continue
    for name, kinds in CALLBACKS.items():
      if name in c.methods:
        out.append((c, c.methods[name], kinds))
  return out


def run(check):
  cx = Ctx(check)
  check.explanation = (
    'Abstract interpretation of lineReceived / datagramReceived / stringReceived (and transitively metricReceived, '
    'RegexList.__contains__, Event.__call__) with taint-typed wire values: every operation on a value that comes from '
    'the wire is looked up in a may-raise table (documented CPython behaviour; unknown operations raise "anything"), and '
    'the exceptions that no enclosing handler catches are the escapes of the callback. Covers every byte string at once. '
    'Decides "no input-caused exception escapes, one bad item cannot take its neighbours with it, carbon never closes '
    'the connection from these callbacks"; exceptions not caused by the input are out of scope.')
  check.not_decided = ['exceptions not caused by the input (MemoryError, bugs in trusted logging)',
                       'Twisted closing the connection on an over-long frame (allowed by the property)']
  check.trusted_base = ['may-raise table = CPython semantics of decode/float/int/unpack/%-format/regex',
                        'carbon.log and carbon.instrumentation do not raise on str input',
                        'str.encode on text decoded from UTF-8 does not raise']
  ents = entries(check)
  r_e = check.rule('R-C11-escape', 3, 'no input-caused exception escapes a receiver callback')
  r_i = check.rule('R-C11-isolation', 2, 'a malformed item cannot take the other items of its frame with it')
  r_c = check.rule('R-C11-no-close', 3, 'carbon code reachable from the callbacks never closes the connection')
  r_n = check.rule('R-C11-coerced', 2, 'numbers taken from the wire reach the pipeline only through float()')
  for cls, m, kinds in ents:
    ef = Effects(cx)
    if m.name == 'datagramReceived':
      # Twisted never calls connectionMade() on a datagram protocol: what only that method sets is unset here
      set_elsewhere, set_cm = set(), set()
      for k in check.repo.mro(cls):
        if isinstance(k, tuple):
          continue
        set_elsewhere |= set(k.attrs)
        for mm in k.methods.values():
          for x in ast.walk(mm.node):
            if isinstance(x, ast.Attribute) and isinstance(x.ctx, ast.Store) and isinstance(x.value, ast.Name) and \
               mm.params and x.value.id == mm.params[0]:
              (set_cm if mm.name in ('connectionMade', 'connectionLost') else set_elsewhere).add(x.attr)
        set_elsewhere |= set(k.methods)
      ef.uninit_attrs = set_cm - set_elsewhere
    raised = ef.analyse(m, kinds)
    for (f_, call_, ks_) in ef.dispatches:
      dp = ks_[2] if len(ks_) > 2 else None
      comps = list(dp[1:]) if isinstance(dp, tuple) and dp[0] == 'T' else [dp]
      if len(comps) == 2 and all(c in ('F?', 'FF') for c in comps):
        r_n.ok('%s.%s dispatches (float, float)' % (cls.name, m.name), f_.loc(call_))
      else:
        r_n.violate('%s.%s: number not converted' % (cls.name, m.name), f_, call_, 'the datapoint handed to metricReceived has '
                    'components of kind %s: a number taken from the wire must go through float() (which also rejects what a float '
                    'cannot hold - an int beyond 2**1024 would otherwise be accepted as a datapoint)' % (comps,))
    for k in sorted(ef.analysed):
      check.functions_analysed.add(k)
    label = '%s.%s' % (cls.name, m.name)
    seen = set()
    for x in raised:
      if x.key() in seen:
        continue
      seen.add(x.key())
      via = ' <- '.join('%s:%d' % (f.qualname, getattr(n, 'lineno', 0)) for f, n in x.via)
      exc = 'any exception' if x.exc == 'TOP' else x.exc
      r_e.violate('%s: %s escapes' % (label, exc), x.fn, x.node,
                  '%s can be raised by %s and is not caught on the way out of %s%s: the exception escapes the protocol '
                  'handler (Twisted drops the connection / the rest of the frame is lost)'
                  % (exc, x.what, label, (' (reached via %s)' % via) if via else ''),
                  construct='%s in %s' % (x.exc, norm(_stmt(x.node))))
    if not raised:
      r_e.ok('%s: nothing escapes' % label, m.loc(), '%d function(s) analysed with wire kinds %s' % (len(ef.analysed), kinds[1:]))
    probs = ef.loop_problems
    hz = ef.hazards
    for (f, node, msg) in probs:
      r_i.violate('%s: per-item isolation' % label, f, node, msg, construct='isolation: ' + norm(_stmt(node)))
    for (f, node, msg) in hz:
      r_i.violate('%s: whole-payload hazard' % label, f, node, msg, construct='hazard: ' + norm(_stmt(node)))
    has_loop = any(isinstance(n, (ast.For, ast.While)) for n in ast.walk(m.node))
    if not probs and not hz:
      r_i.ok('%s: %s' % (label, 'items of a frame are handled independently' if has_loop else
                         'one frame = one item (no loop)'), m.loc())
    if ef.closers:
      for (f, c) in ef.closers:
        r_c.violate('%s closes the connection' % label, f, c, '`%s` is reachable from %s: malformed input must be skipped, not '
                    'answered by dropping the connection' % (short(c), label))
    else:
      r_c.ok('%s: no loseConnection/abortConnection reachable' % label, m.loc())
  # ------------------------------------------------------------------ only a frame above the CONFIGURED limit closes the connection
  # Twisted's framing classes close the connection for a line / frame longer than self.MAX_LENGTH: that limit must be the
  # configured one (or Twisted's / the class's own constant), not something computed from it
  from ..rulelib import ValueNumbers
  for cls, m, kinds in ents:
    for k in check.repo.mro(cls):
      if isinstance(k, tuple):
        continue
      for mm in k.methods.values():
        for st in ast.walk(mm.node):
          if isinstance(st, ast.Assign) and any(isinstance(t, ast.Attribute) and t.attr == 'MAX_LENGTH' and isinstance(t.value, ast.Name) and
                                                mm.params and t.value.id == mm.params[0] for t in st.targets):
            t_ = ValueNumbers(cx, mm).term(st.value, st)
            setting = isinstance(t_, tuple) and t_[0] in ('attr', 'sub', 'field') and isinstance(t_[-1], str) and t_[-1].endswith('MAX_LENGTH') and \
              'settings' in repr(t_)
            if setting or (isinstance(t_, tuple) and t_[0] == 'const'):
              r_c.ok('%s: frame-length limit = %s' % (k.name, unparse(st.value)), mm.loc(st))
            else:
              r_c.violate('%s: frame-length limit is not the configured one' % k.name, mm, st, 'self.MAX_LENGTH is set to `%s`, not to the '
                          'configured limit itself: frames up to the configured maximum length are then treated as oversized and the '
                          'connection is closed for input the listener must accept' % unparse(st.value))
  # ------------------------------------------------------------------ frames are decoded independently
  r_f = check.rule('R-C11-frame-local', 1, 'a frame is unpickled from a stream built afresh from that frame only')
  rule_frame_local(check, cx, r_f)
  if len(ents) < 3:
    r_e.cannot_decide('expected the line, UDP and pickle receiver callbacks, found %d' % len(ents))



def rule_frame_local(check, cx, rule):
  """every frame gets an unpickler (input buffer and memo included) of its own (shared with C01)."""
  from ..rulelib import reaching_defs, value_assigned
  for sc in check.repo.module('carbon.util').classes.get('SafeUnpickler', []):
    loads = sc.methods.get('loads')
    if loads is None:
      continue
    check.analysed(loads)
    g = cx.cfg(loads)
    p = loads.params[1] if len(loads.params) > 1 else None
    ctors = []
    for n in g.nodes:
      for c in g.calls(n):
        nm = dotted(c.func) or ''
        if (nm == loads.params[0] or nm.endswith('Unpickler')) and c.args:
          ctors.append((n, c))

    def fresh(e, node, depth=0):
      if isinstance(e, ast.Call) and (dotted(e.func) or '').split('.')[-1] in ('StringIO', 'BytesIO') and len(e.args) == 1 and \
         isinstance(e.args[0], ast.Name) and e.args[0].id == p:
        return True
      if isinstance(e, ast.Name) and depth < 2:
        rds = reaching_defs(g, e.id, node)
        vals = []
        for d in rds:
          if d is g.entry:
            continue
          v = value_assigned(d, e.id)
          if not isinstance(v, ast.AST) and d.kind == 'with' and d.owner is not None:
            # with StringIO(frame) as stream:  (StringIO.__enter__ returns the object itself)
            for it in d.owner.items:
              if isinstance(it.optional_vars, ast.Name) and it.optional_vars.id == e.id:
                v = it.context_expr
          vals.append(v)
        return bool(vals) and len(vals) == len(rds) and all(isinstance(v, ast.AST) and fresh(v, d, depth + 1) for v, d in zip(vals, rds))
      return False
    if not ctors:
      reused = [c for c in ast.walk(loads.node) if isinstance(c, ast.Call) and isinstance(c.func, ast.Attribute) and c.func.attr == 'load'
                and isinstance(c.func.value, (ast.Name, ast.Attribute)) and (dotted(c.func.value) or '').split('.')[0] == loads.params[0]]
      if reused:
        rule.violate('unpickler object outlives the frame', loads, reused[0], '`%s` unpickles with an object that exists before and '
                     'after this call: its memo (and input buffer) carry over, so back-references in a later frame resolve to '
                     'objects of earlier frames - datapoints arrive under another metric name or are dropped' % short(reused[0]))
      else:
        rule.cannot_decide('SafeUnpickler.loads: construction of the unpickler not recognised')
    for n, c in ctors:
      if fresh(c.args[0], n):
        rule.ok('SafeUnpickler.loads[%s] reads from a fresh StringIO(<frame>)' % (sc.guard or 'py3'), loads.loc(c))
      else:
        rule.violate('unpickler input shared between frames', loads, c, 'the unpickler reads from `%s`, which is not a buffer created '
                    'from this frame alone: bytes of an earlier (longer) frame remain behind the current one, so a truncated frame '
                    'that must be skipped runs on into stale data and earlier datapoints are accepted again' % unparse(c.args[0]))


def _stmt(node):
  n = node
  while n is not None and not isinstance(n, (ast.stmt, ast.ExceptHandler)):
    n = getattr(n, '_parent', None)
  return n if n is not None else node
