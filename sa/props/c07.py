"""C07 - Relay send queues deliver in order, exactly once, within their bounds.

Decided: ownership of the queue (FIFO operations only), popped batch is sent
whole through the live connection, enqueue bounded by the hard limit, drops
counted, re-injection of the whole queue before it is cleared, stop only after
the queue is empty.  Not decided: what Twisted does with bytes written to a
closing transport; duplicates across replicas after re-injection.
"""
import ast

from ..model import dotted, unparse, norm, walk_no_nested, loop_exits, loop_of
from ..rulelib import Ctx, nodes_calling, reaching_defs, value_assigned, short, is_increment_of
from ..clientmodel import ClientModel

LIMITS = ('SEND_QUEUE_HARD_MAX', 'MAX_QUEUE_SIZE')


def size_expr(e):
  d = dotted(e) or ''
  if d.endswith('queueSize'):
    return True
  if isinstance(e, ast.Call) and isinstance(e.func, ast.Name) and e.func.id == 'len' and e.args and \
     (dotted(e.args[0]) or '').endswith('queue'):
    return True
  return False


def bound_edge(lab):
  """test edge on which `queue size < limit` is known."""
  if not isinstance(lab, tuple):
    return None
  pol, t = lab
  if not (isinstance(t, ast.Compare) and len(t.ops) == 1):
    return None
  l, op, r = t.left, t.ops[0], t.comparators[0]
  lim = None
  if size_expr(l) and any(x in unparse(r) for x in LIMITS):
    lim = [x for x in LIMITS if x in unparse(r)][0]
    if (isinstance(op, ast.Lt) and pol == 'T') or (isinstance(op, ast.GtE) and pol == 'F'):
      return lim
  if size_expr(r) and any(x in unparse(l) for x in LIMITS):
    lim = [x for x in LIMITS if x in unparse(l)][0]
    if (isinstance(op, ast.Gt) and pol == 'T') or (isinstance(op, ast.LtE) and pol == 'F'):
      return lim
  return None


def full_snapshot(expr, cm, fn):
  """expr is a complete, ordered copy of the queue: list(self.queue) / tuple(self.queue) / self.queue.copy()"""
  if isinstance(expr, ast.Call) and isinstance(expr.func, ast.Name) and expr.func.id in ('list', 'tuple') and expr.args:
    return cm.is_queue_expr(expr.args[0], fn.module, fn)
  if isinstance(expr, ast.Call) and isinstance(expr.func, ast.Attribute) and expr.func.attr == 'copy':
    return cm.is_queue_expr(expr.func.value, fn.module, fn)
  return False


def _reinject_then_clear(cx, fn):
  """fn passes every element of a complete snapshot of self.queue to events.metricGenerated and clears the queue only
  after that loop is exhausted (decided on value terms: the queue may be held in a local)."""
  from ..rulelib import ValueNumbers
  vn = ValueNumbers(cx, fn)
  g = cx.cfg(fn)
  Q = ('attr', ('param', fn.params[0]), 'queue')
  SNAPS = (('call', 'list', Q), ('call', 'tuple', Q), ('meth', 'copy', Q))
  clears = [n for n in g.nodes for c in g.calls(n) if isinstance(c.func, ast.Attribute) and c.func.attr == 'clear' and
            vn.term(c.func.value, n) == Q]
  good = []
  for n in g.nodes:
    if n.kind == 'loop' and isinstance(n.owner, ast.For) and vn.term(n.owner.iter, n) in SNAPS:
      tgt = {x.id for x in ast.walk(n.owner.target) if isinstance(x, ast.Name)}
      gen = [c for c in ast.walk(n.owner) if isinstance(c, ast.Call) and (dotted(c.func) or '').endswith('metricGenerated')]
      passes = any(len(c.args) == 2 and all(isinstance(a, ast.Name) and a.id in tgt for a in c.args) for c in gen)
      if passes and not loop_exits(n.owner, (ast.Break, ast.Return, ast.Continue)):
        good.append(n)

  def exhausted(a, lab, b):
    return a in good and isinstance(lab, tuple) and lab[0] == 'F'
  return bool(clears) and bool(good) and all(c not in g.reach([g.entry], removed_edge=exhausted, normal_only=True) for c in clears)


def rule_reinject(check, cx, cm, rule):
  """every clear() of a send queue is preceded by re-injection of a full snapshot of it."""
  for op in [o for o in cm.ops if o.op == 'clear']:
    fn = op.fn
    g = cx.cfg(fn)
    cn = g.node_containing(op.node)
    if not cn:
      rule.cannot_decide('clear() site not in CFG of %s' % fn.qualname)
      continue
    cn = cn[0]
    # loops that pass each element of a full snapshot to events.metricGenerated
    good_loops = []
    for n in g.nodes:
      if n.kind == 'loop' and isinstance(n.owner, ast.For):
        it = n.owner.iter
        snap_ok = False
        if full_snapshot(it, cm, fn):
          snap_ok = True
        elif isinstance(it, ast.Name):
          rds = reaching_defs(g, it.id, n)
          vals = [value_assigned(d, it.id) for d in rds if d is not g.entry]
          snap_ok = bool(vals) and len(vals) == len(rds) and all(isinstance(v, ast.AST) and full_snapshot(v, cm, fn) for v in vals)
        gen = [c for c in ast.walk(n.owner) if isinstance(c, ast.Call) and (dotted(c.func) or '').endswith('metricGenerated')]
        tgt = {x.id for x in ast.walk(n.owner.target) if isinstance(x, ast.Name)}
        passes = any(len(c.args) == 2 and all(isinstance(a, ast.Name) and a.id in tgt for a in c.args) for c in gen)
        early = loop_exits(n.owner, (ast.Break, ast.Return, ast.Continue))
        if snap_ok and passes and not early:
          good_loops.append(n)
    # the clear must be reached only through the *exhausted* loop (its F edge)
    def exhausted(a, lab, b):
      return a in good_loops and isinstance(lab, tuple) and lab[0] == 'F'
    if good_loops and cn not in g.reach([g.entry], removed_edge=exhausted, normal_only=True):
      # nothing may be appended to / removed from the queue between snapshot and clear other than by the loop itself
      rule.ok('%s: queue cleared only after every element of list(queue) was re-injected' % fn.qualname, fn.loc(op.node))
    else:
      rule.violate('clear without full re-injection', fn, op.node, 'the send queue is cleared in %s() without every queued '
                   'datapoint having been passed to events.metricGenerated first (the loop must run over a complete '
                   'snapshot such as list(self.queue)): the remaining datapoints are lost uncounted' % fn.name)


def rule_sent(check, cx, cm, r_s):
  """every batch taken from the queue is sent whole, by the live connection, when not paused (shared with C15)."""
  repo = check.repo
  T = check.types
  fac, pro = cm.factory, cm.protocol
  take_sites = []
  for f in repo.all_functions():
    for c in [n for n in walk_no_nested(f.node, include_self=False) if isinstance(n, ast.Call)]:
      if cm.calls_factory_method(c, f, 'takeSomeFromQueue'):
        take_sites.append((f, c))
  for f, c in take_sites:
    par = getattr(c, '_parent', None)
    sent = isinstance(par, ast.Call) and isinstance(par.func, ast.Attribute) and par.func.attr == 'sendDatapointsNow' \
      and par.args and par.args[0] is c
    if not sent and isinstance(par, ast.Assign) and len(par.targets) == 1 and isinstance(par.targets[0], ast.Name):
      var = par.targets[0].id
      g = cx.cfg(f)
      uses = nodes_calling(g, lambda k: isinstance(k.func, ast.Attribute) and k.func.attr == 'sendDatapointsNow' and
                           k.args and isinstance(k.args[0], ast.Name) and k.args[0].id == var)
      dn = g.node_containing(c)
      if uses and dn and g.exit not in g.reach(g.after(dn[0]), removed_nodes=set(uses), normal_only=True):
        sent = True
    if sent:
      g = cx.cfg(f)
      dn = g.node_containing(c)[0]
      paused_guard = dn not in g.reach([g.entry], normal_only=True, removed_edge=lambda a, lab, b: isinstance(lab, tuple) and
                                       lab[0] == 'F' and (dotted(lab[1]) or '').endswith('paused'))
      if paused_guard:
        r_s.ok('%s: batch passed to sendDatapointsNow, only when not paused' % f.qualname, f.loc(c))
      else:
        r_s.violate('send while paused', f, c, 'a batch is taken from the queue and sent without `self.paused` having been '
                    'tested False: the transport asked us to stop producing')
    elif f.name == 'destinationDown' or any(o.op == 'clear' and cm.top_method(o.fn) is cm.top_method(f) for o in cm.ops):
      pass    # judged by R-C07-reinject (a bounded take is not a full snapshot)
    else:
      r_s.violate('taken but not sent', f, c, 'the batch returned by takeSomeFromQueue() in %s is not passed to '
                  'sendDatapointsNow(): popped datapoints are dropped' % f.qualname)
  sdn = pro.methods.get('sendDatapointsNow')
  if sdn is None:
    r_s.cannot_decide('CarbonClientProtocol.sendDatapointsNow not found')
  else:
    g = cx.cfg(sdn)
    p = sdn.params[1] if len(sdn.params) > 1 else None
    first = nodes_calling(g, lambda k: isinstance(k.func, ast.Attribute) and k.func.attr == '_sendDatapointsNow' and
                          len(k.args) == 1 and isinstance(k.args[0], ast.Name) and k.args[0].id == p)
    if first and g.exit not in g.reach([g.entry], removed_nodes=set(first), normal_only=True) and \
       reaching_defs(g, p, first[0]) == [g.entry]:
      r_s.ok('sendDatapointsNow hands the unmodified batch to _sendDatapointsNow on every path', sdn.loc())
    else:
      r_s.violate('batch not transmitted', sdn, None, 'sendDatapointsNow does not pass its (unmodified) batch to '
                  '_sendDatapointsNow on every path', construct='self._sendDatapointsNow(datapoints)')
  # only the live connection sends: protocol.sendQueued is never scheduled / called through a remembered protocol
  psq = pro.methods.get('sendQueued')
  for f in repo.all_functions():
    for c in [n for n in walk_no_nested(f.node, include_self=False) if isinstance(n, ast.Call)]:
      d = dotted(c.func) or ''
      if d.endswith('callLater') or d.endswith('callWhenRunning') or d.split('.')[-1] in ('LoopingCall', 'addCallback', 'addCallbacks'):
        for a in c.args:
          for t in T.expr_types(a, f.module, f):
            if t[0] == 'func' and psq is not None and t[1].name == 'sendQueued' and t[1].cls is not None and \
               repo.is_subclass(t[1].cls, pro):
              r_s.violate('stale connection captured in a timer', f, c, '`%s` schedules the sendQueued of a particular '
                          'connection object: if that connection is lost before the timer fires, it still pops batches '
                          'from the queue and writes them to the dead transport' % short(c))
      if psq is not None and isinstance(c.func, ast.Attribute) and c.func.attr == 'sendQueued' and f.cls is not None and \
         repo.is_subclass(f.cls, fac):
        # factory -> protocol.sendQueued : must test connectedProtocol at call time
        recv = c.func.value
        if (dotted(recv) or '').endswith('connectedProtocol'):
          g = cx.cfg(f)
          dn = g.node_containing(c)
          guarded = dn and dn[0] not in g.reach([g.entry], normal_only=True, removed_edge=lambda a, lab, b: isinstance(lab, tuple)
                                                and lab[0] == 'T' and (dotted(lab[1]) or '').endswith('connectedProtocol'))
          if guarded:
            r_s.ok('factory.sendQueued checks connectedProtocol when the timer fires', f.loc(c))
          else:
            r_s.violate('send without a live connection', f, c, 'connectedProtocol.sendQueued() is called without testing '
                        'that a connection exists')
  sched = fac.methods.get('scheduleSend')
  if sched is not None:
    cbs = []
    for c in [n for n in walk_no_nested(sched.node, include_self=False) if isinstance(n, ast.Call)]:
      if (dotted(c.func) or '').endswith('callLater') and len(c.args) >= 2:
        cbs.append(c)
        ts = T.expr_types(c.args[1], sched.module, sched)
        if any(t[0] == 'func' and t[1].cls is not None and repo.is_subclass(t[1].cls, fac) and t[1].name == 'sendQueued' for t in ts):
          r_s.ok('the deferred send is bound to the factory (resolved at fire time)', sched.loc(c))
    if not cbs:
      r_s.cannot_decide('scheduleSend no longer arms reactor.callLater')


def run(check):
  cx = Ctx(check)
  cm = ClientModel(cx)
  repo = check.repo
  T = check.types
  fac, pro = cm.factory, cm.protocol
  check.explanation = (
    'Ownership and path rules over carbon.client: the deque of a CarbonClientFactory is only touched through FIFO '
    'operations (append / popleft; appendleft only for self-metrics; clear only after full re-injection); every batch '
    'taken from the queue is passed whole to the connection\'s send routine, which only the live connection reaches; '
    'enqueueing is dominated by a size test against the hard limit; exactly one of enqueue / counted drop per datapoint; '
    'stopConnecting only from the queue-empty callback. Structural clauses, for every sequence of events.')
  check.not_decided = ['behaviour of a Twisted transport that is closing', 'duplicates across replicas after re-injection',
                       'timer ordering']
  check.trusted_base = ['collections.deque', 'twisted Deferred / reactor.callLater']
  for m in list(fac.methods.values()) + list(pro.methods.values()):
    check.analysed(m)

  # ------------------------------------------------------------------ FIFO ownership
  r_f = check.rule('R-C07-fifo', 5, 'the queue is only touched through FIFO operations in their owners')
  for op in cm.ops:
    top = cm.top_method(op.fn)
    where = top.qualname
    if op.op == 'rebind':
      if top.name == '__init__':
        r_f.ok('queue created in __init__', op.fn.loc(op.node))
      else:
        r_f.violate('queue replaced', op.fn, op.node, 'the send queue object is replaced in %s: datapoints queued in the old '
                    'deque are lost' % where)
    elif op.op == 'append':
      r_f.ok('append (tail) in %s' % where, op.fn.loc(op.node))
    elif op.op == 'popleft':
      r_f.ok('popleft (head) in %s' % where, op.fn.loc(op.node))
    elif op.op == 'appendleft':
      # reachable only from the self-metrics entry point
      callers = _callers_of(cx, top)
      names = {c.name for c in callers}
      if names <= {'sendHighPriorityDatapoint'} and names:
        r_f.ok('appendleft only via sendHighPriorityDatapoint (self-metrics jump the queue)', op.fn.loc(op.node))
      else:
        r_f.violate('appendleft reachable from ordinary traffic', op.fn, op.node, 'datapoints are put at the head of the send '
                    'queue from %s: arrival order is not kept' % (sorted(names) or where))
    elif op.op == 'clear':
      r_f.ok('clear in %s (re-injection checked by R-C07-reinject)' % where, op.fn.loc(op.node))
    else:
      r_f.violate('non-FIFO queue operation', op.fn, op.node, '`%s` removes or reorders queue elements other than at the '
                  'head: arrival order / exactly-once delivery is not kept' % short(op.node))
  # takeSomeFromQueue returns what it popped, in pop order
  tq = fac.methods.get('takeSomeFromQueue')
  if tq is None:
    r_f.cannot_decide('takeSomeFromQueue not found')
  else:
    from ..clientmodel import BatchShape
    bs = BatchShape(cx, tq)
    if not bs.problems:
      r_f.ok('takeSomeFromQueue returns exactly the popped items, in order', tq.loc())
    else:
      for node, msg in bs.problems[:3]:
        r_f.violate('batch differs from what was popped', tq, node, 'takeSomeFromQueue does not return the list of the items it popped '
                    'from the head of the queue, in pop order: %s' % msg)

  # ------------------------------------------------------------------ popped = sent, through the live connection
  r_s = check.rule('R-C07-sent', 3, 'every batch taken from the queue is sent whole, by the live connection, when not paused')
  rule_sent(check, cx, cm, r_s)

  # ------------------------------------------------------------------ counted drops reach the reported statistics
  r_cw = check.rule('R-C07-counter-window', 1, 'a drop counted while the statistics are being reported is not wiped: the counters are '
                    'copied and cleared in one step, before anything is reported')
  rm = repo.func('carbon.instrumentation', 'recordMetrics')
  check.analysed(rm)
  grm = cx.cfg(rm)
  copies = [n for n in grm.nodes if n.kind == 'stmt' and isinstance(n.ast, ast.Assign) and isinstance(n.ast.value, ast.Call) and
            isinstance(n.ast.value.func, ast.Attribute) and n.ast.value.func.attr == 'copy' and dotted(n.ast.value.func.value) == 'stats']
  clears = [n for n in grm.nodes if n.kind == 'stmt' and any(isinstance(c.func, ast.Attribute) and c.func.attr == 'clear' and
                                                                dotted(c.func.value) == 'stats' for c in grm.calls(n))]
  if len(copies) != 1 or len(clears) != 1:
    r_cw.cannot_decide('recordMetrics: expected one `stats.copy()` and one `stats.clear()`, found %d / %d' % (len(copies), len(clears)))
  else:
    # nothing that can call into the pipeline (and so count a drop into the live dict) runs between the copy and the clear
    between = [n for n in grm.reach(grm.after(copies[0], normal_only=True), removed_nodes={clears[0]}, normal_only=True)
               if n.kind in ('stmt', 'test') and n.ast is not None and n is not copies[0] and list(grm.calls(n))]
    if between:
      r_cw.violate('counters cleared late', rm, between[0].ast, '`%s` (and %d more statement(s) with calls) run between `stats.copy()` and '
                   '`stats.clear()`: reporting the relay\'s own metrics goes through the send queues, and a drop counted there while '
                   'recordMetrics runs is wiped by the late clear() before any period reports it' % (short(between[0].ast), len(between) - 1))
    elif clears[0] not in grm.reach(grm.after(copies[0], normal_only=True), normal_only=True):
      r_cw.violate('counters never cleared after the copy', rm, clears[0].ast, 'stats.clear() does not follow stats.copy()')
    else:
      r_cw.ok('stats copied and cleared back to back', rm.loc(copies[0].ast))

  # ------------------------------------------------------------------ bound / drop accounting
  r_b = check.rule('R-C07-bound', 2, 'ordinary datapoints are enqueued only below the hard limit')
  r_d = check.rule('R-C07-drop-counted', 1, 'exactly one of {enqueue, counted drop} per datapoint; drops only at the hard limit')
  enq_sites = []
  for f in repo.all_functions():
    for c in [n for n in walk_no_nested(f.node, include_self=False) if isinstance(n, ast.Call)]:
      if cm.calls_factory_method(c, f, 'enqueue'):
        enq_sites.append((f, c))
    # direct appends outside enqueue
  for o in cm.ops:
    if o.op == 'append' and cm.top_method(o.fn).name != 'enqueue':
      enq_sites.append((o.fn, o.node))
  from ..paths import PathExec, mentions

  def bounded_path(hit):
    """some decision on the path says `queue size < limit` (for one of the configured limits)"""
    def is_size(t):
      return isinstance(t, tuple) and ((t[0] == 'attr' and t[-1] == 'queueSize') or
                                       (t[0] == 'call' and t[1] == 'len' and len(t) == 3 and isinstance(t[2], tuple) and
                                        t[2][0] == 'attr' and t[2][-1] == 'queue'))

    def is_limit(t):
      return mentions(t, lambda x: isinstance(x, tuple) and ((x[0] == 'param' and x[1] in LIMITS) or
                                                            (x[0] == 'attr' and x[-1] in LIMITS)))
    for pol, t, a, n in hit.conds:
      if pol not in ('T', 'F') or not (isinstance(t, tuple) and t[0] == 'cmp'):
        continue
      op, l, r = t[1], t[2], t[3]
      if is_size(l) and is_limit(r) and ((op == 'Lt' and pol == 'T') or (op == 'GtE' and pol == 'F')):
        return True
      if is_size(r) and is_limit(l) and ((op == 'Gt' and pol == 'T') or (op == 'LtE' and pol == 'F')):
        return True
    return False
  for f, c in enq_sites:
    g = cx.cfg(f)
    dn = g.node_containing(c)
    if not dn:
      continue
    dn = dn[0]
    px = PathExec(cx, f, unroll=0, follow_exceptions=False)
    unbounded = [hit for hit in px.run([dn]) if not bounded_path(hit)]
    if px.truncated:
      r_b.cannot_decide('%s: too many paths to the enqueue' % f.qualname)
    elif not unbounded:
      r_b.ok('%s: every path to the enqueue passed a size test against the limit' % f.qualname, f.loc(c))
    else:
      callers = _callers_of(cx, cm.top_method(f), typed_only=True)
      if f.cls is not None and repo.is_subclass(f.cls, pro) and not callers:
        r_b.ok('%s: unguarded enqueue, but no caller resolves to it (dead entry point)' % f.qualname, f.loc(c),
               'becomes a violation as soon as a call site appears')
      else:
        r_b.violate('unbounded enqueue', f, c, 'a datapoint can be appended to the send queue without the queue size having '
                    'been tested against SEND_QUEUE_HARD_MAX / MAX_QUEUE_SIZE: the queue can grow beyond its hard limit',
                    path=unbounded[0].describe())
  sd = fac.methods.get('sendDatapoint')
  if sd is None:
    r_d.cannot_decide('CarbonClientFactory.sendDatapoint not found')
  else:
    g = cx.cfg(sd)
    enq = set(nodes_calling(g, lambda k: cm.calls_factory_method(k, sd, 'enqueue') or
                            (isinstance(k.func, ast.Attribute) and k.func.attr == 'append' and
                             cm.is_queue_expr(k.func.value, sd.module, sd))))
    drops = set(nodes_calling(g, lambda k: (isinstance(k.func, ast.Attribute) and k.func.attr == 'increment' and k.args and
                                            (dotted(k.args[0]) or '').endswith('fullQueueDrops'))))
    both = enq | drops
    # decided per path (sa/paths.py; flags that merely carry the outcome of the admission test are followed)
    px = PathExec(cx, sd, unroll=0, follow_exceptions=False)
    verdicts = set()

    def at_hard_limit(hit):
      """some decision on the path says `queue size >= SEND_QUEUE_HARD_MAX`"""
      for pol, t, a, n in hit.conds:
        if pol not in ('T', 'F') or not (isinstance(t, tuple) and t[0] == 'cmp'):
          continue
        op, l, r = t[1], t[2], t[3]
        l_lim = mentions(l, lambda x: x == ('param', 'SEND_QUEUE_HARD_MAX'))
        r_lim = mentions(r, lambda x: x == ('param', 'SEND_QUEUE_HARD_MAX'))
        if r_lim and ((op == 'GtE' and pol == 'T') or (op == 'Lt' and pol == 'F')):
          return True
        if l_lim and ((op == 'LtE' and pol == 'T') or (op == 'Gt' and pol == 'F')):
          return True
      return False
    for hit in px.run([g.exit]):
      seen_n = [n for n in hit.trail if n in both]
      if not seen_n:
        last = [x for x in hit.trail if x.ast is not None]
        verdicts.add(('silent', last[-1] if last else None))
      elif len(seen_n) > 1:
        verdicts.add(('twice', seen_n[0]))
      elif seen_n[0] in drops and not at_hard_limit(hit):
        verdicts.add(('below', seen_n[0]))
      elif seen_n[0] in drops:
        verdicts.add(('drop-ok', seen_n[0]))
    if px.truncated:
      r_d.cannot_decide('too many paths through sendDatapoint')
    for kind, n in sorted(verdicts, key=lambda v: (v[0], v[1].lineno if v[1] is not None else 0)):
      if kind == 'silent':
        r_d.violate('silent discard', sd, n.ast if n is not None else None, 'sendDatapoint can return without either enqueueing the '
                    'datapoint or incrementing fullQueueDrops')
      elif kind == 'twice':
        r_d.violate('double handling', sd, n.ast, 'a datapoint can be enqueued/counted twice in one sendDatapoint call')
      elif kind == 'below':
        r_d.violate('drop below the limit', sd, n.ast, 'a datapoint can be discarded although the queue is below '
                    'SEND_QUEUE_HARD_MAX')
      else:
        r_d.ok('drop only when the queue is at its hard limit', sd.loc(n.ast))
    if not any(v[0] in ('silent', 'twice') for v in verdicts):
      r_d.ok('every path enqueues the datapoint or counts a drop, exactly once', sd.loc())

  # ------------------------------------------------------------------ re-injection
  r_r = check.rule('R-C07-reinject', 1, rule_reinject.__doc__)
  rule_reinject(check, cx, cm, r_r)
  dd = fac.methods.get('destinationDown')
  if dd is not None:
    g = cx.cfg(dd)
    rm = nodes_calling(g, lambda k: isinstance(k.func, ast.Attribute) and k.func.attr == 'removeDestination')
    cl = [g.node_containing(o.node)[0] for o in cm.ops if o.op == 'clear' and cm.top_method(o.fn) is dd]
    gen = nodes_calling(g, lambda k: (dotted(k.func) or '').endswith('metricGenerated'))
    if rm and cl and gen:
      if all(x not in g.reach([g.entry], removed_nodes=set(rm), normal_only=True) for x in gen):
        r_r.ok('re-injection happens after the destination left the router', dd.loc(rm[0].ast))
      else:
        r_r.violate('re-injection before removal', dd, gen[0].ast, 'queued datapoints are re-injected while the dead destination '
                    'is still in the router: they are routed straight back into the queue that is about to be cleared')

  du = fac.methods.get('destinationUp')
  if du is not None:
    g = cx.cfg(du)
    adds = nodes_calling(g, lambda k: isinstance(k.func, ast.Attribute) and k.func.attr == 'addDestination')
    res = nodes_calling(g, lambda k: (dotted(k.func) or '').endswith('resumeReceivingMetrics'))
    for r_ in res:
      if adds and r_ not in g.reach([g.entry], removed_nodes=set(adds), normal_only=True):
        r_r.ok('destinationUp: the destination is back in the router before buffered datapoints are re-injected', du.loc(r_.ast))
      else:
        r_r.violate('re-injection before the destination is routable', du, r_.ast, 'resumeReceivingMetrics (whose handler re-injects the '
                    'datapoints buffered while no destination was usable) is fired before router.addDestination(): the re-injected '
                    'datapoints find no destination, land in the same buffer and are wiped by its clear()')
  ff = repo.module('carbon.client').classes.get('FakeClientFactory')
  if ff:
    rj = ff[0].methods.get('reinjectDatapoints')
    if rj is not None:
      if _reinject_then_clear(cx, rj):
        r_r.ok('the no-destination buffer is re-injected from a full snapshot before it is cleared', rj.loc())
      else:
        r_r.violate('no-destination buffer lost', rj, None, 'FakeClientFactory.reinjectDatapoints does not re-inject a full snapshot of '
                    'its queue before clearing it', construct='reinjectDatapoints')

  # ------------------------------------------------------------------ stop after empty
  # ------------------------------------------------------------------ per-connection pause state
  r_ps = check.rule('R-C07-pause-reset', 1, 'a pause requested by one connection\'s transport does not outlive that connection')
  flags = []
  for cls_, owner_of_self in ((pro, 'protocol'), (fac, 'factory')):
    pp = cls_.methods.get('pauseProducing')
    if pp is None:
      continue
    for n in walk_no_nested(pp.node, include_self=False):
      if isinstance(n, ast.Assign) and isinstance(n.value, ast.Constant) and n.value.value is True:
        for t in n.targets:
          d = dotted(t) or ''
          if d.startswith('self.factory.') and owner_of_self == 'protocol':
            flags.append(('factory', d.split('.')[-1], pp, n))
          elif d.startswith('self.') and d.count('.') == 1:
            flags.append((owner_of_self, d.split('.')[-1], pp, n))
  cmade = pro.methods.get('connectionMade')
  if not flags:
    r_ps.cannot_decide('no pauseProducing() that sets a pause flag found in the client protocol')
  elif cmade is None:
    r_ps.cannot_decide('CarbonClientProtocol.connectionMade not found')
  else:
    gcm = cx.cfg(cmade)
    for owner, attr, pp, n in flags:
      want = 'self.%s' % attr if owner == 'protocol' else 'self.factory.%s' % attr
      resets = {x for x in gcm.nodes if x.kind == 'stmt' and isinstance(x.ast, ast.Assign) and
                isinstance(x.ast.value, ast.Constant) and x.ast.value.value is False and any(dotted(t) == want for t in x.ast.targets)}
      if resets and gcm.exit not in gcm.reach([gcm.entry], removed_nodes=resets, normal_only=True):
        r_ps.ok('%s is cleared whenever a connection is made' % want, cmade.loc(sorted(resets, key=lambda x: x.lineno)[0].ast))
      else:
        r_ps.violate('pause flag survives the connection', pp, n, 'pauseProducing() sets `%s`, which connectionMade() does not clear: '
                     'when a connection is lost while its transport had the producer paused, resumeProducing() never comes, the '
                     'flag stays set (%s) and the queue of the next connection is never sent'
                     % (want, 'the factory outlives its connections' if owner == 'factory' else 'unless the protocol object is new'))

  r_e = check.rule('R-C07-stop-after-empty', 3, 'a destination is closed only after its queue has been transmitted')
  for f in repo.all_functions():
    for c in [n for n in walk_no_nested(f.node, include_self=False) if isinstance(n, ast.Call)]:
      if cm.calls_factory_method(c, f, 'stopConnecting'):
        ok = False
        # is f (a lambda, a nested function or a method) used only as the callback registered on queueEmpty?
        holders = [f.parent_fn] if f.parent_fn is not None else [m_ for m_ in (f.cls.methods.values() if f.cls is not None else [])]
        for h in holders:
          for k in [n for n in walk_no_nested(h.node, include_self=False) if isinstance(n, ast.Call)]:
            if isinstance(k.func, ast.Attribute) and k.func.attr in ('addCallback', 'addCallbacks') and \
               (dotted(k.func.value) or '').endswith('queueEmpty') and k.args:
              a0 = k.args[0]
              if a0 is f.node:
                ok = True
              elif isinstance(a0, ast.Name) and f.parent_fn is h and a0.id == f.name and not isinstance(f.node, ast.Lambda):
                ok = True
              elif isinstance(a0, ast.Attribute) and isinstance(a0.value, ast.Name) and a0.value.id == 'self' and \
                  f.parent_fn is None and a0.attr == f.name:
                ok = True
        if ok and not isinstance(f.node, ast.Lambda):
          # a named callback must not be called directly anywhere
          direct = [1 for h in repo.all_functions() for k in walk_no_nested(h.node, include_self=False)
                    if isinstance(k, ast.Call) and ((isinstance(k.func, ast.Name) and k.func.id == f.name and f.parent_fn is not None and
                                                     (h is f.parent_fn or h.parent_fn is f.parent_fn)) or
                                                    (isinstance(k.func, ast.Attribute) and k.func.attr == f.name and f.parent_fn is None))]
          ok = not direct
        if ok:
          r_e.ok('stopConnecting only as the queueEmpty callback', f.loc(c))
        else:
          r_e.violate('stop before the queue is empty', f, c, 'stopConnecting() is called from %s, not from the queueEmpty '
                      'callback: the connection can be closed with datapoints still queued' % f.qualname)
  cq = fac.methods.get('checkQueue')
  if cq is None:
    r_e.cannot_decide('checkQueue not found')
  else:
    g = cx.cfg(cq)
    fires = nodes_calling(g, lambda k: isinstance(k.func, ast.Attribute) and k.func.attr == 'callback' and
                          (dotted(k.func.value) or '').endswith('queueEmpty'))
    for n in fires:
      if n not in g.reach([g.entry], normal_only=True, removed_edge=lambda a, lab, b: isinstance(lab, tuple) and (
          (lab[0] == 'F' and cm.is_queue_expr(lab[1], cq.module, cq)) or
          (lab[0] == 'F' and isinstance(lab[1], ast.Call) and (dotted(lab[1].func) or '').endswith('hasQueuedDatapoints')))):
        r_e.ok('queueEmpty fired only when the queue is empty', cq.loc(n.ast))
      else:
        r_e.violate('queueEmpty fired with data queued', cq, n.ast, 'queueEmpty.callback() is reachable without the queue '
                    'having been tested empty')
    if not fires:
      r_e.cannot_decide('checkQueue does not fire queueEmpty')
  dis = fac.methods.get('disconnect')
  if dis is not None:
    g = cx.cfg(dis)
    cqs = nodes_calling(g, lambda k: cm.calls_factory_method(k, dis, 'checkQueue'))
    if cqs and g.exit not in g.reach([g.entry], removed_nodes=set(cqs), normal_only=True):
      r_e.ok('disconnect() checks the queue on every path', dis.loc(cqs[0].ast))
    else:
      r_e.violate('disconnect without queue check', dis, None, 'CarbonClientFactory.disconnect can return without calling '
                  'checkQueue(): an already empty queue never triggers the stop', construct='self.checkQueue()')
  # every successful send re-checks for emptiness
  sdn = pro.methods.get('sendDatapointsNow')
  if sdn is not None:
    g = cx.cfg(sdn)
    cqs = nodes_calling(g, lambda k: cm.calls_factory_method(k, sdn, 'checkQueue'))
    if cqs and g.exit not in g.reach([g.entry], removed_nodes=set(cqs), normal_only=True):
      r_e.ok('every send is followed by checkQueue()', sdn.loc(cqs[0].ast))
    else:
      r_e.violate('send without queue check', sdn, None, 'sendDatapointsNow does not call factory.checkQueue() after sending: '
                  'an orderly stop waiting for the queue to drain never completes', construct='self.factory.checkQueue()')
  rule_route_live(check, cx, check.rule('R-C07-route-live', 2, 'every datapoint is routed by the router as it is now (no route memo on the manager)'))


def _callers_of(cx, fn, typed_only=False):
  out = []
  for f in cx.repo.all_functions():
    for c in [n for n in walk_no_nested(f.node, include_self=False) if isinstance(n, ast.Call)]:
      if isinstance(c.func, (ast.Attribute, ast.Name)) and (getattr(c.func, 'attr', None) == fn.name or
                                                           getattr(c.func, 'id', None) == fn.name):
        cs, how = cx.callees(c, f)
        if typed_only and how != 'resolved':
          continue
        if any(k.key == fn.key for k, _ in cs):
          out.append(cx.repo.enclosing_function(f.module, c) or f)
  return out


def rule_route_live(check, cx, rule):
  """the manager asks the router for every datapoint: getFactories / sendDatapoint keep no memo of earlier routing decisions.
  A destination declared down removes itself from the router (CarbonClientFactory.destinationDown) without the manager
  hearing of it, so a remembered route sends re-injected datapoints back into the queue that is about to be cleared."""
  from .c05 import rule_pure
  mgr = check.repo.cls('carbon.client', 'CarbonClientManager')
  fns = [mgr.methods[k] for k in ('getFactories', 'sendDatapoint') if mgr is not None and k in mgr.methods]
  if rule.require(len(fns) == 2, 'CarbonClientManager.getFactories / sendDatapoint not found'):
    rule_pure(check, rule, fns)
