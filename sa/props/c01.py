"""C01 - Well-formed datapoints are ingested exactly, however the byte stream is cut.

Decided: (dispatch) each parsed item is handed to metricReceived exactly once,
synchronously, iterating the frame's items in wire order; (routing) the decoder
field routing is the inverse of the client encoder (sibling agreement between
the two plaintext receivers); (stateless) the receivers do not implement
framing themselves and keep no per-connection parse state, so the result of a
frame cannot depend on how earlier bytes were cut.
Not decided: Twisted's framing; float() exactness.
"""
import ast
import glob
import os

from ..model import dotted, unparse, norm, walk_no_nested, loop_of
from ..rulelib import Ctx, nodes_calling, reaching_defs, value_assigned, short
from ..symeval import SymEval, alternatives, show
from .c15 import decoder_routes, sinkname

CALLBACKS = ('lineReceived', 'datagramReceived', 'stringReceived')
FRAMING = ('dataReceived', 'makeConnection', 'clearLineBuffer', 'setRawMode', 'setLineMode', 'rawDataReceived',
           'lengthLimitExceeded', 'doRead')
FRAMING_STATE = ('_buffer', '_unprocessed', '_compatibilityOffset', 'recvd', '_busyReceiving', 'line_mode')
DEFERRERS = ('callLater', 'callFromThread', 'callInThread', 'deferToThread', 'callWhenRunning', 'LoopingCall', 'deferLater')
ORDER_BREAKERS = ('sorted', 'reversed', 'set', 'frozenset', 'filter', 'islice', 'shuffle', 'sample')


def receivers(check):
  base = check.repo.cls('carbon.protocols', 'MetricReceiver')
  return base, [c for c in check.repo.subclasses(base) if c.module.name == 'carbon.protocols']


def _twisted_basic():
  for pat in ('/venv/lib/python3*/site-packages/twisted/protocols/basic.py',
              '/usr/lib/python3*/site-packages/twisted/protocols/basic.py',
              '/usr/lib/python3/dist-packages/twisted/protocols/basic.py'):
    for p in sorted(glob.glob(pat)):
      return p
  return None


def run(check):
  cx = Ctx(check)
  se = SymEval(cx)
  repo, T = check.repo, check.types
  check.explanation = (
    'Three structural clauses. Dispatch: on the CFG of each receiver callback (following self-calls), every loop over the '
    'items of a frame iterates the wire order unmodified (no sort/slice/filter), dispatches each parsed item to '
    'self.metricReceived at most once per iteration and synchronously (nothing is scheduled for later), and metricReceived '
    'fires events.metricReceived exactly once. Routing: symbolic terms show the decoders route fields exactly inversely to the '
    'client encoders, both plaintext receivers agree, and the only value conversion is float(). Stateless: carbon does not '
    'override Twisted\'s framing (dataReceived etc.), the delimiter is b"\\n", decode is applied to complete frames only, and '
    'the callbacks store nothing on the connection - so segmentation cannot influence the result. Twisted framing and float() '
    'are trusted.')
  check.not_decided = ['that Twisted\'s LineOnlyReceiver/IntNStringReceiver framing is correct for every cut',
                       'that float() maps the client\'s text to the same double', 'UDP datagram boundaries']
  check.trusted_base = ['twisted.protocols.basic.LineOnlyReceiver / Int32StringReceiver', 'CPython float()']
  base, subs = receivers(check)
  cbs = [(c, c.methods[n]) for c in subs for n in CALLBACKS if n in c.methods]

  # ------------------------------------------------------------------ dispatch
  r_d = check.rule('R-C01-dispatch', 4, 'each parsed item is dispatched exactly once, synchronously, in wire order')
  r_d.require(len(cbs) >= 3, 'expected the line, UDP and pickle callbacks, found %d' % len(cbs))
  for cls, m in cbs:
    check.analysed(m)
    # functions of this class reachable from the callback through self-calls
    reach = [m]
    todo = [m]
    while todo:
      f = todo.pop()
      for c in [n for n in walk_no_nested(f.node, include_self=False) if isinstance(n, ast.Call)]:
        if isinstance(c.func, ast.Attribute) and isinstance(c.func.value, ast.Name) and c.func.value.id == 'self':
          cs, how = cx.callees(c, f)
          for callee, _ in cs:
            if how == 'resolved' and callee.cls is not None and callee.module.name == 'carbon.protocols' and \
               callee not in reach and callee.name != 'metricReceived':
              reach.append(callee)
              todo.append(callee)
    label = '%s.%s' % (cls.name, m.name)
    dispatched = False
    for f in reach:
      g = cx.cfg(f)
      disp = nodes_calling(g, lambda c: isinstance(c.func, ast.Attribute) and c.func.attr == 'metricReceived' and
                           isinstance(c.func.value, ast.Name) and c.func.value.id == 'self')
      # nothing is deferred
      for c in [n for n in walk_no_nested(f.node, include_self=False) if isinstance(n, ast.Call)]:
        d = dotted(c.func) or ''
        if d.split('.')[-1] in DEFERRERS:
          r_d.violate('%s defers work' % label, f, c, '`%s` schedules part of the frame for later: frames that arrive in the same '
                      'read are then dispatched before the deferred remainder (order), and a stop before the timer fires loses it'
                      % short(c))
      if not disp:
        continue
      dispatched = True
      for dn in disp:
        loops = [n for n in g.nodes if n.kind == 'loop' and n.owner is not None and dn in g.in_loop_nodes(n.owner)]
        if not loops:
          # one item per frame: exactly once on the success path
          if any(d2 in g.reach(g.after(dn), normal_only=True) for d2 in disp):
            r_d.violate('%s dispatches twice' % label, f, dn.ast, 'a parsed datapoint can be dispatched twice')
          else:
            r_d.ok('%s: one frame = one item, dispatched once' % label, f.loc(dn.ast))
          continue
        inner = loops[-1]
        lp = inner.owner
        inside = g.in_loop_nodes(lp)
        outside = set(g.nodes) - inside
        # at most once per iteration
        again = [d2 for d2 in disp if d2 in g.reach(g.after(dn), removed_nodes=outside | {inner}, normal_only=True)]
        if again:
          r_d.violate('%s dispatches an item twice' % label, f, again[0].ast, 'within one iteration an item can reach '
                      'self.metricReceived twice')
        # iteration order and completeness
        if isinstance(lp, ast.For):
          verdict, why = _wire_order(g, inner, lp.iter, f)
          if verdict == 'ok':
            r_d.ok('%s: items iterated in wire order (%s)' % (label, why), f.loc(lp))
          elif verdict == 'bad':
            r_d.violate('%s iteration order' % label, f, lp, 'the items of a frame are not iterated as they arrived: %s' % why)
          else:
            r_d.cannot_decide('%s: iterable `%s` not recognised (%s)' % (label, unparse(lp.iter), why))
        else:
          r_d.cannot_decide('%s: items are dispatched from a while loop' % label)
        # the loop is left only when exhausted (or by the whole-frame rejection before it)
        for x in walk_no_nested(lp, include_self=False):
          if isinstance(x, ast.Break) and loop_of(x) is not lp:
            continue
          if isinstance(x, (ast.Break, ast.Return)) and not isinstance(getattr(x, '_parent', None), ast.ExceptHandler):
            hp = x
            in_handler = False
            while hp is not None and hp is not lp:
              if isinstance(hp, ast.ExceptHandler):
                in_handler = True
              hp = getattr(hp, '_parent', None)
            if not in_handler:
              r_d.violate('%s leaves the item loop early' % label, f, x, '`%s` ends the loop over the items of a frame before all '
                          'of them were dispatched' % type(x).__name__.lower())
    if not dispatched:
      r_d.violate('%s never dispatches' % label, m, None, '%s does not hand parsed items to self.metricReceived' % label,
                  construct='self.metricReceived(...)')
  # metricReceived fires the pipeline event exactly once per admitted datapoint (drops are C12)
  mr = base.methods.get('metricReceived')
  if mr is not None:
    g = cx.cfg(mr)
    emits = nodes_calling(g, lambda c: T.event_origin(c.func, mr.module, mr) == 'carbon.events.metricReceived')
    in_loop = [e for e in emits if any(e in g.in_loop_nodes(n.owner) for n in g.nodes if n.kind == 'loop' and n.owner is not None)]
    twice = [e for e in emits if any(e2 in g.reach(g.after(e), normal_only=True) for e2 in emits)]
    if emits and not in_loop and not twice:
      r_d.ok('metricReceived fires events.metricReceived once, outside any loop', mr.loc(emits[0].ast))
    else:
      r_d.violate('pipeline event fired != once', mr, (in_loop or twice or [None])[0].ast if (in_loop or twice) else None,
                  'MetricReceiver.metricReceived does not fire events.metricReceived exactly once per admitted datapoint',
                  construct='events.metricReceived(metric, datapoint)')

  # ------------------------------------------------------------------ the admitted datapoint is passed on as parsed
  from .c12 import rule_normalisation
  r_p = check.rule('R-C01-admission-passthrough', 3, 'metricReceived passes name, timestamp and value on unchanged (apart from the '
                   'two documented normalisations)')
  rule_normalisation(check, cx, r_p)
  # ------------------------------------------------------------------ text encoding of pickled names
  r_e = check.rule('R-C01-pickle-encoding', 1, '8-bit strings of python2 clients are decoded as UTF-8, the encoding clients use')
  for sc in repo.module('carbon.util').classes.get('SafeUnpickler', []):
    if not any(b.split('.')[-1] in ('Unpickler', '_Unpickler') for b in sc.base_names):
      continue      # the cPickle (python2) variant has no text decoding step
    loads = sc.methods.get('loads')
    if loads is None:
      r_e.cannot_decide('SafeUnpickler.loads not found')
      continue
    ctors = [c for c in walk_no_nested(loads.node, include_self=False) if isinstance(c, ast.Call) and
             isinstance(c.func, ast.Name) and loads.params and c.func.id == loads.params[0]]
    if not ctors:
      check.notes.append('SafeUnpickler.loads builds no unpickler of its own (judged by R-C01-frame-local)')
      r_e.ok('no per-frame construction to judge', loads.loc())
    for c in ctors:
      enc = next((kw.value for kw in c.keywords if kw.arg == 'encoding'), None)
      if enc is None:
        # cls(stream, **OPTIONS) with OPTIONS a dict literal bound once at module level
        for kw in c.keywords:
          if kw.arg is None and isinstance(kw.value, ast.Name):
            vals = loads.module.globals.get(kw.value.id, [])
            if len(vals) == 1 and isinstance(vals[0], ast.Dict):
              for k_, v_ in zip(vals[0].keys, vals[0].values):
                if isinstance(k_, ast.Constant) and k_.value == 'encoding':
                  enc = v_
      if isinstance(enc, ast.Constant) and str(enc.value).lower().replace('-', '') == 'utf8':
        r_e.ok('unpickler built with encoding="utf-8"', loads.loc(c))
      else:
        r_e.violate('pickled names decoded with the wrong encoding', loads, c, 'the unpickler is built with encoding=%s: metric names '
                    'pickled as 8-bit strings by python2 clients (UTF-8 bytes) are decoded as ASCII, so a non-ASCII name makes the '
                    'whole frame fail and be dropped' % (unparse(enc) if enc is not None else 'the default (ASCII)'))

  # ------------------------------------------------------------------ pickle frames are decoded independently of each other
  from .c11 import rule_frame_local
  r_fl = check.rule('R-C01-frame-local', 1, rule_frame_local.__doc__)
  rule_frame_local(check, cx, r_fl)

  # ------------------------------------------------------------------ routing
  r_r = check.rule('R-C01-routing', 3, 'metric, timestamp and value are routed to the positions the client encoded them in')
  text = {}
  for cls, m in cbs:
    routes = decoder_routes(cx, se, m)
    label = '%s.%s' % (cls.name, m.name)
    if routes is None:
      r_r.cannot_decide('%s: call of self.metricReceived not found by the shape evaluator' % label)
      continue
    ms, d0, d1, calls = routes
    convs = {x for x in d0 | d1 if isinstance(x, tuple) and x and x[0] == 'conv'}
    d0 = {x for x in d0 if x not in convs}
    d1 = {x for x in d1 if x not in convs}
    if convs:
      r_r.violate('%s value conversion' % label, m, None, 'timestamp/value are converted with %s: the only value-preserving '
                  'conversion of the wire text is float()' % sorted(c[1] for c in convs), construct='conversion in %s' % label)
    if m.name in ('lineReceived', 'datagramReceived'):
      text[label] = (ms, d0, d1)
      want = ({('split', 0)}, {('split', 2)}, {('split', 1)})
    else:
      want = ({(0,)}, {(1, 0)}, {(1, 1)})
    if (ms, d0, d1) == want:
      r_r.ok('%s: metric/timestamp/value <- %s' % (label, [sorted(x) for x in want]), m.loc())
    else:
      r_r.violate('%s field routing' % label, m, None, 'metric / datapoint[0] / datapoint[1] are taken from %s / %s / %s, the '
                  'client encodes them at %s / %s / %s' % (sorted(map(str, ms)), sorted(map(str, d0)), sorted(map(str, d1)),
                                                           sorted(want[0]), sorted(want[1]), sorted(want[2])),
                  construct='field routing of %s' % label)
  if len(text) == 2:
    a, b = list(text.values())
    if a == b:
      r_r.ok('sibling agreement: TCP and UDP plaintext receivers route identically', 'lib/carbon/protocols.py')
    else:
      r_r.violate('plaintext receivers disagree', 'carbon.protocols:<module>', None, 'the TCP and UDP plaintext receivers route '
                  'fields differently: %s' % text, construct='sibling agreement')

  # ------------------------------------------------------------------ stateless / framing left to Twisted
  r_s = check.rule('R-C01-stateless', 5, 'framing is Twisted\'s; receivers keep no parse state across frames')
  for cls in [base] + subs:
    for name in FRAMING:
      if name in cls.methods:
        r_s.violate('%s implements framing' % cls.name, cls.methods[name], None, '%s overrides %s(): carbon re-implements the '
                    'splitting of the byte stream into frames, so the result can depend on how TCP cut the stream'
                    % (cls.name, name), construct='def %s' % name)
    for a in FRAMING_STATE:
      if a in cls.attrs:
        r_s.violate('%s overrides framing state' % cls.name, cls.key, None, '%s sets the framing attribute %s' % (cls.name, a),
                    construct='%s.%s' % (cls.name, a))
    for mname, m in cls.methods.items():
      for n in walk_no_nested(m.node, include_self=False):
        if isinstance(n, ast.Attribute) and isinstance(n.value, ast.Name) and n.value.id == 'self' and n.attr in FRAMING_STATE:
          r_s.violate('%s touches the framing buffer' % cls.name, m, n, '%s.%s uses self.%s, the framing buffer of the Twisted '
                      'base class' % (cls.name, mname, n.attr))
  line = next((c for c in subs if 'lineReceived' in c.methods), None)
  if line is not None:
    d = line.attrs.get('delimiter')
    if d is not None and isinstance(d, ast.Constant) and d.value == b'\n':
      r_s.ok('line delimiter is the single byte b"\\n"', '%s:%d' % (line.module.relpath, d.lineno))
    else:
      r_s.violate('line delimiter', line.key, None, 'MetricLineReceiver.delimiter is %s, clients terminate lines with "\\n"'
                  % (unparse(d) if d is not None else 'Twisted\'s default b"\\r\\n"'), construct='delimiter')
    bases_ok = 'LineOnlyReceiver' in line.base_names
    if bases_ok:
      r_s.ok('MetricLineReceiver frames with twisted LineOnlyReceiver', line.module.relpath)
    else:
      r_s.violate('line framing base', line.key, None, 'MetricLineReceiver no longer derives from LineOnlyReceiver (bases: %s)'
                  % line.base_names, construct='bases of MetricLineReceiver')
  pick = next((c for c in subs if c.name == 'MetricPickleReceiver'), None)
  if pick is not None:
    if 'Int32StringReceiver' in pick.base_names:
      r_s.ok('MetricPickleReceiver frames with twisted Int32StringReceiver', pick.module.relpath)
    else:
      r_s.violate('pickle framing base', pick.key, None, 'MetricPickleReceiver no longer derives from Int32StringReceiver',
                  construct='bases of MetricPickleReceiver')
  # no per-connection parse state written by the callbacks / metricReceived
  for cls, m in cbs + ([(base, base.methods['metricReceived'])] if 'metricReceived' in base.methods else []):
    writes = []
    for n in walk_no_nested(m.node, include_self=False):
      if isinstance(n, (ast.Assign, ast.AugAssign)):
        for t in (n.targets if isinstance(n, ast.Assign) else [n.target]):
          for x in ast.walk(t):
            if isinstance(x, ast.Attribute) and isinstance(x.value, ast.Name) and x.value.id == 'self' and \
               isinstance(x.ctx, ast.Store):
              writes.append((n, x.attr))
    if writes:
      n, a = writes[0]
      r_s.violate('%s.%s keeps state' % (cls.name, m.name), m, n, '%s.%s stores self.%s: parse state that survives a frame lets the '
                  'outcome depend on how the stream was cut into frames/segments' % (cls.name, m.name, a))
    else:
      r_s.ok('%s.%s writes no attribute of the connection' % (cls.name, m.name), m.loc())
  # decode is applied to the complete frame / line only
  tb = _twisted_basic()
  if tb is None:
    check.notes.append('twisted source not found: LineOnlyReceiver/IntNStringReceiver.dataReceived not inspected (trusted)')
  else:
    try:
      tree = ast.parse(open(tb).read())
      found = {}
      for c in [n for n in tree.body if isinstance(n, ast.ClassDef)]:
        for f in [n for n in c.body if isinstance(n, ast.FunctionDef) and n.name == 'dataReceived']:
          calls = {x.func.attr for x in ast.walk(f) if isinstance(x, ast.Call) and isinstance(x.func, ast.Attribute)}
          found[c.name] = calls
      # state the framing classes keep on the instance (self.X / class-level X): a receiver that stores an attribute of
      # the same name steers Twisted's frame loop without meaning to (`paused` stops IntNStringReceiver.dataReceived)
      tw_state = set()
      for c in [n for n in tree.body if isinstance(n, ast.ClassDef) and n.name in (
          'LineOnlyReceiver', 'IntNStringReceiver', 'Int32StringReceiver', '_PauseableMixin', '_RecvdCompatHack', 'LineReceiver')]:
        for st in c.body:
          if isinstance(st, (ast.Assign, ast.AnnAssign)):
            for t in (st.targets if isinstance(st, ast.Assign) else [st.target]):
              if isinstance(t, ast.Name):
                tw_state.add(t.id)
        for f in [n for n in c.body if isinstance(n, ast.FunctionDef)]:
          for x in ast.walk(f):
            if isinstance(x, ast.Attribute) and isinstance(x.ctx, ast.Store) and isinstance(x.value, ast.Name) and x.value.id == 'self':
              tw_state.add(x.attr)
      tw_state -= {'MAX_LENGTH', 'delimiter'}          # the two documented knobs (judged on their own)
      clash = []
      for cls in [base] + subs:
        for a in cls.attrs:
          if a in tw_state:
            clash.append((cls, None, a))
        for mname, m in cls.methods.items():
          for x in walk_no_nested(m.node, include_self=False):
            if isinstance(x, ast.Attribute) and isinstance(x.ctx, ast.Store) and isinstance(x.value, ast.Name) and m.params and \
               x.value.id == m.params[0] and x.attr in tw_state:
              clash.append((cls, m, x.attr))
      for cls, m, a in clash:
        r_s.violate('%s shadows Twisted framing state' % cls.name, m if m is not None else cls.key, None, '%s stores an attribute named `%s`, '
                    'which the Twisted framing base classes use for their own state (%s): the frame loop of dataReceived then stops or '
                    'skips depending on it, so complete frames of a segment can stay undelivered'
                    % (cls.name, a, ', '.join(sorted(tw_state))[:120]), construct='%s.%s' % (cls.name, a))
      if tw_state and not clash:
        r_s.ok('no receiver attribute shadows Twisted framing state (%d names checked)' % len(tw_state), tb)
      if 'lineReceived' in found.get('LineOnlyReceiver', ()) and 'stringReceived' in found.get('IntNStringReceiver', ()):
        r_s.ok('twisted: LineOnlyReceiver.dataReceived -> lineReceived, IntNStringReceiver.dataReceived -> stringReceived',
               tb)
      else:
        check.notes.append('twisted basic.py parsed but dataReceived -> callback not recognised: %s' % sorted(found))
    except Exception as e:  # pragma: no cover
      check.notes.append('twisted basic.py could not be parsed: %s' % e)
  rule_handler_isolation(check, cx, check.rule('R-C01-handler-isolation', 1, 'Event.__call__ isolates each subscriber: a raising handler does not keep later handlers (the pipeline) from seeing the datapoint'))


def _wire_order(g, loop_node, it, fn):
  """is the loop iterable the frame's item sequence, unmodified?"""
  def bad_call(e):
    for x in ast.walk(e):
      if isinstance(x, ast.Call):
        nm = (dotted(x.func) or '').split('.')[-1]
        if nm in ORDER_BREAKERS:
          return 'goes through %s()' % nm
      if isinstance(x, ast.Subscript) and isinstance(x.slice, ast.Slice):
        return 'is sliced (`%s`)' % unparse(x)
      if isinstance(x, (ast.ListComp, ast.GeneratorExp)) and any(gg.ifs for gg in x.generators):
        return 'is filtered (`%s`)' % short(x, 50)
    return None
  b = bad_call(it)
  if b:
    return 'bad', 'the iterable %s' % b
  if isinstance(it, ast.Call) and isinstance(it.func, ast.Attribute) and it.func.attr in ('splitlines', 'split'):
    return 'ok', unparse(it)
  if isinstance(it, ast.Attribute):
    return 'ok', unparse(it)
  if isinstance(it, ast.Name):
    rds = reaching_defs(g, it.id, loop_node)
    whys = []
    for d in rds:
      if d is g.entry:
        whys.append('parameter %s' % it.id)
        continue
      v = value_assigned(d, it.id)
      if not isinstance(v, ast.AST):
        return 'unknown', 'definition at line %d' % d.lineno
      b = bad_call(v)
      if b:
        return 'bad', '`%s = %s` %s' % (it.id, short(v, 50), b)
      whys.append(short(v, 40))
    return 'ok', '; '.join(whys)
  if isinstance(it, ast.Call) and isinstance(it.func, ast.Name) and it.func.id in ('list', 'tuple', 'iter', 'enumerate') and it.args:
    return _wire_order(g, loop_node, it.args[0], fn)
  return 'unknown', 'expression kind %s' % type(it).__name__


def rule_handler_isolation(check, cx, rule):
  """Event.__call__ delivers to every subscriber although an earlier one raised: the call of each handler sits in a try
  INSIDE the loop over the handlers whose catch-all clause neither re-raises nor leaves the loop.  (The pipeline is one
  subscriber of metricReceived among others, registered after the default and the plugin handlers.)"""
  fn = cx.fn('carbon.events', 'Event.__call__')
  if not rule.require(fn is not None, 'carbon.events.Event.__call__ not found'):
    return
  from ..rulelib import resolve_copies
  loops = [l for l in ast.walk(fn.node) if isinstance(l, ast.For) and
           any('handlers' in unparse(e) for e in [l.iter] + [x for x in resolve_copies(fn, l.iter) if isinstance(x, ast.AST)])]
  if not rule.require(len(loops) == 1, 'expected one loop over self.handlers in Event.__call__, found %d' % len(loops)):
    return
  loop = loops[0]
  tnames = {x.id for x in ast.walk(loop.target) if isinstance(x, ast.Name)}
  calls = [c for c in ast.walk(loop) if isinstance(c, ast.Call) and isinstance(c.func, ast.Name) and c.func.id in tnames]
  if not rule.require(bool(calls), 'the loop over the handlers does not call the handler'):
    return
  for c in calls:
    node, ok, why = c, False, 'the handler call is not inside a try within the loop'
    while node is not loop:
      par = node._parent
      if isinstance(par, ast.Try) and any(node is s for s in par.body):
        for h in par.handlers:
          ts = [None] if h.type is None else ([unparse(e) for e in h.type.elts] if isinstance(h.type, ast.Tuple) else [unparse(h.type)])
          if any(t is None or t in ('Exception', 'BaseException') for t in ts):
            leaves = [x for s in h.body for x in walk_no_nested(s) if isinstance(x, (ast.Raise, ast.Break, ast.Return))]
            if leaves:
              why = 'the catch-all clause leaves the loop (`%s`)' % short(leaves[0], 30)
            else:
              ok = True
      node = par
    if ok:
      rule.ok('handler call isolated per handler', fn.loc(c), short(c, 40))
    else:
      rule.violate('a failing subscriber ends the dispatch', fn, c, '%s: when one subscriber of an event raises, the '
                   'subscribers registered after it (the processing pipeline among them) never see that datapoint' % why)
