"""C15 - What a relay's client encodes is what the next daemon's listener decodes.

Decided with the symbolic shape evaluator: encoder and decoder agree on field
positions (their composition is the identity on positions); the plaintext value
is formatted fixed-point with precision >= 10 (error <= 5e-11) on every branch,
integers and the timestamp with %d; one independent frame per batch, one line
per datapoint in list order; batches are popped in order, at most
MAX_DATAPOINTS_PER_MESSAGE at a time.  Not decided: the numeric round trip.
"""
import ast

from ..model import dotted, unparse, norm, walk_no_nested
from ..rulelib import Ctx, short
from ..symeval import SymEval, alternatives, fmt_specs, show, walk_term

VALUE_PRESERVING_METHODS = {'strip', 'rstrip', 'lstrip', 'encode', 'decode'}


def sinkname(names):
  return lambda call: (call.func.attr if isinstance(call.func, ast.Attribute) and call.func.attr in names else None)


def source_path(t, root_pred):
  """index path from the item root (an ('elem', X) or param term accepted by root_pred) to the core of term t,
  looking through value-preserving wrappers; (path, wrappers) or None."""
  wrappers = []
  while True:
    if t is None:
      return None
    k = t[0]
    if root_pred(t):
      return (), wrappers
    if k == 'call' and t[1] in ('float', 'int', 'str') and len(t) >= 3:
      wrappers.append(t[1])
      t = t[2]
    elif k == 'meth' and t[1] in VALUE_PRESERVING_METHODS:
      wrappers.append('.' + t[1])
      t = t[2]
    elif k == 'fmt' and len(t) == 3:
      wrappers.append('fmt:' + t[1])
      t = t[2]
    elif k in ('field', 'sub') and isinstance(t[2], int):
      inner = source_path(t[1], root_pred)
      if inner is None:
        return None
      return inner[0] + (t[2],), inner[1] + wrappers
    else:
      return None


def line_encoder(cx, se):
  """(fn, send calls, field sources, value specs): field i of the line <- source path in the (metric, datapoint) item."""
  fn = cx.fn('carbon.client', 'CarbonLineClientProtocol._sendDatapointsNow')
  out = []
  se.run(fn.body, {}, fn, sinkname({'sendLine', 'sendString', 'write'}), out)
  sends = [o for o in out if o[0] != '<return>']
  return fn, sends


def is_item_root(t):
  return t[0] == 'elem'


def run(check):
  cx = Ctx(check)
  se = SymEval(cx)
  repo = check.repo
  check.explanation = (
    'Symbolic shape evaluation (terms, no solver) of the client encoders and the listener decoders: the plaintext encoder '
    'emits one line `<metric> <value> <timestamp>` per queued datapoint in list order, the decoder routes field 0/1/2 back to '
    'metric / datapoint[1] / datapoint[0], so the composition is the identity on positions; every float conversion spec '
    'applied to the value is fixed-point with precision >= 10, integers and the timestamp use %d; the pickle encoder '
    'serialises the batch itself with a fresh pickle.dumps per frame (frames decode independently); batches are popped from '
    'the left, at most MAX_DATAPOINTS_PER_MESSAGE, and sent whole. Decides this structure, not the float round trip.')
  check.not_decided = ['numeric round trip of "%.10f" / float() over the float domain (the 5e-11 bound follows from the spec '
                       'only for |v| < 1e16 where one ulp is smaller)']
  check.trusted_base = ['pickle protocol 2', 'Twisted sendLine/sendString framing']

  # ------------------------------------------------------------------ line encoder
  r_r = check.rule('R-C15-routing-agreement', 4, 'decoder after encoder is the identity on field positions')
  r_p = check.rule('R-C15-precision', 3, 'float values are sent fixed-point with >= 10 decimals; ints and timestamps with %d')
  r_f = check.rule('R-C15-frame', 3, 'one line per datapoint in order; one independent pickle frame per batch')
  fn, sends = line_encoder(cx, se)
  check.analysed(fn)
  enc_fields = None
  if len(sends) != 1:
    r_f.violate('line encoder sends', fn, None, 'expected exactly one send call in the plaintext encoder, found %d' % len(sends),
                construct='self.sendLine(...)')
  else:
    name, call, args, kws, loops, _ = sends[0]
    if name != 'sendLine':
      r_f.violate('line framing', fn, call, 'the plaintext encoder sends with %s(), not one sendLine() per datapoint' % name)
    ok_loop = len(loops) == 1 and isinstance(loops[0][0], ast.For) and loops[0][1] == ('param', fn.params[1])
    if ok_loop:
      r_f.ok('one sendLine per datapoint, iterating the batch in list order', fn.loc(call))
    else:
      r_f.violate('line per datapoint', fn, call, 'sendLine is not called once per element of the unmodified batch, in list '
                  'order (loop over `%s`)' % (show(loops[0][1]) if loops else 'nothing'))
    t = args[0] if args else None
    alts = alternatives(t)
    fields_all = []
    for alt in alts:
      core = alt
      while core[0] == 'meth' and core[1] in ('encode', 'strip'):
        core = core[2]
      if core[0] != 'fmt':
        r_r.cannot_decide('line encoder payload is not a %%-format / f-string: %s' % show(alt))
        continue
      tpl, fargs = core[1], core[2:]
      specs = fmt_specs(tpl)
      import re as _re
      seps = _re.split(r'%(?:\([^)]*\))?[-+ #0]*\d*(?:\.\d+)?[a-zA-Z]', tpl.replace('%%', ''))
      if len(specs) != 3 or len(fargs) != 3 or seps != ['', ' ', ' ', '']:
        r_r.violate('line layout', fn, call, 'the line is built from template %r: not three fields separated by single spaces'
                    % tpl)
        continue
      # a field rendered with %s from text that is itself one conversion of one value ("%d" % timestamp) is that conversion
      specs, fargs = list(specs), list(fargs)
      for i_ in range(3):
        a_ = fargs[i_]
        if specs[i_][1] == 's' and not specs[i_][0] and isinstance(a_, tuple) and a_[0] == 'fmt' and len(a_) == 3:
          inner = fmt_specs(a_[1])
          if len(inner) == 1 and _re.sub(r'%(?:\([^)]*\))?[-+ #0]*\d*(?:\.\d+)?[a-zA-Z]', '', a_[1].replace('%%', '')) == '':
            specs[i_], fargs[i_] = inner[0], a_[2]
      fields_all.append((specs, tuple(fargs)))
    if fields_all:
      specs, fargs = fields_all[0]
      srcs = []
      for a in fargs:
        ps = set()
        for alt in alternatives(a):
          sp = source_path(alt, is_item_root)
          ps.add(sp[0] if sp else None)
        srcs.append(ps)
      enc_fields = srcs
      want = [{(0,)}, {(1, 1)}, {(1, 0)}]
      names = ['metric', 'value', 'timestamp']
      for i in range(3):
        if srcs[i] == want[i]:
          r_r.ok('line field %d <- %s of the queued datapoint' % (i, names[i]), fn.loc(call))
        else:
          r_r.violate('line field %d' % i, fn, call, 'field %d of the plaintext line should carry the %s (item path %s) but is '
                      'built from %s' % (i, names[i], sorted(want[i]), sorted(map(str, srcs[i]))))
      # precision: every spec that formats the value / timestamp
      vterm = fargs[1]
      for alt in alternatives(vterm):
        f_specs = [x for x in walk_term(alt) if isinstance(x, tuple) and x[0] == 'fmt']
        if not f_specs:
          if specs[1][1] in 'sr':
            r_p.violate('value formatting', fn, call, 'the value is sent with %%%s of `%s` (repr/str), not a fixed-point format'
                        % (specs[1][1], show(alt)))
          continue
        for ft in f_specs:
          for (flags, ty) in fmt_specs(ft[1]):
            prec = None
            if '.' in flags:
              try:
                prec = int(flags.split('.')[1])
              except ValueError:
                prec = None
            if ty == 'f' and prec is not None and prec >= 10:
              r_p.ok('float branch: %%%s%s (error <= 0.5e-%d)' % (flags, ty, prec), fn.loc(call))
            elif ty in 'di':
              r_p.ok('integer branch: %%%s' % ty, fn.loc(call))
            else:
              r_p.violate('value conversion %%%s%s' % (flags, ty), fn, call, 'a branch of the plaintext encoder formats the '
                          'value with %%%s%s: not fixed-point with at least 10 decimals (exponent / short formats lose digits '
                          'beyond 5e-11 relative to large values)' % (flags, ty))
        # stripping may only remove trailing zeros and the dot
        for x in walk_term(alt):
          if isinstance(x, tuple) and x[0] == 'meth' and x[1] in ('rstrip', 'strip', 'lstrip'):
            arg = x[3] if len(x) > 3 else None
            if x[1] != 'rstrip' or arg is None or arg[0] != 'const' or arg[1] not in ('0', '.'):
              r_p.violate('value stripping', fn, call, 'the formatted value goes through .%s(%s): only trailing "0" then "." may '
                          'be stripped' % (x[1], show(arg) if arg else ''))
      ts_spec = specs[2]
      if ts_spec[1] in 'di':
        r_p.ok('timestamp: %%%s (truncated to whole seconds)' % ts_spec[1], fn.loc(call))
      else:
        r_p.violate('timestamp conversion', fn, call, 'the timestamp is formatted with %%%s%s, not %%d' % ts_spec)
      if specs[0][1] != 's':
        r_p.violate('metric conversion', fn, call, 'the metric name is formatted with %%%s' % specs[0][1])

  # ------------------------------------------------------------------ line decoder (agreement)
  for q in ('MetricLineReceiver.lineReceived', 'MetricDatagramReceiver.datagramReceived'):
    dfn = cx.fn('carbon.protocols', q)
    check.analysed(dfn)
    routes = decoder_routes(cx, se, dfn)
    if routes is None:
      r_r.cannot_decide('%s: dispatch to self.metricReceived not recognised' % q)
      continue
    m_src, d0_src, d1_src, _ = routes
    if m_src == {('split', 0)} and d0_src == {('split', 2)} and d1_src == {('split', 1)}:
      r_r.ok('%s: metric <- field 0, datapoint[0] <- field 2, datapoint[1] <- field 1 (inverse of the encoder)' % q.split('.')[0], dfn.loc())
    else:
      r_r.violate('%s field routing' % q.split('.')[0], dfn, None, 'the plaintext decoder routes metric/timestamp/value from %s / %s '
                  '/ %s; the client encoder puts them in fields 0 / 2 / 1' % (sorted(m_src), sorted(d0_src), sorted(d1_src)),
                  construct='field routing of %s' % q)

  # ------------------------------------------------------------------ the encoders are total on the datapoints they are handed
  r_t = check.rule('R-C15-encoder-total', 2, 'encoding a batch cannot fail on any queued datapoint (the batch has already left the queue)')
  from ..effects import Effects
  for q in ('CarbonLineClientProtocol._sendDatapointsNow', 'CarbonPickleClientProtocol._sendDatapointsNow'):
    efn = cx.fn('carbon.client', q)
    ef = Effects(cx)
    # a batch: list of (metric text, (finite timestamp, number - an int or a float that may be nan / +-inf))
    raised = ef.analyse(efn, ['TR', ('T', ('T', 'WS', ('T', 'FF', 'N?')))])
    for k in sorted(ef.analysed):
      check.functions_analysed.add(k)
    seen_r = set()
    for x in raised:
      if x.key() in seen_r:
        continue
      seen_r.add(x.key())
      r_t.violate('%s can raise' % q, x.fn, x.node, '%s can be raised by %s while a batch is being encoded: takeSomeFromQueue() has '
                  'already removed the batch from the queue, so the datapoint that trips it and every datapoint after it in the '
                  'message are lost' % ('an exception' if x.exc == 'TOP' else x.exc, x.what))
    if not raised:
      r_t.ok('%s: no operation can fail on a (text, (finite timestamp, int-or-float incl. inf)) item' % q, efn.loc())

  # ------------------------------------------------------------------ pickle encoder / decoder
  pfn = cx.fn('carbon.client', 'CarbonPickleClientProtocol._sendDatapointsNow')
  check.analysed(pfn)
  out = []
  se.run(pfn.body, {}, pfn, sinkname({'sendString', 'sendLine', 'write'}), out)
  psends = [o for o in out if o[0] != '<return>']
  batch = pfn.params[1]
  if len(psends) != 1 or psends[0][4]:
    r_f.violate('pickle frames', pfn, None, 'the pickle encoder does not send exactly one frame per batch (found %d send call(s)%s)'
                % (len(psends), ' inside a loop' if psends and psends[0][4] else ''), construct='self.sendString(...)')
  else:
    name, call, args, kws, loops, _ = psends[0]
    t = args[0]
    good = False
    for alt in alternatives(t):
      if alt[0] == 'call' and alt[1].split('.')[-1] == 'dumps' and len(alt) >= 3 and alt[2] == ('param', batch):
        tps = check.types.expr_types(_first_call_named(call, 'dumps').func.value, pfn.module, pfn) if _first_call_named(call, 'dumps') else set()
        if any(tt[0] in ('mod', 'ext') for tt in tps) or not tps:
          good = True
    if good and name == 'sendString':
      r_f.ok('one sendString(pickle.dumps(<batch>)) per batch: frames decode independently', pfn.loc(call))
      proto = [k for k in (alternatives(t)[0][3:] if alternatives(t) else ()) if isinstance(k, tuple) and k[0] == 'kw' and k[1] == 'protocol']
      pv = proto[0][2] if proto else None
      if isinstance(pv, tuple) and pv[0] == 'param':
        gv = pfn.module.globals.get(pv[1], [])
        rebound = any(isinstance(x, ast.Global) and pv[1] in x.names for x in ast.walk(pfn.module.tree))
        if len(gv) == 1 and isinstance(gv[0], ast.Constant) and not rebound:
          pv = ('const', gv[0].value)           # a module-level constant
      if pv == ('const', 2):
        r_f.ok('pickle protocol 2', pfn.loc(call))
      else:
        r_f.violate('pickle protocol', pfn, call, 'the batch is not pickled with protocol=2 (what every carbon version decodes)')
    else:
      r_f.violate('pickle frame content', pfn, call, 'the frame is `%s`, not a fresh pickle.dumps() of the batch itself: a serialiser '
                  'kept across frames (e.g. a Pickler with its memo) produces frames that cannot be decoded independently' % show(t))
  dfn = cx.fn('carbon.protocols', 'MetricPickleReceiver.stringReceived')
  check.analysed(dfn)
  routes = decoder_routes(cx, se, dfn)
  if routes is None:
    r_r.cannot_decide('pickle decoder: dispatch to self.metricReceived not recognised')
  else:
    m_src, d0_src, d1_src, _ = routes
    if m_src == {(0,)} and d0_src == {(1, 0)} and d1_src == {(1, 1)}:
      r_r.ok('pickle decoder: (metric, (a, b)) -> metric, (a, b): identity on positions', dfn.loc())
    else:
      r_r.violate('pickle field routing', dfn, None, 'the pickle decoder routes metric / datapoint[0] / datapoint[1] from item '
                  'paths %s / %s / %s, not (0) / (1,0) / (1,1)' % (sorted(map(str, m_src)), sorted(map(str, d0_src)), sorted(map(str, d1_src))),
                  construct='field routing of MetricPickleReceiver.stringReceived')

  # ------------------------------------------------------------------ the listener passes the decoded datapoint on unchanged
  from .c12 import rule_normalisation
  r_ap = check.rule('R-C15-admission-passthrough', 3, 'the receiving daemon passes name, timestamp and value on as decoded (only the '
                    'documented -1 / resolution normalisations touch the timestamp)')
  rule_normalisation(check, cx, r_ap)

  # ------------------------------------------------------------------ nothing taken from the queue is dropped before it is encoded
  from ..clientmodel import ClientModel
  from .c07 import rule_sent
  r_sn = check.rule('R-C15-sent', 3, 'every batch taken from the send queue reaches the encoder whole (shared with C07): splitting into '
                    'messages never drops datapoints')
  rule_sent(check, cx, ClientModel(cx), r_sn)

  # ------------------------------------------------------------------ batches
  r_b = check.rule('R-C15-batch', 2, 'batches are popped from the left, at most MAX_DATAPOINTS_PER_MESSAGE, never merged or reordered')
  tq = cx.fn('carbon.client', 'CarbonClientFactory.takeSomeFromQueue')
  from ..clientmodel import BatchShape
  bs = BatchShape(cx, tq)
  body = bs.region
  if bs.bound is None:
    r_b.ok('at most MAX_DATAPOINTS_PER_MESSAGE items per batch', body.loc(bs.loop) if bs.loop is not None else tq.loc())
  else:
    r_b.violate('batch size', body, bs.bound[0], bs.bound[1], construct='for _ in range(settings.MAX_DATAPOINTS_PER_MESSAGE)')
  if not bs.problems:
    r_b.ok('items taken with popleft (arrival order), each put into the batch once', tq.loc())
  else:
    r_b.violate('batch order', tq, bs.problems[0][0], 'the batch is not built by popleft() from the head of the queue: %s' % bs.problems[0][1],
                construct='self.queue.popleft()')
  # an empty queue ends the batch quietly
  if bs.quiet_empty:
    r_b.ok('an empty queue ends the batch (%s)' % bs.quiet_empty, tq.loc())
  elif bs.bound is None and not bs.problems:
    r_b.violate('empty queue', tq, bs.loop, 'popleft() on an empty queue raises IndexError out of takeSomeFromQueue: the batch taken so far '
                'has left the queue and is lost', construct='except IndexError')
  rule_receiver_state(check, cx, check.rule('R-C15-receiver-state', 1, 'the listeners store nothing under the names the Twisted framing classes use for their own state'))
  rule_default_identity(check, cx, check.rule('R-C15-default-identity', 1, 'setting-switched rewrites of the datapoint are off under the built-in defaults'))


def _bounded_while(cx, fn, loops):
  """while <...> and len(batch) < MAX_DATAPOINTS_PER_MESSAGE: batch.append(queue.popleft())  - one item per pass, the
  list that is measured is the list that grows and that is returned."""
  from ..rulelib import ValueNumbers
  vn = ValueNumbers(cx, fn)
  LIMIT = ('attr', ('param', 'settings'), 'MAX_DATAPOINTS_PER_MESSAGE')
  out = []
  for lp in loops:
    if not isinstance(lp, ast.While) or lp.orelse:
      continue
    conj = lp.test.values if isinstance(lp.test, ast.BoolOp) and isinstance(lp.test.op, ast.And) else [lp.test]
    measured = None
    countdown = None
    for t in conj:
      # remaining = LIMIT; while remaining > 0 and ...: batch.append(queue.popleft()); remaining -= 1
      if isinstance(t, ast.Compare) and len(t.ops) == 1 and isinstance(t.ops[0], ast.Gt) and isinstance(t.left, ast.Name) and \
         isinstance(t.comparators[0], ast.Constant) and t.comparators[0].value == 0:
        n_ = t.left.id
        inits = [st for st in walk_no_nested(fn.node, include_self=False) if isinstance(st, ast.Assign) and
                 any(isinstance(tg, ast.Name) and tg.id == n_ for tg in st.targets)]
        decs = [st for st in lp.body if isinstance(st, ast.AugAssign) and isinstance(st.op, ast.Sub) and dotted(st.target) == n_ and
                isinstance(st.value, ast.Constant) and st.value.value == 1]
        other = [st for st in ast.walk(lp) if isinstance(st, (ast.AugAssign, ast.Assign)) and st not in decs and
                 any(isinstance(x, ast.Name) and x.id == n_ and isinstance(x.ctx, ast.Store) for x in ast.walk(st))]
        if len(inits) == 1 and vn.term(inits[0].value, inits[0]) == LIMIT and len(decs) == 1 and not other and \
           not any(x is inits[0] for x in ast.walk(lp)):
          countdown = n_
    if countdown is not None:
      grows_c = [s_ for s_ in lp.body if isinstance(s_, ast.Expr) and isinstance(s_.value, ast.Call) and
                 isinstance(s_.value.func, ast.Attribute) and s_.value.func.attr == 'append' and isinstance(s_.value.func.value, ast.Name)]
      pops_c = [c for c in ast.walk(lp) if isinstance(c, ast.Call) and isinstance(c.func, ast.Attribute) and c.func.attr in ('popleft', 'pop')]
      rets_c = [r for r in walk_no_nested(fn.node, include_self=False) if isinstance(r, ast.Return)]
      if len(grows_c) == 1 and len(pops_c) == 1 and any(x is pops_c[0] for x in ast.walk(grows_c[0])) and rets_c and \
         all(isinstance(r.value, ast.Name) and r.value.id == grows_c[0].value.func.value.id for r in rets_c) and \
         not any(isinstance(x, ast.Continue) for x in ast.walk(lp)):
        out.append(lp)
        continue
    for t in conj:
      if isinstance(t, ast.Compare) and len(t.ops) == 1 and isinstance(t.ops[0], ast.Lt) and vn.term(t.comparators[0], lp) == LIMIT and \
         isinstance(t.left, ast.Call) and isinstance(t.left.func, ast.Name) and t.left.func.id == 'len' and len(t.left.args) == 1 and \
         isinstance(t.left.args[0], ast.Name):
        measured = t.left.args[0].id
    if measured is None:
      continue
    grows = [s_ for s_ in lp.body if isinstance(s_, ast.Expr) and isinstance(s_.value, ast.Call) and
             isinstance(s_.value.func, ast.Attribute) and s_.value.func.attr == 'append' and dotted(s_.value.func.value) == measured]
    pops = [c for c in ast.walk(lp) if isinstance(c, ast.Call) and isinstance(c.func, ast.Attribute) and c.func.attr in ('popleft', 'pop')]
    other_growth = [c for c in ast.walk(fn.node) if isinstance(c, ast.Call) and isinstance(c.func, ast.Attribute) and
                    dotted(c.func.value) == measured and c.func.attr in ('extend', 'insert', 'append') and
                    not any(c is g_.value for g_ in grows)]
    rets = [r for r in walk_no_nested(fn.node, include_self=False) if isinstance(r, ast.Return)]
    returned = rets and all(isinstance(r.value, ast.Name) and r.value.id == measured for r in rets)
    if len(grows) == 1 and len(pops) == 1 and any(x is pops[0] for x in ast.walk(grows[0])) and not other_growth and returned and \
       not any(isinstance(x, (ast.Continue,)) for x in ast.walk(lp)):
      out.append(lp)
  return out


def _first_call_named(node, name):
  for c in ast.walk(node):
    if isinstance(c, ast.Call) and isinstance(c.func, ast.Attribute) and c.func.attr == name:
      return c
  return None


def decoder_routes(cx, se, dfn):
  """(metric sources, datapoint[0] sources, datapoint[1] sources, sink records) of the self.metricReceived calls."""
  out = []
  se.run(dfn.body, {}, dfn, sinkname({'metricReceived'}), out)
  calls = [o for o in out if o[0] == 'metricReceived']
  if not calls:
    return None
  m_src, d0_src, d1_src = set(), set(), set()
  for name, call, args, kws, loops, f in calls:
    if len(args) != 2:
      return None
    def text_or_item(t):
      # text decoders: ('field', X.split(), i) -> ('split', i); pickle: index path from the item
      conv = []
      res = set()
      for alt in alternatives(t):
        core = alt
        wr = []
        while True:
          if core[0] == 'call' and core[1] in ('float', 'int', 'str') and len(core) >= 3:
            wr.append(core[1])
            core = core[2]
          elif core[0] == 'meth' and core[1] in ('encode', 'decode', 'strip'):
            core = core[2]
          else:
            break
        if core[0] == 'field' and core[1][0] == 'meth' and core[1][1] == 'split' and len(core[1]) == 3:
          res.add(('split', core[2]))
        else:
          sp = source_path(core, is_item_root)
          res.add(sp[0] if sp else ('?', show(core)))
        conv.append(tuple(wr))
      return res, conv
    ms, _ = text_or_item(args[0])
    m_src |= ms
    dp = args[1]
    for alt in alternatives(dp):
      if alt[0] == 'tuple' and len(alt) == 3:
        a, ca = text_or_item(alt[1])
        b, cb = text_or_item(alt[2])
        d0_src |= a
        d1_src |= b
        for cset in ca + cb:
          if cset != ('float',):
            d0_src.add(('conv', cset))
      else:
        d0_src.add(('?', show(alt)))
        d1_src.add(('?', show(alt)))
  return m_src, d0_src, d1_src, calls


def rule_receiver_state(check, cx, rule):
  """the listeners do not store attributes under names the Twisted framing classes use for their own state (`paused`, `_buffer`,
  `_unprocessed` ...): IntNStringReceiver.dataReceived stops handing out the complete frames of a segment while `self.paused` is
  set, and nothing re-enters it on resume - frames the relay wrote are then never ingested.  (Names are read from the
  twisted.protocols.basic source in the repository's environment; shared with R-C01-stateless.)"""
  from .c01 import _twisted_basic, receivers
  base, subs = receivers(check)
  tb = _twisted_basic()
  if tb is None:
    check.notes.append('twisted source not found: framing-state names not inspected (trusted)')
    rule.ok('twisted source not available: trusted', 'twisted.protocols.basic')
    return
  tree = ast.parse(open(tb).read())
  tw_state = set()
  for c in [n for n in tree.body if isinstance(n, ast.ClassDef) and n.name in (
      'LineOnlyReceiver', 'IntNStringReceiver', 'Int32StringReceiver', '_PauseableMixin', '_RecvdCompatHack', 'LineReceiver')]:
    for st in c.body:
      if isinstance(st, (ast.Assign, ast.AnnAssign)):
        for t in (st.targets if isinstance(st, ast.Assign) else [st.target]):
          if isinstance(t, ast.Name):
            tw_state.add(t.id)
    for f in [n for n in c.body if isinstance(n, ast.FunctionDef)]:
      for x in ast.walk(f):
        if isinstance(x, ast.Attribute) and isinstance(x.ctx, ast.Store) and isinstance(x.value, ast.Name) and x.value.id == 'self':
          tw_state.add(x.attr)
  tw_state -= {'MAX_LENGTH', 'delimiter'}
  clash = []
  for cls in [base] + subs:
    for a in cls.attrs:
      if a in tw_state:
        clash.append((cls, None, a))
    for mname, m in cls.methods.items():
      for x in walk_no_nested(m.node, include_self=False):
        if isinstance(x, ast.Attribute) and isinstance(x.ctx, ast.Store) and isinstance(x.value, ast.Name) and m.params and \
           x.value.id == m.params[0] and x.attr in tw_state:
          clash.append((cls, m, x.attr))
  for cls, m, a in clash:
    rule.violate('%s shadows Twisted framing state' % cls.name, m if m is not None else cls.key, None, '%s stores an attribute named `%s`, '
                 'which the Twisted framing base classes use for their own state: the frame loop of dataReceived stops or skips '
                 'depending on it, so complete frames the relay transmitted can stay undelivered' % (cls.name, a),
                 construct='%s.%s' % (cls.name, a))
  if not clash:
    rule.ok('no listener attribute shadows Twisted framing state (%d names checked)' % len(tw_state), tb)


def rule_default_identity(check, cx, rule):
  """under the built-in configuration the listener passes the decoded datapoint on unchanged: every rewrite of the datapoint in
  MetricReceiver.metricReceived that is switched by a setting (`if settings.MIN_TIMESTAMP_RESOLUTION: datapoint = ...`) is OFF
  for that setting's built-in default in carbon.conf - a daemon (or a harness) that does not set the option keeps timestamps
  exactly as the relay encoded them."""
  from ..rulelib import conf_defaults
  defaults = conf_defaults(check.repo)
  fn = cx.fn('carbon.protocols', 'MetricReceiver.metricReceived')
  if not rule.require(defaults is not None and fn is not None and len(fn.params) >= 3, 'defaults table / MetricReceiver.metricReceived not found'):
    return
  dp = fn.params[2]
  copies = {}
  for st in ast.walk(fn.node):
    if isinstance(st, ast.Assign) and len(st.targets) == 1 and isinstance(st.targets[0], ast.Name) and \
       isinstance(st.value, ast.Attribute) and isinstance(st.value.value, ast.Name) and st.value.value.id == 'settings':
      copies.setdefault(st.targets[0].id, set()).add(st.value.attr)
  n = 0
  for t in ast.walk(fn.node):
    if not isinstance(t, ast.If):
      continue
    # a branch taken on the bare truth of an option (`if res:` / `if settings.X:`) that builds a new (timestamp, value) pair
    tt = t.test
    rewriting = t.body
    if isinstance(tt, ast.UnaryOp) and isinstance(tt.op, ast.Not):
      tt, rewriting = tt.operand, t.orelse          # `if not res: keep  else: rewrite`
    if isinstance(tt, ast.Name):
      opts = set(copies.get(tt.id, set()))
    elif isinstance(tt, ast.Attribute) and isinstance(tt.value, ast.Name) and tt.value.id == 'settings':
      opts = {tt.attr}
    else:
      continue
    if not any(isinstance(s_, ast.Assign) and isinstance(s_.value, ast.Tuple) and len(s_.value.elts) == 2 for b in rewriting for s_ in ast.walk(b)):
      continue
    for o in sorted(opts):
      n += 1
      d = defaults.get(o)
      if d is None:
        rule.ok('%s has no built-in default (set by the operator only)' % o, fn.loc(t))
      elif isinstance(d, ast.Constant) and not d.value:
        rule.ok('rewrite switched by %s is off by default (%r)' % (o, d.value), fn.loc(t))
      else:
        rule.violate('datapoint rewritten under the built-in configuration', 'carbon.conf:<module>', d, 'the built-in default of %s is `%s`: '
                     'with it the listener rewrites every datapoint (`%s`), so a timestamp such as 1500000000.25 sent over the pickle '
                     'protocol is not ingested as encoded unless the operator switches the option off'
                     % (o, short(d, 30), short((rewriting or t.body)[0], 60)), construct='defaults[%s]' % o)
  rule.require(n >= 1, 'no setting-switched rewrite of the datapoint found in metricReceived (idiom changed?)')
