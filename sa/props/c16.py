"""C16 - Rule-based and aggregation-aware routing follow their rule files.

Decided: first match then stop unless `continue`; only configured destinations;
rules are loaded in file order with per-section state and the default rule last;
aggregation-aware routing hashes every aggregate name a metric maps to (its own
name only when no rule matched) and returns *all* hash destinations of each.
Not decided: regex semantics.
"""
import ast

from ..model import dotted, unparse, norm, walk_no_nested, loop_exits, loop_of
from ..rulelib import Ctx, nodes_calling, reaching_defs, value_assigned, short, ValueNumbers
from .c05 import _yields


def run(check):
  cx = Ctx(check)
  repo = check.repo
  check.explanation = (
    'CFG and def-use rules. RelayRulesRouter.getDestinations: rules iterated in list order; on the matched edge every way back '
    'to the loop head passes the true outcome of rule.continue_matching; every yield is dominated by `destination in '
    'self.destinations`. loadRelayRules: one RelayRule per pattern section appended inside the loop over parser.sections(), every '
    'per-section value used to build it is (re)defined in the same iteration, the default rule is appended after the loop. '
    'Aggregation-aware router: the key handed to the hash router is each rule\'s get_aggregate_metric(key) result, the raw key only '
    'under "no rule matched", and every destination the hash router generates for every aggregate is returned (no break/return '
    'inside the replica loop). Regex semantics are trusted.')
  check.not_decided = ['regex semantics (re.I search)', 'which destinations the hash router computes (C05/C06)']
  check.trusted_base = ['re', 'carbon.conf.OrderedConfigParser (checked for C19)']

  # ------------------------------------------------------------------ first match
  rr = repo.cls('carbon.routers', 'RelayRulesRouter')
  gd = rr.methods.get('getDestinations')
  r_f = check.rule('R-C16-first-match', 2, 'first matching rule wins; later rules only while rules say `continue`')
  r_c = check.rule('R-C16-configured', 1, 'only currently configured destinations are returned')
  if gd is None:
    r_f.cannot_decide('RelayRulesRouter.getDestinations not found')
  else:
    check.analysed(gd)
    g = cx.cfg(gd)
    loops = [n for n in g.nodes if n.kind == 'loop' and isinstance(n.owner, ast.For) and dotted(n.owner.iter) == 'self.rules']
    if not loops:
      r_f.violate('rules not iterated in order', gd, None, 'getDestinations does not iterate self.rules in list order',
                  construct='for rule in self.rules')
    else:
      lp = loops[0]
      rv = lp.owner.target.id if isinstance(lp.owner.target, ast.Name) else None
      vn = ValueNumbers(cx, gd)
      RV = ('elem', ('attr', ('param', gd.params[0]), 'rules'))      # the rule of the current iteration, whatever it is called

      def is_rv(e, at):
        return vn.term(e, at) == RV
      matched = g.test_edges(lambda pol, t, n: pol == 'T' and isinstance(t, ast.Call) and isinstance(t.func, ast.Attribute) and
                             t.func.attr == 'matches' and is_rv(t.func.value, n))
      if not matched:
        r_f.cannot_decide('`rule.matches(key)` test not recognised')
      def cont_true(a, lab, b):
        return isinstance(lab, tuple) and lab[0] == 'T' and isinstance(lab[1], ast.Attribute) and \
          lab[1].attr == 'continue_matching' and is_rv(lab[1].value, a)
      for (a, lab, b) in matched:
        back = lp in g.reach([b], removed_edge=cont_true, normal_only=True)
        if back:
          p = g.path([b], lp, removed_edge=cont_true, normal_only=True)
          r_f.violate('matching goes on without `continue`', gd, a.ast, 'after a rule matched, the next rule can be tried although '
                      'the matched rule is not marked continue', path=g.describe_path(p))
        else:
          r_f.ok('matched rule: next rule only if rule.continue_matching', gd.loc(a.ast))
        # a matched rule's destinations are all offered (no break inside the destination loop)
        inner = [n for n in g.nodes if n.kind == 'loop' and isinstance(n.owner, ast.For) and isinstance(n.owner.iter, ast.Attribute) and
                 n.owner.iter.attr == 'destinations' and is_rv(n.owner.iter.value, n)]
        for il in inner:
          early = loop_exits(il.owner)
          if early:
            r_f.violate('destinations of the matched rule cut short', gd, early[0], 'the loop over the matched rule\'s destinations can '
                        'end before all of them were considered')
          else:
            r_f.ok('all destinations of the matched rule are considered', gd.loc(il.owner))
      # non-matching rules are skipped without any yield
      for n, y in _yields(g):
        if n in g.reach([g.entry], normal_only=True, removed_edge=lambda a, lab, b: any(a is m[0] and lab == m[1] for m in matched)):
          r_f.violate('destination yielded for a rule that did not match', gd, y, 'a destination can be yielded without rule.matches(key) '
                      'having been true')
        dest = unparse(y.value)
        def conf(a, lab, b, dest=dest):
          if isinstance(lab, tuple) and isinstance(lab[1], ast.Call) and isinstance(lab[1].func, ast.Attribute) and \
             dotted(lab[1].func.value) == gd.params[0] and len(lab[1].args) == 1 and unparse(lab[1].args[0]) == dest:
            # a predicate method of the router that is exactly `return <arg> in self.destinations`
            pm = rr.methods.get(lab[1].func.attr)
            if pm is not None and len(pm.params) == 2:
              body = [x for x in pm.node.body if not (isinstance(x, ast.Expr) and isinstance(x.value, ast.Constant))]
              if len(body) == 1 and isinstance(body[0], ast.Return) and isinstance(body[0].value, ast.Compare) and \
                 len(body[0].value.ops) == 1 and isinstance(body[0].value.ops[0], ast.In) and \
                 dotted(body[0].value.left) == pm.params[1] and dotted(body[0].value.comparators[0]) == '%s.destinations' % pm.params[0]:
                return lab[0] == 'T'
            return False
          if not (isinstance(lab, tuple) and isinstance(lab[1], ast.Compare) and len(lab[1].ops) == 1):
            return False
          t = lab[1]
          return unparse(t.left) == dest and dotted(t.comparators[0]) == 'self.destinations' and (
            (isinstance(t.ops[0], ast.In) and lab[0] == 'T') or (isinstance(t.ops[0], ast.NotIn) and lab[0] == 'F'))
        syntactic_miss = n in g.reach([g.entry], removed_edge=conf, normal_only=True)
        if syntactic_miss:
          # by value: on every path to the yield, the yielded value was found `in self.destinations`
          from ..paths import PathExec
          from ..symeval import canon
          px = PathExec(cx, gd, unroll=1, follow_exceptions=False)
          CONF = ('attr', ('param', gd.params[0]), 'destinations')
          all_ok, seen = True, False
          for hit in px.run({n}):
            seen = True
            yt = canon(hit.term(y.value, px))
            found = any(pol == 'T' and isinstance(t, tuple) and t[0] == 'in' and canon(t[1]) == yt and canon(t[2]) == CONF
                        for pol, t, a_, n_ in hit.conds if pol in ('T', 'F')) or \
              any(pol == 'F' and isinstance(t, tuple) and t[0] == 'notin' and canon(t[1]) == yt and canon(t[2]) == CONF
                  for pol, t, a_, n_ in hit.conds if pol in ('T', 'F'))
            if not found:
              all_ok = False
          if seen and all_ok and not px.truncated:
            syntactic_miss = False
        if syntactic_miss:
          r_c.violate('unconfigured destination returned', gd, y, '`%s` can be yielded without having been found in self.destinations'
                      % dest)
        else:
          r_c.ok('yield dominated by `%s in self.destinations`' % dest, gd.loc(y))

  # ------------------------------------------------------------------ file order
  r_o = check.rule('R-C16-file-order', 4, 'rules in file order, per-section state, default rule last')
  lr = cx.fn('carbon.relayrules', 'loadRelayRules')
  check.analysed(lr)
  g = cx.cfg(lr)
  loops = [n for n in g.nodes if n.kind == 'loop' and isinstance(n.owner, ast.For) and isinstance(n.owner.iter, ast.Call) and
           isinstance(n.owner.iter.func, ast.Attribute) and n.owner.iter.func.attr == 'sections']
  # the returned sequence: <list> [+ <list> | + [<rule>, ...]] ...   (parts, left to right)
  def flatten(e):
    if isinstance(e, ast.BinOp) and isinstance(e.op, ast.Add):
      l, r = flatten(e.left), flatten(e.right)
      return None if l is None or r is None else l + r
    if isinstance(e, (ast.Name, ast.List)):
      return [e]
    if isinstance(e, ast.Call) and isinstance(e.func, ast.Name) and e.func.id == 'list' and len(e.args) == 1:
      return flatten(e.args[0])
    return None
  ret_nodes = [n for n in walk_no_nested(lr.node, include_self=False) if isinstance(n, ast.Return) and n.value is not None]
  parts = flatten(ret_nodes[0].value) if len(ret_nodes) == 1 else None
  if not loops or not parts:
    r_o.cannot_decide('loadRelayRules: section loop or returned list not recognised')
  else:
    lp = loops[0]
    inside = g.in_loop_nodes(lp.owner)

    def always_true(x):
      if isinstance(x, ast.Lambda):
        return isinstance(x.body, ast.Constant) and x.body.value is True
      if isinstance(x, ast.Name) and x.id in lr.module.functions:
        fs = lr.module.functions[x.id]
        body = [st for st in fs[0].node.body if not (isinstance(st, ast.Expr) and isinstance(st.value, ast.Constant))]
        return len(fs) == 1 and len(body) == 1 and isinstance(body[0], ast.Return) and \
          isinstance(body[0].value, ast.Constant) and body[0].value.value is True
      return False

    def is_default(a, at):
      """the element is a RelayRule whose condition is the always-true function (the section marked `default`)"""
      vals = [a]
      if isinstance(a, ast.Name):
        nodes = g.node_containing(at) or g.nodes_of(at)
        vals = [value_assigned(d, a.id) for d in reaching_defs(g, a.id, nodes[0]) if d is not g.entry] if nodes else []
      vals = [v for v in vals if not (isinstance(v, ast.Constant) and v.value is None)]      # the "no default seen yet" marker
      return bool(vals) and all(isinstance(v, ast.Call) and dotted(v.func) == 'RelayRule' and any(always_true(x) for x in ast.walk(v))
                                for v in vals)
    elements = []        # (part index, 'default' | 'pattern', in the section loop?, after it?, node)
    problems = []
    for pi, part in enumerate(parts):
      if isinstance(part, ast.List):
        for e in part.elts:
          elements.append((pi, 'default' if is_default(e, ret_nodes[0]) else 'pattern', False, True, e))
        continue
      muts = [c for c in walk_no_nested(lr.node, include_self=False) if isinstance(c, ast.Call) and isinstance(c.func, ast.Attribute)
              and dotted(c.func.value) == part.id]
      for c in muts:
        if c.func.attr != 'append' or len(c.args) != 1:
          problems.append((c, '`%s` can place a rule ahead of earlier ones' % short(c)))
          continue
        inl = any(x is c for x in ast.walk(lp.owner))
        elements.append((pi, 'default' if is_default(c.args[0], c) else 'pattern', inl, (not inl) and c.lineno > lp.owner.end_lineno, c))
    if problems:
      for c, msg in problems:
        r_o.violate('rule list not append-only', lr, c, msg)
    else:
      r_o.ok('rule lists built by append only', lr.loc(lp.owner))
    pats = [e for e in elements if e[1] == 'pattern']
    dfls = [e for e in elements if e[1] == 'default']
    bad_order = None
    if not pats or not dfls:
      bad_order = (lp.owner, 'pattern rules are not appended inside the loop over parser.sections() with the default rule placed behind them')
    for e in pats:
      if not e[2]:
        bad_order = bad_order or (e[4], 'a pattern rule is added outside the loop over parser.sections(): not in file order')
    for d in dfls:
      for e in pats:
        if d[0] < e[0] or (d[0] == e[0] and not d[3]):
          bad_order = bad_order or (d[4], 'the default rule is not placed behind every pattern rule (it is added %s)' % (
            'to an earlier part of the returned list' if d[0] < e[0] else 'to the same list before the section loop has finished'))
    if bad_order is None:
      r_o.ok('pattern rules appended in section order, default rule behind them', lr.loc(dfls[0][4]))
    else:
      r_o.violate('default rule not last', lr, bad_order[0], bad_order[1])
    # per-section state: every name used to build a RelayRule in the loop is defined earlier in the same iteration
    start = [y for y, lab in lp.succ if isinstance(lab, tuple) and lab[0] == 'T']
    for n in inside:
      if n.kind != 'stmt':
        continue
      for c in g.calls(n):
        if dotted(c.func) == 'RelayRule':
          used = set()
          for a in list(c.args) + [kw.value for kw in c.keywords]:
            used |= {x.id for x in ast.walk(a) if isinstance(x, ast.Name) and isinstance(x.ctx, ast.Load)}
          for name in sorted(used):
            defs = [d for d in g.nodes if d in inside and d.kind == 'stmt' and isinstance(d.ast, (ast.Assign, ast.AugAssign)) and
                    name in {x.id for t in (d.ast.targets if isinstance(d.ast, ast.Assign) else [d.ast.target])
                             for x in ast.walk(t) if isinstance(x, ast.Name) and isinstance(x.ctx, ast.Store)}]
            any_def = [d for d in g.nodes if d.kind == 'stmt' and isinstance(d.ast, (ast.Assign, ast.AugAssign)) and
                       name in {x.id for t in (d.ast.targets if isinstance(d.ast, ast.Assign) else [d.ast.target])
                                for x in ast.walk(t) if isinstance(x, ast.Name) and isinstance(x.ctx, ast.Store)}]
            if not any_def:
              continue      # parameter / module-level name (regex module etc.)
            if n in g.reach(start, removed_nodes=set(defs) | (set(g.nodes) - inside), normal_only=True):
              r_o.violate('section state leaks between sections', lr, c, 'the rule of a section is built with `%s`, which is not '
                          '(re)assigned in every iteration before use: a section inherits the value set by an earlier section'
                          % name, construct='RelayRule(... %s ...)' % name)
            else:
              r_o.ok('`%s` is set for each section before its rule is built' % name, lr.loc(c))
  rrule = repo.cls('carbon.relayrules', 'RelayRule')
  mt = rrule.methods.get('matches')
  if mt is not None and 'self.condition(metric)' in unparse(mt.node).replace(' ', '').replace(mt.params[1], 'metric'):
    r_o.ok('RelayRule.matches applies the rule\'s own condition', mt.loc())
  else:
    r_o.violate('RelayRule.matches', 'carbon.relayrules:RelayRule', None, 'RelayRule.matches does not evaluate self.condition(metric)',
                construct='matches')

  # ------------------------------------------------------------------ which names are inputs of an aggregate
  r_m = check.rule('R-C16-rule-applies', 1, 'a name is an input of an aggregate only if the rule pattern matches the whole name')
  from .c08 import rule_match_anchored, rule_name_cache
  rule_match_anchored(check, cx, r_m)
  rule_name_cache(check, cx, r_m)

  # ------------------------------------------------------------------ aggregate key
  r_a = check.rule('R-C16-aggregate-key', 3, 'every input of an aggregate is routed to all hash destinations of the aggregate\'s name')
  ar = repo.cls('carbon.routers', 'AggregatedConsistentHashingRouter')
  ag = ar.methods.get('getDestinations')
  if ag is None:
    r_a.cannot_decide('AggregatedConsistentHashingRouter.getDestinations not found')
  else:
    check.analysed(ag)
    g = cx.cfg(ag)
    key = ag.params[1]
    # collection of resolved names
    hr_calls = nodes_calling(g, lambda c: isinstance(c.func, ast.Attribute) and c.func.attr == 'getDestinations' and
                             (dotted(c.func.value) or '').endswith('hash_router'))
    if not hr_calls:
      r_a.violate('hash router not used', ag, None, 'the aggregation-aware router does not ask self.hash_router for destinations',
                  construct='self.hash_router.getDestinations')
    gam = nodes_calling(g, lambda c: isinstance(c.func, ast.Attribute) and c.func.attr == 'get_aggregate_metric')
    rules_loop = [n for n in g.nodes if n.kind == 'loop' and isinstance(n.owner, ast.For) and
                  (dotted(n.owner.iter) or '').endswith('.rules')]
    # ... or a comprehension over the rules without a filter in front of the call
    vn_ag = ValueNumbers(cx, ag)

    def iter_is_rules(e, at):
      t_ = vn_ag.term(e, at)
      return (dotted(e) or '').endswith('.rules') or (isinstance(t_, tuple) and t_[0] == 'attr' and t_[-1] == 'rules')
    comp_all = [x for x in walk_no_nested(ag.node, include_self=False) if isinstance(x, (ast.ListComp, ast.SetComp, ast.GeneratorExp)) and
                len(x.generators) == 1 and iter_is_rules(x.generators[0].iter, x) and not x.generators[0].ifs and
                isinstance(x.elt, ast.Call) and isinstance(x.elt.func, ast.Attribute) and x.elt.func.attr == 'get_aggregate_metric' and
                isinstance(x.generators[0].target, ast.Name) and dotted(x.elt.func.value) == x.generators[0].target.id]
    if comp_all and gam:
      r_a.ok('every aggregation rule is asked for the aggregate name (comprehension over all rules)', ag.loc(comp_all[0]))
    elif gam and rules_loop and not loop_exits(rules_loop[0].owner):
      r_a.ok('every aggregation rule is asked for the aggregate name (no early exit)', ag.loc(gam[0].ast))
    else:
      r_a.violate('not every rule consulted', ag, (gam or [None])[0].ast if gam else None, 'the loop over the aggregation rules can '
                  'stop early or does not call rule.get_aggregate_metric(key): a metric that feeds several aggregates misses some',
                  construct='for rule in rules: get_aggregate_metric')
    # raw key only when nothing matched
    appends = [n for n in g.nodes if n.kind == 'stmt' and any(
      isinstance(c.func, ast.Attribute) and c.func.attr in ('append', 'add') and c.args and isinstance(c.args[0], ast.Name) and
      c.args[0].id == key for c in g.calls(n))]
    # ... or the collection of names is replaced by [key] as a whole
    appends += [n for n in g.nodes if n.kind == 'stmt' and isinstance(n.ast, ast.Assign) and
                isinstance(n.ast.value, (ast.List, ast.Tuple, ast.Set)) and
                any(isinstance(e, ast.Name) and e.id == key for e in n.ast.value.elts)]
    for n in appends:
      def none_matched(a, lab, b):
        if not isinstance(lab, tuple):
          return False
        t = unparse(lab[1]).replace(' ', '')
        return (lab[0] == 'T' and (t.startswith('len(') and t.endswith('==0'))) or (lab[0] == 'F' and isinstance(lab[1], ast.Name))
      if n in g.reach([g.entry], removed_edge=none_matched, normal_only=True):
        r_a.violate('raw name routed although rules matched', ag, n.ast, 'the metric\'s own name is added to the names to hash without '
                    'the test that no aggregation rule matched')
      else:
        r_a.ok('own name hashed only when no rule matched', ag.loc(n.ast))
    # all replicas of every aggregate are returned
    bulk = {}      # hash-router call handed whole to <collection>.update()/extend(): every destination is kept
    for hc in hr_calls:
      for c in g.calls(hc):
        if isinstance(c.func, ast.Attribute) and c.func.attr in ('update', 'extend') and c.args and any(
            isinstance(y, ast.Call) and isinstance(y.func, ast.Attribute) and y.func.attr == 'getDestinations' and
            (dotted(y.func.value) or '').endswith('hash_router') for y in [c.args[0]]):
          bulk[dotted(c.func.value)] = c
          r_a.ok('every hash destination of an aggregate name is kept (%s.%s(<all of them>))' % (dotted(c.func.value), c.func.attr), ag.loc(c))
    for hc in hr_calls:
      lps = [n for n in g.nodes if n.kind == 'loop' and isinstance(n.owner, ast.For) and any(x is c for c in g.calls(hc) for x in ast.walk(n.owner.iter))]
      for lp in lps:
        early = loop_exits(lp.owner)
        tv = lp.owner.target.id if isinstance(lp.owner.target, ast.Name) else None
        sinks = [x for x in walk_no_nested(lp.owner, include_self=False) if
                 (isinstance(x, ast.Yield) and isinstance(x.value, ast.Name) and x.value.id == tv) or
                 (isinstance(x, ast.Call) and isinstance(x.func, ast.Attribute) and x.func.attr in ('add', 'append') and x.args and
                  isinstance(x.args[0], ast.Name) and x.args[0].id == tv)]
        if early:
          r_a.violate('replicas of an aggregate dropped', ag, early[0], 'the loop over the hash destinations of an aggregate name can '
                      'end early (`%s`): the remaining replicas of that aggregate do not receive the metric, so inputs of one '
                      'aggregate no longer meet at every replica' % type(early[0]).__name__.lower())
        elif not sinks:
          r_a.violate('hash destinations not returned', ag, lp.owner, 'destinations generated by the hash router are neither yielded '
                      'nor collected')
        else:
          r_a.ok('every hash destination of every aggregate name is kept', ag.loc(lp.owner))
    # a collecting set must be yielded whole
    colls = {dotted(x.func.value) for x in walk_no_nested(ag.node, include_self=False) if isinstance(x, ast.Call) and
             isinstance(x.func, ast.Attribute) and x.func.attr in ('add', 'append') and x.args and
             any(isinstance(n.owner, ast.For) and isinstance(n.owner.target, ast.Name) and isinstance(x.args[0], ast.Name) and
                 n.owner.target.id == x.args[0].id and any(y is c for hc in hr_calls for c in g.calls(hc) for y in ast.walk(n.owner.iter))
                 for n in g.nodes if n.kind == 'loop')}
    direct_yield = any(isinstance(x, ast.Yield) for hc in hr_calls for n in g.nodes if n.kind == 'loop' and isinstance(n.owner, ast.For)
                       and any(y is c for c in g.calls(hc) for y in ast.walk(n.owner.iter))
                       for x in walk_no_nested(n.owner, include_self=False))
    colls |= set(bulk)
    for cname in (colls if not direct_yield else ()):
      outl = [n for n in g.nodes if n.kind == 'loop' and isinstance(n.owner, ast.For) and dotted(n.owner.iter) == cname]
      okc = False
      for lp in outl:
        tv = lp.owner.target.id if isinstance(lp.owner.target, ast.Name) else None
        ys = [x for x in walk_no_nested(lp.owner, include_self=False) if isinstance(x, ast.Yield) and isinstance(x.value, ast.Name)
              and x.value.id == tv]
        early = loop_exits(lp.owner, (ast.Break, ast.Return, ast.Continue))
        if ys and not early:
          okc = True
      if okc:
        r_a.ok('the collected destination set is yielded completely', ag.loc())
      else:
        r_a.violate('collected destinations not all returned', ag, None, 'the destinations collected in `%s` are not all yielded' % cname,
                    construct='for d in %s: yield d' % cname)
    # same rule objects and mapping function as the aggregator
    init = ar.methods.get('__init__')
    proc = repo.cls('carbon.aggregator.processor', 'AggregationProcessor').methods.get('process')
    same = init is not None and 'self.agg_rules_manager=RuleManager' in unparse(init.node).replace(' ', '') and proc is not None and \
      'RuleManager.rules' in unparse(proc.node) and 'get_aggregate_metric' in unparse(proc.node)
    if same:
      r_a.ok('router and aggregator use the same RuleManager singleton and get_aggregate_metric', ag.loc())
    else:
      r_a.violate('router and aggregator disagree on the rules', ar.key, None, 'the aggregation-aware router does not use the '
                  'RuleManager singleton / get_aggregate_metric that the aggregator uses', construct='RuleManager singleton')
  rule_condition_is_pattern(check, cx, check.rule('R-C16-condition', 1, 'a pattern rule matches exactly what re.compile(<configured pattern>, re.I).search matches'))
  rule_parser_verbatim(check, cx, check.rule('R-C16-parser-verbatim', 1, 'relay-rules option values are taken as written (default ConfigParser syntax)'))


def rule_condition_is_pattern(check, cx, rule):
  """the condition of a pattern rule IS the search of the configured pattern, compiled case-insensitively as upstream does:
  `re.compile(parser.get(section, 'pattern'), re.I).search` on every path - not a hand-written fast path for 'simple' patterns
  beside it (a case-sensitive startswith() silently drops re.I for exactly those patterns)."""
  from ..rulelib import resolve_copies
  lr = cx.fn('carbon.relayrules', 'loadRelayRules')
  calls = [c for c in walk_no_nested(lr.node, include_self=False) if isinstance(c, ast.Call) and dotted(c.func) == 'RelayRule']
  n = 0
  for c in calls:
    cond = ([kw.value for kw in c.keywords if kw.arg == 'condition'] or list(c.args[:1]) or [None])[0]
    if cond is None:
      continue
    srcs = resolve_copies(lr, cond)
    if all(isinstance(s, ast.Lambda) and isinstance(s.body, ast.Constant) and s.body.value is True for s in srcs) or \
       all(isinstance(s, ast.Name) for s in srcs):
      continue            # the default rule (judged by R-C16-file-order)
    n += 1
    bad = None
    for s in srcs:
      if not (isinstance(s, ast.Attribute) and s.attr == 'search'):
        bad = (s, 'is not the `.search` of the compiled pattern')
        break
      for comp in resolve_copies(lr, s.value):
        if not (isinstance(comp, ast.Call) and (dotted(comp.func) or '').endswith('re.compile') and comp.args):
          bad = (s, 'searches something that is not re.compile(<pattern>)')
          break
        flags = [unparse(a) for a in comp.args[1:]] + [unparse(k.value) for k in comp.keywords]
        if flags not in (['re.I'], ['re.IGNORECASE']):
          bad = (comp, 'is not compiled with exactly re.I (flags: %s)' % (', '.join(flags) or 'none'))
          break
        for pat in resolve_copies(lr, comp.args[0]):
          if not (isinstance(pat, ast.Call) and isinstance(pat.func, ast.Attribute) and pat.func.attr == 'get' and
                  any(isinstance(a, ast.Constant) and a.value == 'pattern' for a in pat.args)):
            bad = (comp, 'does not compile the configured `pattern` option as it is')
            break
      if bad:
        break
    if bad:
      rule.violate('rule condition is not the configured pattern', lr, bad[0] if hasattr(bad[0], 'lineno') else c,
                   'the condition of a pattern rule (`%s`) %s: some metric names are matched differently from '
                   're.compile(pattern, re.I).search, so they skip their rule and land on a later rule or the default'
                   % (short(cond if not isinstance(cond, ast.Name) else srcs[0], 60), bad[1]))
    else:
      rule.ok('condition = re.compile(<configured pattern>, re.I).search', lr.loc(c))
  rule.require(n >= 1, 'no pattern rule construction found in loadRelayRules')


PARSER_OPTS = {'inline_comment_prefixes', 'comment_prefixes', 'delimiters', 'strict', 'empty_lines_in_values', 'interpolation',
               'allow_no_value', 'converters', 'default_section', 'dict_type'}


def rule_parser_verbatim(check, cx, rule):
  """option values reach their consumer as written in the file: the ConfigParser that reads the rules / schema files runs with
  the standard library's default syntax.  Switching on inline comments (`inline_comment_prefixes=(';',)`) cuts every value at
  ' ;' - a tag pattern such as `;dc=east(;|$)` becomes the empty regex, which matches every metric."""
  conf = check.repo.module('carbon.conf')
  hits = []
  for cls in [c for c in ast.walk(conf.tree) if isinstance(c, ast.ClassDef) and c.name == 'OrderedConfigParser']:
    for x in ast.walk(cls):
      if isinstance(x, ast.keyword) and x.arg in PARSER_OPTS:
        hits.append((x.value, x.arg))
      elif isinstance(x, ast.Constant) and isinstance(x.value, str) and x.value in PARSER_OPTS:
        hits.append((x, x.value))
  for m in check.repo.modules.values():
    for c in ast.walk(m.tree):
      if isinstance(c, ast.Call) and (dotted(c.func) or '').split('.')[-1] in ('OrderedConfigParser', 'ConfigParser', 'RawConfigParser', 'SafeConfigParser'):
        for k in c.keywords:
          if k.arg in PARSER_OPTS or k.arg is None:
            hits.append((c, k.arg or '**kwargs'))
        if len(c.args) > 0 and (dotted(c.func) or '').split('.')[-1] != 'OrderedConfigParser':
          hits.append((c, 'positional arguments'))
  if hits:
    for node, what in hits[:3]:
      rule.violate('configuration syntax changed', 'carbon.conf:OrderedConfigParser', node, 'the parser of the rules / schema files is '
                   'created with `%s`: option values are no longer taken as written (an inline-comment prefix cuts `pattern = ;dc=east` '
                   'to the empty pattern, which matches every metric)' % what, construct='ConfigParser option %s' % what)
  else:
    rule.ok('rules / schema files are parsed with the default ConfigParser syntax', 'lib/carbon/conf.py')
