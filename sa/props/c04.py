"""C04 - An orderly shutdown writes out everything that was accepted.

Decided: must-pass-through arguments on the CFGs of writeForever,
writeCachedDataPoints, shutdownModifyUpdateSpeed and WriterService.startService.
Not decided: Twisted's shutdown ordering / thread-pool join; that the final
pass terminates under a rate limit.
"""
import ast

from ..model import dotted, unparse, norm, walk_no_nested
from ..rulelib import Ctx, nodes_calling, short, receiver_names
from .c03 import is_none_edge


def _mentions_running(test):
  for n in ast.walk(test):
    d = dotted(n) if isinstance(n, (ast.Attribute, ast.Name)) else None
    if d and (d == 'reactor.running' or d.endswith('.running')):
      return True
  return False


def run(check):
  cx = Ctx(check)
  repo = check.repo
  check.explanation = (
    'Must-pass-through on the writer thread\'s CFG: wherever the stop is observed (any test edge on which '
    'reactor.running is seen False), every path to the thread\'s return passes one more drain; the drain '
    'loop only exits on an empty cache; the before-shutdown trigger is registered and zeroes MIN_TIMESTAMP_LAG '
    'on every path. Decides these structural clauses, not Twisted\'s shutdown ordering.')
  check.not_decided = ['Twisted shutdown ordering and thread-pool join', 'termination of the final pass under a rate limit']
  check.trusted_base = ['twisted.internet.reactor (callInThread, addSystemEventTrigger)']

  # ------------------------------------------------------------------ final drain
  r_fd = check.rule('R-C04-final-drain', 1, 'a drain pass follows every observation of the stop')
  wf = cx.fn('carbon.writer', 'writeForever')
  g = cx.cfg(wf)
  drains = set(nodes_calling(g, lambda c: cx.calls_function(c, wf, 'carbon.writer', 'writeCachedDataPoints')))
  r_fd.require(drains, 'writeForever does not call writeCachedDataPoints at all')
  # the stop is observed wherever reactor.running is READ (in a loop test, or into a local that is tested later): every
  # path from such a read to the return of the writer thread passes a drain pass
  def own_expr(n):
    if n.ast is None:
      return None
    if n.kind == 'test':
      return n.ast
    if isinstance(n.ast, (ast.If, ast.While)):
      return n.ast.test
    if isinstance(n.ast, (ast.For, ast.With, ast.Try, ast.FunctionDef, ast.ClassDef)):
      return None
    return n.ast
  reads = [n for n in g.nodes if n.kind in ('stmt', 'test') and own_expr(n) is not None and n not in drains and
           any(_mentions_running(x) for x in walk_no_nested(own_expr(n)) if isinstance(x, ast.Attribute) and isinstance(x.ctx, ast.Load))]
  r_fd.require(reads, 'no read of reactor.running found in writeForever (stop condition not recognised)')
  for a in reads:
    succs = [b_ for (b_, lab) in a.succ if lab != 'exc']
    rr = g.reach(succs, removed_nodes=drains)
    if g.exit in rr:
      p = g.path(succs, g.exit, removed_nodes=drains)
      r_fd.violate('stop observed at line %d' % a.lineno, wf, a.ast,
                   'after reactor.running is read here (and found False) the writer thread can return without another '
                   'call to writeCachedDataPoints(): datapoints stored since the last pass stay in the cache',
                   path=g.describe_path([a] + (p or [])))
    else:
      r_fd.ok('stop observed at line %d -> drain before return' % a.lineno, wf.loc(a.ast))
  # the loop must not be leavable without observing the stop at all (e.g. a bare return/break in the body)
  if reads:
    rr = g.reach([g.entry], removed_nodes=drains | set(reads))
    from ..paths import feasible_exit_avoiding
    if g.exit in rr and feasible_exit_avoiding(cx, wf, drains | set(reads)) is not None:
      p = g.path([g.entry], g.exit, removed_nodes=drains | set(reads))
      last = [x for x in (p or []) if x.ast is not None]
      r_fd.violate('exit without stop or drain', wf, last[-1].ast if last else wf.node,
                   'writeForever can return on a path that neither observes the stop nor drains',
                   path=g.describe_path(p))

  # ------------------------------------------------------------------ drain to empty
  r_de = check.rule('R-C04-drain-to-empty', 1, 'writeCachedDataPoints returns normally only when the cache is empty '
                    'or the strategy has nothing to hand out')
  wc = cx.fn('carbon.writer', 'writeCachedDataPoints')
  gc = cx.cfg(wc)
  drain_nodes = nodes_calling(gc, lambda c: cx.calls_method(c, wc, {'_MetricCache'}, 'drain_metric'))
  mvar = None
  if drain_nodes and isinstance(drain_nodes[0].ast, ast.Assign) and isinstance(drain_nodes[0].ast.targets[0], ast.Tuple):
    e0 = drain_nodes[0].ast.targets[0].elts[0]
    mvar = e0.id if isinstance(e0, ast.Name) else None
  cache_names = set()
  for n in gc.nodes:
    if n.kind == 'stmt' and isinstance(n.ast, ast.Assign) and isinstance(n.ast.value, ast.Call) and \
       cx.calls_function(n.ast.value, wc, 'carbon.cache', 'MetricCache'):
      for t in n.ast.targets:
        if isinstance(t, ast.Name):
          cache_names.add(t.id)
  r_de.require(cache_names, 'the MetricCache() singleton is not bound to a local in writeCachedDataPoints')

  def allowed_exit(a, lab, b):
    if not isinstance(lab, tuple):
      return False
    pol, t = lab
    if pol == 'F' and isinstance(t, ast.Name) and t.id in cache_names and a.kind in ('test',):
      # the outermost loop test `while cache`
      return True
    if mvar and is_none_edge(lab, mvar):
      return True
    return False
  rr = gc.reach([gc.entry], removed_edge=allowed_exit, normal_only=True)
  if gc.exit in rr:
    p = gc.path([gc.entry], gc.exit, removed_edge=allowed_exit, normal_only=True)
    last = [x for x in (p or []) if x.ast is not None]
    r_de.violate('early exit', wc, last[-1].ast if last else wc.node,
                 'writeCachedDataPoints can return normally while the cache still holds datapoints (an exit that is '
                 'neither "cache empty" nor "drain returned no metric")', path=gc.describe_path(p))
  else:
    r_de.ok('normal exits: cache empty / drain returned None', wc.loc())

  # ------------------------------------------------------------------ trigger
  r_tr = check.rule('R-C04-trigger', 3, 'shutdown trigger registered; it zeroes the lag and re-rates the buckets')
  ss = cx.fn('carbon.writer', 'WriterService.startService')
  trig = None
  for c in [n for n in walk_no_nested(ss.node, include_self=False) if isinstance(n, ast.Call)]:
    d = dotted(c.func) or ''
    if d.endswith('addSystemEventTrigger') and len(c.args) >= 3:
      phase = [a.value for a in c.args[:2] if isinstance(a, ast.Constant)]
      if phase == ['before', 'shutdown']:
        for t in check.types.expr_types(c.args[2], ss.module, ss):
          if t[0] == 'func':
            trig = t[1]
            r_tr.ok('before-shutdown trigger registered -> %s' % trig.qualname, ss.loc(c))
  if trig is None:
    r_tr.violate('no trigger', ss, None, 'WriterService.startService does not register a before-shutdown trigger '
                 'that resolves to a function of the repository', construct='addSystemEventTrigger')
  else:
    gt = cx.cfg(trig)
    zero = [n for n in gt.nodes if n.kind == 'stmt' and isinstance(n.ast, ast.Assign) and
            any((dotted(t) or '').endswith('MIN_TIMESTAMP_LAG') for t in n.ast.targets) and
            isinstance(n.ast.value, ast.Constant) and n.ast.value.value == 0]
    rr = gt.reach([gt.entry], removed_nodes=set(zero))
    if gt.exit in rr or not zero:
      p = gt.path([gt.entry], gt.exit, removed_nodes=set(zero))
      r_tr.violate('lag not zeroed on every path', trig, (zero[0].ast if zero else trig.node),
                   'the shutdown trigger can return without setting settings.MIN_TIMESTAMP_LAG = 0 (e.g. through an '
                   'exception handler): a lagging strategy then hands out nothing and the final pass ends early',
                   path=gt.describe_path(p), construct='settings.MIN_TIMESTAMP_LAG = 0')
    else:
      r_tr.ok('MIN_TIMESTAMP_LAG = 0 on every returning path (incl. handler paths)', trig.loc(zero[0].ast))
    rule_unset_option(check, cx, trig, r_tr)
    # re-rating of buckets in place
    names = set(receiver_names(cx, trig, 'setCapacityAndFillRate'))
    for b in ('UPDATE_BUCKET', 'CREATE_BUCKET'):
      if b in names:
        r_tr.ok('%s re-rated in place at shutdown' % b, trig.loc())
      else:
        r_tr.violate('%s not re-rated' % b, trig, None, 'the shutdown trigger does not call %s.setCapacityAndFillRate'
                     % b, construct='%s.setCapacityAndFillRate' % b)

  # ------------------------------------------------------------------ "nothing to hand out" is answered from the live cache
  r_ea = check.rule('R-C04-empty-answer', 2, 'drain_metric says "nothing to drain" only after asking the cache / the strategy in that very call')
  from ..paths import PathExec, mentions
  from ..symeval import canon
  dm = repo.cls('carbon.cache', '_MetricCache').methods.get('drain_metric')
  if dm is None:
    r_ea.cannot_decide('_MetricCache.drain_metric not found')
  else:
    gdm = cx.cfg(dm)
    px = PathExec(cx, dm, unroll=0, follow_exceptions=False)
    SELF = ('param', dm.params[0])
    rets = [n for n in gdm.nodes if n.kind == 'stmt' and isinstance(n.ast, ast.Return)]
    n_none = 0
    for hit in px.run(rets):
      v = hit.term(hit.node.ast.value, px) if hit.node.ast.value is not None else ('const', None)
      first = v[1] if isinstance(v, tuple) and v[0] == 'tuple' and len(v) > 1 else v
      if first != ('const', None):
        continue
      n_none += 1
      justified = False
      other = None
      for pol, t, a, n in hit.conds:
        if pol not in ('T', 'F') or not isinstance(t, tuple):
          continue
        if t == ('truth', SELF) and pol == 'F':
          justified = True          # `not self`: the cache is empty right now
        elif t[0] == 'cmp' and t[1] in ('Is', 'Eq') and t[3] == ('const', None) and pol == 'T' and \
            mentions(t[2], lambda x: isinstance(x, tuple) and ((x[0] == 'meth' and x[1] == 'choose_item') or
                                                                (x[0] == 'call' and x[1] in ('next', 'self.strategy.choose_item')))):
          justified = True          # the strategy (or the plain iteration) was asked in this call and had nothing
        elif t[0] == 'truth' and isinstance(t[1], tuple) and t[1][0] == 'attr' and t[1][1] == SELF and t[1][2] != 'strategy':
          other = a
      if justified and other is None:
        r_ea.ok('"nothing to drain" follows an emptiness test / a strategy answer of this call', dm.loc(hit.node.ast))
      else:
        r_ea.violate('stale "nothing to drain"', dm, other if other is not None else hit.node.ast, 'drain_metric can answer (None, ...) '
                     'on a path decided by `%s` rather than by asking the cache or the strategy in this call: remembered state goes '
                     'stale when the clock or a setting (the lag zeroed at shutdown) changes what the strategy would hand out, and '
                     'the final pass then ends with datapoints still cached' % (unparse(other) if other is not None else 'nothing'))
    if not n_none:
      r_ea.cannot_decide('drain_metric has no path that answers "nothing to drain"')

  # ------------------------------------------------------------------ zeroing the lag really switches the lag filter off
  r_lg = check.rule('R-C04-lag-off', 1, 'with MIN_TIMESTAMP_LAG = 0 (installed by the shutdown trigger) no strategy holds metrics back')
  from .c17 import lag_conditions
  base = repo.cls('carbon.cache', 'DrainStrategy')
  seen_filter = False
  for sc in repo.subclasses(base):
    for f in sc.module.all_functions():
      if f.cls is sc and 'MIN_TIMESTAMP_LAG' in unparse(f.node) and not isinstance(f.node, ast.Lambda):
        conds = lag_conditions(f)
        if not conds:
          continue
        seen_filter = True
        probs = [n for n, _, guarded in conds if not guarded]
        if probs:
          r_lg.violate('%s keeps filtering at lag 0' % sc.name, f, probs[0], '%s applies its MIN_TIMESTAMP_LAG filter even when the lag is '
                       '0: at shutdown metrics whose oldest timestamp is not older than "now" are never drained and stay in the cache '
                       'when the writer exits' % sc.name)
        else:
          r_lg.ok('%s: the lag filter is off when settings.MIN_TIMESTAMP_LAG is 0' % sc.name, f.loc())
  if not seen_filter:
    r_lg.ok('no strategy filters by MIN_TIMESTAMP_LAG', 'lib/carbon/cache.py')

  # ------------------------------------------------------------------ a failing write does not end the pass
  r_pf = check.rule('R-C04-pass-survives-faults', 1, 'a backend failure while writing one metric does not end the drain pass (the last '
                    'pass has nobody to retry it)')
  DBC = {'TimeSeriesDatabase'}
  wcalls = nodes_calling(gc, lambda c: cx.calls_method(c, wc, DBC, 'write') or cx.calls_method(c, wc, DBC, 'create'))
  for w in wcalls:
    esc = [y for y, lab in w.succ if lab == 'exc' and y is gc.raise_exit]
    # which handlers guard the call, and what do they catch
    trys = []
    p_ = getattr(w.ast, '_parent', None)
    while p_ is not None and p_ is not wc.node:
      if isinstance(p_, ast.Try) and any(x is w.ast for b_ in p_.body for x in ast.walk(b_)):
        trys.append(p_)
      p_ = getattr(p_, '_parent', None)
    broad = any(h.type is None or (dotted(h.type) in ('Exception', 'BaseException')) or
                (isinstance(h.type, ast.Tuple) and any(dotted(e) in ('Exception', 'BaseException') for e in h.type.elts))
                for t_ in trys for h in t_.handlers)
    if broad:
      r_pf.ok('failure of `%s` is caught inside the pass' % short(w.ast, 40), wc.loc(w.ast))
    else:
      r_pf.violate('backend failure ends the pass', wc, w.ast, 'an exception raised by `%s` is not caught by an `except Exception` inside '
                   'writeCachedDataPoints (handlers: %s): it ends the whole pass, and when that is the pass after the stop every metric '
                   'still queued stays in the cache as the writer thread exits' % (
                     short(w.ast, 50), ', '.join(unparse(h.type) if h.type is not None else 'bare' for t_ in trys for h in t_.handlers) or 'none'))

  # ------------------------------------------------------------------ a store racing the last drain is not orphaned
  from ..cachemodel import CacheModel
  from .c02 import rule_lockset, rule_escape
  cmx4 = CacheModel(cx)
  r_il = check.rule('R-C04-store-interleaving', 10, 'a datapoint accepted while the writer drains is either still in the cache or in the '
                    'drained batch (shared with C02/C03): every cache access of store/drain holds the lock, no per-metric dict is used '
                    'across critical sections')
  rule_lockset(check, cmx4, r_il)
  rule_escape(check, cmx4, r_il)

  # ------------------------------------------------------------------ thread
  r_th = check.rule('R-C04-thread', 1, 'the writer loop runs in the reactor thread pool')
  found = False
  for c in [n for n in walk_no_nested(ss.node, include_self=False) if isinstance(n, ast.Call)]:
    d = dotted(c.func) or ''
    if d.endswith('callInThread') and c.args:
      for t in check.types.expr_types(c.args[0], ss.module, ss):
        if t[0] == 'func' and t[1].qualname == 'writeForever':
          found = True
          r_th.ok('reactor.callInThread(writeForever)', ss.loc(c))
  if not found:
    r_th.violate('writer not started in thread pool', ss, None,
                 'WriterService.startService does not start writeForever with reactor.callInThread, so shutdown '
                 'does not wait for the final drain', construct='reactor.callInThread(writeForever)')
  rule_stable_globals(check, cx, check.rule('R-C04-stable-globals', 1, 'globals the writer thread tests and then dereferences are not rebound by the reactor thread'))


def rule_unset_option(check, cx, trig, rule):
  """the shutdown trigger reads options that have no built-in default (MAX_UPDATES_PER_SECOND_ON_SHUTDOWN): what the settings
  object raises for an unset option must be caught where it is read, otherwise the trigger dies before it zeroes the lag."""
  from ..rulelib import conf_defaults, settings_miss_exceptions
  defaults = conf_defaults(check.repo)
  miss = settings_miss_exceptions(check.repo)
  if not rule.require(defaults is not None and miss is not None, 'carbon.conf defaults table / Settings class not found'):
    return
  reads = [x for x in walk_no_nested(trig.node, include_self=False) if isinstance(x, ast.Attribute) and isinstance(x.ctx, ast.Load) and
           isinstance(x.value, ast.Name) and x.value.id == 'settings' and x.attr.isupper() and x.attr not in defaults]
  seen = set()
  for x in reads:
    if x.attr in seen:
      continue
    seen.add(x.attr)
    first = min([y for y in reads if y.attr == x.attr], key=lambda y: (y.lineno, y.col_offset))
    node, caught = first, set()
    while node is not trig.node and node is not None:
      par = getattr(node, '_parent', None)
      if isinstance(par, ast.Try) and any(node is s for s in par.body):
        for h in par.handlers:
          if h.type is None:
            caught |= {'*'}
          else:
            caught |= {unparse(e).split('.')[-1] for e in (h.type.elts if isinstance(h.type, ast.Tuple) else [h.type])}
      node = par
    ok = '*' in caught or 'Exception' in caught or 'BaseException' in caught or miss <= caught or \
        ('LookupError' in caught and miss <= {'KeyError', 'IndexError'})
    if ok:
      rule.ok('settings.%s (no default): %s is caught where it is read' % (x.attr, '/'.join(sorted(miss))), trig.loc(first))
    else:
      rule.violate('unset option kills the trigger', trig, first, 'settings.%s has no built-in default; reading it when unset raises %s '
                   '(carbon.conf.Settings.__getattr__), which the handlers around the read (%s) do not catch: the trigger '
                   'ends before settings.MIN_TIMESTAMP_LAG = 0 and the final pass leaves lagging datapoints in the cache'
                   % (x.attr, '/'.join(sorted(miss)), ', '.join(sorted(caught)) or 'none'))


def rule_stable_globals(check, cx, rule):
  """module globals the writer thread tests and then uses (`if UPDATE_BUCKET: ... UPDATE_BUCKET.drain(...)`) are never
  rebound by a function (the shutdown trigger and the reload tasks run in the reactor thread): a rebinding between the
  test and the use makes the writer fail with the drained batch in hand."""
  mod = check.repo.module('carbon.writer')
  fn = cx.fn('carbon.writer', 'writeCachedDataPoints')
  gl = set(mod.globals)
  used = {}
  for t in ast.walk(fn.node):
    if isinstance(t, (ast.If, ast.While, ast.IfExp)):
      tested = {x.id for x in ast.walk(t.test) if isinstance(x, ast.Name) and x.id in gl}
      for st in (t.body if isinstance(t.body, list) else [t.body]):
        for x in ast.walk(st):
          if isinstance(x, ast.Attribute) and isinstance(x.value, ast.Name) and x.value.id in tested:
            used.setdefault(x.value.id, x)
      for x in ast.walk(t.test):       # `if not B or B.peek(1)`
        if isinstance(x, ast.Attribute) and isinstance(x.value, ast.Name) and x.value.id in tested and \
           isinstance(t.test, ast.BoolOp):
          used.setdefault(x.value.id, x)
  local = {a.arg for a in fn.node.args.args} | {x.id for x in ast.walk(fn.node) if isinstance(x, ast.Name) and isinstance(x.ctx, ast.Store)}
  for name in sorted(set(used) - local):
    rebinders = []
    for f in mod.all_functions():
      if isinstance(f.node, ast.Lambda):
        continue
      if any(isinstance(x, ast.Global) and name in x.names for x in ast.walk(f.node)) and \
         any(isinstance(x, ast.Name) and x.id == name and isinstance(x.ctx, (ast.Store, ast.Del)) for x in ast.walk(f.node)):
        rebinders.append(f)
    if rebinders:
      f = rebinders[0]
      st = [x for x in ast.walk(f.node) if isinstance(x, ast.Name) and x.id == name and isinstance(x.ctx, (ast.Store, ast.Del))][0]
      rule.violate('tested-then-used global is rebound at run time', f, st, '%s() rebinds the module global %s, which the writer thread '
                   'tests and then dereferences (`%s`) without a lock: when the rebinding lands in between, the writer raises with '
                   'the drained batch in hand' % (f.qualname, name, short(used[name], 40)))
    else:
      rule.ok('%s is bound at import only' % name, fn.loc(used[name]))
