"""C02 - The cache neither loses nor duplicates datapoints; last write wins; size exact.

Decided: an inductive-invariant argument over _MetricCache that holds for every
interleaving - lockset, alias confinement, per-critical-section size delta,
whole-dict pop returned sorted, ownership of the cache state across the repo.
Not decided: the values a cache query returns; fairness.
"""
import ast

from ..model import dotted, unparse, norm, walk_no_nested
from ..rulelib import Ctx, reaching_defs, value_assigned, short, resolve_copies
from ..cachemodel import CacheModel, MUTATING, STRUCT_READS, PURE_READERS, ALIAS_READ_METHODS, path_facts

SORT_KEYS_OK = ('by_timestamp', 'itemgetter(0)', 'operator.itemgetter(0)', 'lambda x: x[0]', 'lambda t_v: t_v[0]',
                'lambda kv: kv[0]', 'lambda item: item[0]')


def rule_lockset(check, cm, rule):
  """every access that mutates the cache (or looks a per-metric dict up in a mutating method) holds the lock;
  a per-metric dict alias is used only inside the critical section that looked it up."""
  inherited = cm.lock_inherited()
  for name, m in sorted(cm.methods.items()):
    accs = cm.accesses[name]
    if not cm.is_mutating(name):
      continue
    for a in accs:
      if a.kind in MUTATING or a.kind in STRUCT_READS:
        if cm.holds_lock(a):
          rule.ok('%s %s in %s holds the lock' % (a.kind, short(a.node, 40), name), m.loc(a.node))
        else:
          what = 'mutates' if a.kind in MUTATING else 'reads'
          rule.violate('%s outside the lock' % a.kind, m, a.node,
                       '`%s` %s cache state in %s() without holding self.%s: a store/drain on the other thread can '
                       'interleave between this access and the critical section that relies on it'
                       % (short(a.node, 60), what, name, cm.lock_attr))
      if a.kind == 'self-call':
        callee = a.detail
        if callee in inherited and not cm.holds_lock(a):
          rule.violate('lock-requiring helper called unlocked', m, a.node,
                       '%s() must be called with the lock held (all its other callers hold it) but `%s` does not'
                       % (callee, short(a.node)))
        elif a.block is not None and cm.lock_blocks(cm.methods[callee]):
          rule.violate('self-deadlock', m, a.node, '%s() acquires the non-reentrant cache lock while `%s` already '
                       'holds it' % (callee, name))
    # alias confinement: one block for definition and every use
    al = cm.aliases[name]
    for var, kind in sorted(al.items()):
      if kind == 'owned':
        continue
      blocks = set()
      nodes = []
      for n in walk_no_nested(m.node, include_self=False):
        if isinstance(n, ast.Name) and n.id == var:
          blocks.add(id(cm.block_of(m, n)) if cm.block_of(m, n) is not None else None)
          nodes.append(n)
      if name in inherited:
        continue
      if len(blocks) > 1 or None in blocks:
        bad = [n for n in nodes if cm.block_of(m, n) is None] or nodes
        rule.violate('alias `%s` crosses critical sections' % var, m, bad[0],
                     'the per-metric dict `%s` is looked up in one place and used in another critical section (or '
                     'outside the lock) in %s(): it may have been drained in between' % (var, name),
                     construct='alias %s' % var)
      else:
        rule.ok('alias `%s` confined to one critical section of %s' % (var, name), m.loc())
  for h in sorted(inherited):
    for f, c in cm.external_calls(h):
      rule.violate('lock-requiring helper called from outside', f, c, '%s.%s() relies on its caller holding the cache '
                   'lock; `%s` calls it from outside the class' % (cm.cls.name, h, short(c)))


def rule_escape(check, cm, rule):
  """no alias of a per-metric dict that is still in the cache leaves the critical section."""
  for attr in sorted(cm.alias_attrs()):
    for name, m in cm.methods.items():
      for n in walk_no_nested(m.node, include_self=False):
        if isinstance(n, ast.Assign) and any(isinstance(t, ast.Attribute) and cm.is_self(t.value) and t.attr == attr
                                             for t in n.targets):
          if any(isinstance(x, ast.Name) and x.id in cm.aliases[name] for x in ast.walk(n.value)) or \
             any(isinstance(x, ast.Subscript) and cm.is_self(x.value) for x in ast.walk(n.value)):
            rule.violate('alias stored in self.%s' % attr, m, n,
                         'a per-metric dict that is still in the cache is remembered in self.%s beyond the critical '
                         'section: after a drain removes that metric the remembered dict is orphaned and later stores '
                         'into it are lost' % attr)
  for name, m in sorted(cm.methods.items()):
    al = {k for k, v in cm.aliases[name].items() if v != 'owned'}
    for n in walk_no_nested(m.node, include_self=False):
      val = None
      what = None
      if isinstance(n, ast.Return) and n.value is not None:
        val, what = n.value, 'returned'
      elif isinstance(n, (ast.Yield, ast.YieldFrom)) and n.value is not None:
        val, what = n.value, 'yielded'
      if val is None:
        continue
      leaked = _leaks(cm, val, al)
      if leaked is not None:
        rule.violate('alias %s' % what, m, n, 'the live per-metric dict `%s` is %s by %s(): the caller can read or '
                     'modify it while the other thread stores into / drains it' % (unparse(leaked), what, name))
      else:
        rule.ok('%s() hands out no live per-metric dict' % name, m.loc(n))


def _leaks(cm, expr, aliases):
  """the sub-expression through which a shared alias escapes, or None."""
  if isinstance(expr, ast.Name):
    return expr if expr.id in aliases else None
  if isinstance(expr, ast.Subscript) and cm.is_self(expr.value):
    return expr
  if isinstance(expr, ast.Call):
    f = expr.func
    if isinstance(f, ast.Name) and f.id in PURE_READERS:
      return None
    if isinstance(f, ast.Attribute) and f.attr in ('items', 'keys', 'values', 'copy') and not expr.args:
      # a dict view is still live, but only the repo's copying idioms wrap it: check the parent context
      base = f.value
      if isinstance(base, ast.Name) and base.id in aliases:
        return expr if f.attr != 'copy' else None
      if isinstance(base, ast.Call) and isinstance(base.func, ast.Attribute) and cm.is_self(base.func.value) and \
         base.func.attr == 'get':
        return expr
      return None
    if isinstance(f, ast.Attribute) and cm.is_self(f.value) and f.attr == 'get':
      return expr
    return None
  if isinstance(expr, (ast.Tuple, ast.List)):
    for e in expr.elts:
      r = _leaks(cm, e, aliases)
      if r is not None:
        return r
  return None


def rule_delta(check, cm, rule, r10=None, r10u=None, r09=None, r10g=None):
  """per critical section: size delta == key delta on every path (and the C10/C09 path clauses)."""
  for name, m in sorted(cm.methods.items()):
    if name in cm.lock_inherited():
      continue
    for block in cm.lock_blocks(m):
      g, facts = path_facts(cm, m, block)
      if not facts:
        rule.cannot_decide('no path enumerated through the critical section of %s()' % name)
        continue
      for pf in facts:
        label = '%s() path %s' % (name, ' '.join(str(n.lineno) for n in pf.nodes))
        n_ins = len(pf.inserts)
        removals = [a for a in pf.struct if a.kind == 'struct-write' and 'pop' in (a.detail or '')]
        others = [a for a in pf.struct if a not in removals]
        anchor = (pf.inserts[0].node if pf.inserts else (pf.struct[0].node if pf.struct else block))
        refused = pf.full == 'full'
        if pf.inc >= 99:
          rule.violate('unrecognised size update', m, anchor, 'self.size is updated by something other than `+= 1` / '
                       '`-= len(removed)` on %s' % label)
          continue
        if removals or pf.dec:
          if len(removals) == pf.dec and not pf.inc and not n_ins:
            rule.ok('%s: %d removal(s) == %d size decrement(s)' % (label, len(removals), pf.dec), m.loc(block))
          else:
            rule.violate('size out of step with removal', m, anchor, '%s removes %d per-metric dict(s) but decrements '
                         'size %d time(s)' % (label, len(removals), pf.dec))
          continue
        if pf.key == 'conflict':
          continue      # infeasible: both "new" and "duplicate" outcomes on one path
        if refused:
          muts = n_ins + len(others) + pf.inc + len(pf.strategy) + pf.newmetrics
          if r10 is not None:
            if muts == 0 and pf.overflow == 1:
              r10.ok('%s: refusal signals once and mutates nothing' % label, m.loc(block))
            elif muts:
              first = (pf.inserts + others + pf.strategy)[0].node if (pf.inserts + others + pf.strategy) else block
              r10.violate('refusal mutates the cache', m, first, 'on the refusal path (%s) the cache is modified by `%s`: '
                          'a refused datapoint must leave contents, metric count and bookkeeping unchanged'
                          % (label, short(first)))
            else:
              r10.violate('refusal not signalled exactly once', m, _full_test(pf) or block,
                          'on the refusal path (%s) events.cacheOverflow() is called %d time(s): every refused '
                          'datapoint must raise the overflow signal' % (label, pf.overflow),
                          construct='refusal path of %s' % name)
          continue
        if pf.key == 'new':
          if pf.inc == 1 and n_ins == 1:
            rule.ok('%s: new key -> size += 1 and one insert' % label, m.loc(block))
          elif pf.inc == 0 and n_ins == 0 and not others:
            rule.ok('%s: nothing stored' % label, m.loc(block))
          else:
            rule.violate('size delta != key delta', m, anchor, 'on %s a new (metric, timestamp) key gives %d insert(s) '
                         'but size += %d' % (label, n_ins, pf.inc))
          if pf.inc:
            if pf.full == 'notfull':
              if r10g is not None:
                r10g.ok('%s: growth follows a not-full test in the same critical section' % label, m.loc(block))
            else:
              if r10g is not None:
                r10g.violate('unguarded growth', m, anchor, 'on %s the cache grows without a `is_full` test having been '
                             'False in the same critical section' % label)
          if r09 is not None and pf.inc:
            if pf.near == 'nearfull' and pf.cachefull != 1:
              r09.violate('full signal outside the critical section', m, anchor,
                          'on %s the cache is observed at/above MAX_CACHE_SIZE but events.cacheFull() is not raised '
                          'inside the same critical section (%d call(s)): a drain can slip between the observation and '
                          'the signal and its space check is lost' % (label, pf.cachefull))
            elif pf.near == 'nearfull':
              r09.ok('%s: cacheFull raised inside the critical section that observed it' % label, m.loc(block))
            elif pf.near is None and pf.cachefull == 0:
              r09.violate('fullness not tested on growth', m, anchor, 'on %s the cache grows without testing '
                          'is_nearly_full inside the critical section' % label)
        elif pf.key == 'dup':
          if pf.inc == 0 and n_ins == 1:
            rule.ok('%s: duplicate key -> overwrite, size unchanged' % label, m.loc(block))
            if r10u is not None:
              if pf.full is None:
                r10u.ok('%s: update of a cached timestamp does not consult is_full' % label, m.loc(block))
              else:
                r10u.ok('%s: update accepted after is_full test (%s)' % (label, pf.full), m.loc(block))
          elif n_ins == 0 and r10u is not None and pf.inc == 0:
            r10u.violate('update refused', m, block, 'on %s an update of an already cached timestamp is not stored' % label)
          else:
            rule.violate('size delta != key delta', m, anchor, 'on %s a duplicate key gives %d insert(s) and size += %d'
                         % (label, n_ins, pf.inc))
        else:
          if pf.inc or n_ins or others:
            rule.violate('mutation not tied to the new-key test', m, anchor, 'on %s the cache is modified (size += %d, %d '
                         'insert(s), %d other) without a test of whether (metric, timestamp) is already cached in the same '
                         'critical section' % (label, pf.inc, n_ins, len(others)))
          else:
            rule.ok('%s: no mutation' % label, m.loc(block))


def _full_test(pf):
  for n in pf.nodes:
    if n.kind == 'test' and 'is_full' in unparse(n.ast):
      return n.ast
  return None


def rule_decrement(check, cm, rule):
  """size decreases by len() of exactly the dict removed in the same function."""
  for name, m in sorted(cm.methods.items()):
    g = None
    for a in cm.accesses[name]:
      if a.kind == 'size-write' and isinstance(a.node, ast.AugAssign) and isinstance(a.node.op, ast.Sub):
        v = a.node.value
        ok = False
        if isinstance(v, ast.Call) and isinstance(v.func, ast.Name) and v.func.id == 'len' and v.args and \
           isinstance(v.args[0], ast.Name):
          var = v.args[0].id
          g = cm.cx.cfg(m)
          nodes = g.nodes_of(a.node)
          rds = reaching_defs(g, var, nodes[0]) if nodes else []
          if len(rds) == 1 and rds[0] is not g.entry:
            rhs = value_assigned(rds[0], var)
            if isinstance(rhs, ast.Call) and cm.is_dict_base_call(rhs, {'pop'}):
              ok = True
        if ok:
          rule.ok('%s(): size -= len(<dict just removed>)' % name, m.loc(a.node))
        else:
          rule.violate('size decrement', m, a.node, 'self.size is decreased by `%s`, which is not the length of the '
                       'per-metric dict removed in this critical section' % unparse(v))


def rule_pop(check, cm, rule):
  """pop/drain return all items of the removed dict, sorted by timestamp."""
  from ..paths import PathExec
  from ..symeval import show
  cx = cm.cx
  for name in ('pop', 'drain_metric'):
    m = cm.methods.get(name)
    if m is None:
      rule.cannot_decide('%s.%s not found' % (cm.cls.name, name))
      continue
    SELF = ('param', m.params[0]) if m.params else ('param', 'self')

    def removed(t):
      """the per-metric dict taken out of the cache: dict.pop(self, k) / defaultdict.pop(self, k) / super().pop(k)"""
      if not isinstance(t, tuple):
        return False
      if t[0] == 'call' and isinstance(t[1], str) and t[1].endswith('.pop') and len(t) >= 3 and t[2] == SELF:
        return True
      return t[0] == 'meth' and t[1] == 'pop' and isinstance(t[2], tuple) and t[2][0] == 'call' and t[2][1] == 'super'

    def verdict(t):
      if isinstance(t, tuple) and t[0] == 'meth' and t[1] == 'pop' and t[2] == SELF:
        return 'ok'                    # delegates to pop(), judged there
      if not (isinstance(t, tuple) and t[0] == 'call' and t[1] == 'sorted' and len(t) >= 3):
        return 'not sorted(...)'
      a = t[2]
      if isinstance(a, tuple) and a[0] == 'call' and a[1] == 'list' and len(a) == 3:
        a = a[2]
      if not (isinstance(a, tuple) and a[0] == 'meth' and a[1] == 'items' and len(a) == 3 and removed(a[2])):
        return 'argument is not <removed dict>.items()'
      for kw in t[3:]:
        if not (isinstance(kw, tuple) and kw[0] == 'kw'):
          return 'unexpected argument `%s`' % show(kw)
        if kw[1] == 'reverse' and kw[2] != ('const', False):
          return 'reverse order'
        if kw[1] == 'key':
          fk = _first_component_key(kw[2], m.module)
          if fk == 'other':
            return 'the sort key is not the timestamp itself: datapoints whose keys compare equal stay in arrival order'
          if not fk:
            return 'unknown-key'
      return 'ok'
    px = PathExec(cx, m, unroll=1, follow_exceptions=False)
    g = px.g
    rets = {n for n in g.nodes if n.kind == 'stmt' and isinstance(n.ast, ast.Return) and n.ast.value is not None}
    judged = set()
    for hit in px.run(rets):
      r = hit.node.ast
      t = hit.term(r.value, px)
      if isinstance(t, tuple) and t[0] == 'tuple' and len(t) == 3:
        if t[1] == ('const', None):
          continue                     # "nothing to drain"
        t = t[2]
      v = verdict(t)
      if (id(r), v) in judged:
        continue
      judged.add((id(r), v))
      if v == 'ok':
        rule.ok('%s() returns sorted(<removed dict>.items()) by timestamp' % name, m.loc(r))
      elif v == 'unknown-key':
        rule.cannot_decide('unrecognised sort idiom in %s(): %s' % (name, norm(r)))
      else:
        rule.violate('batch shape', m, r, '%s() does not return every item of the removed per-metric dict sorted by '
                     'timestamp: `%s` evaluates to `%s` (%s)' % (name, short(r), show(t)[:160], v))
    if px.truncated:
      rule.cannot_decide('too many paths through %s()' % name)


def _first_component_key(t, module):
  """the sort key is `item -> item[0]` (the timestamp of a (timestamp, value) pair)"""
  from ..symeval import SymEval, canon
  if not isinstance(t, tuple):
    return False
  if t[0] == 'call' and t[1] in ('itemgetter', 'operator.itemgetter') and t[2:] == (('const', 0),):
    return True
  se = SymEval(None)
  if t[0] == 'opaque' and isinstance(t[1], str) and t[1].startswith('lambda'):
    try:
      src = ast.parse(t[1], mode='eval').body
    except SyntaxError:
      return False
    params = [a.arg for a in src.args.args]
    if len(params) != 1:
      return False
    rets = [se.ev(src.body, {params[0]: ('param', params[0])}, None)]
  elif t[0] in ('param', 'global') and isinstance(t[1], str) and not module.functions.get(t[1]) and len(module.globals.get(t[1], [])) == 1:
    # a module-level key object: by_timestamp = itemgetter(0)
    v = module.globals[t[1]][0]
    if isinstance(v, ast.Call) and (dotted(v.func) or '').split('.')[-1] == 'itemgetter' and len(v.args) == 1 and isinstance(v.args[0], ast.Constant):
      return True if v.args[0].value == 0 else 'other'
    return False
  elif t[0] in ('param', 'global') and isinstance(t[1], str):
    fs = module.functions.get(t[1])
    if not fs or len(fs[0].params) != 1:
      return False
    f = fs[0]
    params = f.params
    rec = []
    se.run(f.body, {params[0]: ('param', params[0])}, f, lambda c: None, rec)
    rets = [r[2][0] for r in rec if r[0] == '<return>']
  else:
    return False
  want = ('field', ('param', params[0]), 0)
  if bool(rets) and all(canon(r) == want or r == ('sub', ('param', params[0]), ('const', 0)) for r in rets):
    return True
  return 'other' if rets else False        # a resolved key function that returns something else than the timestamp itself


def _sorted_items(v, aliases, m=None):
  if not (isinstance(v, ast.Call) and isinstance(v.func, ast.Name) and v.func.id == 'sorted' and v.args):
    return 'not sorted(...)'
  a = v.args[0]
  if isinstance(a, ast.Call) and isinstance(a.func, ast.Name) and a.func.id == 'list' and a.args:
    a = a.args[0]
  if isinstance(a, ast.Name) and m is not None and aliases.get(a.id) is None:
    # a local that holds <removed dict>.items()
    srcs = resolve_copies(m, a)
    if len(srcs) == 1 and isinstance(srcs[0], ast.AST) and srcs[0] is not a:
      a = srcs[0]
  if not (isinstance(a, ast.Call) and isinstance(a.func, ast.Attribute) and a.func.attr == 'items' and
          isinstance(a.func.value, ast.Name) and aliases.get(a.func.value.id) == 'owned'):
    return 'argument is not <removed dict>.items()'
  for kw in v.keywords:
    if kw.arg == 'reverse' and not (isinstance(kw.value, ast.Constant) and kw.value.value is False):
      return 'reverse order'
    if kw.arg == 'key':
      if unparse(kw.value) not in SORT_KEYS_OK:
        return 'unknown-key'
  return 'ok'


def rule_lastwrite(check, cm, rule):
  m = cm.methods.get('store')
  if m is None:
    rule.cannot_decide('store() not found')
    return
  g = cm.cx.cfg(m)
  params = m.params
  if len(params) < 3:
    rule.cannot_decide('store() signature changed')
    return
  dp = params[2]
  for a in cm.accesses['store']:
    if a.kind in ('insert', 'alias-store') and isinstance(a.node, ast.Assign):
      tgt = a.node.targets[0]
      key, val = tgt.slice, a.node.value
      okk = okv = False
      nodes = g.nodes_of(a.node)
      for (e, pos) in ((key, 0), (val, 1)):
        ok = False
        if isinstance(e, ast.Name) and nodes:
          rds = reaching_defs(g, e.id, nodes[0])
          if len(rds) == 1 and rds[0] is not g.entry:
            v = value_assigned(rds[0], e.id)
            if isinstance(v, tuple) and v[0] == 'unpack' and isinstance(v[1], ast.Name) and v[1].id == dp and v[2] == (pos,):
              ok = True
        elif isinstance(e, ast.Subscript) and isinstance(e.value, ast.Name) and e.value.id == dp and \
            isinstance(e.slice, ast.Constant) and e.slice.value == pos:
          ok = True
        if pos == 0:
          okk = ok
        else:
          okv = ok
      if okk and okv:
        rule.ok('item store uses (timestamp, value) of the datapoint argument', m.loc(a.node))
      else:
        rule.violate('stored item', m, a.node, '`%s` does not store the datapoint\'s value under the datapoint\'s timestamp '
                     '(plain overwrite = last write wins)' % short(a.node))


def rule_dispatch_total(check, cx, rule):
  """an event never raises into the code that fires it: each handler call is isolated by `except Exception`, and the handler
  of that except cannot raise itself (drain_metric fires events after it removed the batch from the cache: an exception there
  loses the batch)."""
  from ..symeval import fmt_specs
  ev = check.repo.cls('carbon.events', 'Event')
  m = ev.methods.get('__call__')
  if m is None:
    rule.cannot_decide('carbon.events.Event.__call__ not found')
    return
  check.analysed(m)
  vararg = m.node.args.vararg.arg if m.node.args.vararg else None
  trys = [t for t in walk_no_nested(m.node, include_self=False) if isinstance(t, ast.Try)]
  calls = [c for c in walk_no_nested(m.node, include_self=False) if isinstance(c, ast.Call) and
           any(isinstance(a, ast.Starred) for a in c.args)]
  if not calls:
    rule.cannot_decide('Event.__call__: the handler call `handler(*args, **kwargs)` was not found')
    return
  for c in calls:
    guards = [t for t in trys if any(x is c for b_ in t.body for x in ast.walk(b_))]
    broad = [h for t in guards for h in t.handlers if h.type is None or dotted(h.type) in ('Exception', 'BaseException')]
    if not broad:
      rule.violate('handler exceptions escape', m, c, 'a handler raising an exception is not isolated by `except Exception` around `%s`: '
                   'the exception propagates into the code that fired the event' % short(c))
      continue
    bad = None
    for h in broad:
      for x in ast.walk(h):
        if isinstance(x, ast.Raise):
          bad = (x, 're-raises')
        if isinstance(x, ast.BinOp) and isinstance(x.op, ast.Mod) and isinstance(x.left, ast.Constant) and isinstance(x.left.value, str):
          n = len(fmt_specs(x.left.value))
          r = x.right
          if isinstance(r, ast.Tuple):
            if len(r.elts) != n:
              bad = (x, 'has %d conversion(s) for %d value(s)' % (n, len(r.elts)))
          elif n != 1 or (isinstance(r, ast.Name) and r.id == vararg):
            bad = (x, 'formats `%s`, a tuple of any length, with %d conversion(s): TypeError unless exactly that many arguments '
                      'were passed' % (unparse(r), n))
        if isinstance(x, (ast.Subscript,)) and isinstance(x.ctx, ast.Load):
          bad = (x, 'indexes `%s`, which can raise' % short(x))
    if bad:
      rule.violate('the isolating handler can raise', m, bad[0], 'the `except Exception` branch of Event.__call__ %s: the failure of one '
                   'handler then escapes from the event call after all' % bad[1])
    else:
      rule.ok('handler call isolated by except Exception whose body cannot raise', m.loc(c))


def rule_query_live(check, cm, rule):
  """a cache query answers from the cache as it is when the query arrives (no per-connection memory of earlier answers)."""
  from ..paths import PathExec, mentions
  repo = check.repo
  cx = cm.cx
  h = repo.cls('carbon.protocols', 'CacheManagementHandler')
  m = h.methods.get('stringReceived')
  if m is None:
    rule.cannot_decide('CacheManagementHandler.stringReceived not found')
    return
  check.analysed(m)
  g = cx.cfg(m)
  SELF = ('param', m.params[0])

  def from_live_cache(t):
    """the term reads the metric cache (MetricCache().get / [..] / .items()) ..."""
    return mentions(t, lambda x: isinstance(x, tuple) and x[0] in ('meth', 'call', 'sub') and
                    mentions(x, lambda y: y == ('call', 'MetricCache')))

  def remembered(t):
    """... and this one reads state kept on the handler object between requests"""
    own = ('peerAddr', 'unpickler', 'transport')
    return mentions(t, lambda x: isinstance(x, tuple) and (
      (x[0] == 'attr' and x[1] == SELF and x[2] not in own) or
      (x[0] == 'call' and isinstance(x[1], str) and x[1].startswith(SELF[1] + '.') and x[1].split('.')[1] not in own)))
  # the values put into the response under datapoints= / datapointsByMetric[...]
  sites = []

  def entries(x):
    """(key, value ast) of dict(k=v) / {'k': v} / d['k'] = v"""
    if isinstance(x, ast.Call) and isinstance(x.func, ast.Name) and x.func.id == 'dict':
      return [(kw.arg, kw.value) for kw in x.keywords if kw.arg]
    if isinstance(x, ast.Dict):
      return [(k.value, v) for k, v in zip(x.keys, x.values) if isinstance(k, ast.Constant) and isinstance(k.value, str)]
    return []
  bulk_names = set()
  stmts = [n for n in g.nodes if n.kind == 'stmt' and n.ast is not None]
  for n in stmts:
    found = [kv for x in walk_no_nested(n.ast) for kv in entries(x)]
    if isinstance(n.ast, ast.Assign):
      for t in n.ast.targets:
        if isinstance(t, ast.Subscript) and isinstance(t.slice, ast.Constant) and isinstance(t.slice.value, str):
          found.append((t.slice.value, n.ast.value))
    for k, v in found:
      if k == 'datapoints':
        sites.append((n, v, 'cache-query'))
      elif k == 'datapointsByMetric':
        sites.append((n, v, 'cache-query-bulk*'))
        if isinstance(v, ast.Name):
          bulk_names.add(v.id)
  for n in stmts:
    if isinstance(n.ast, ast.Assign):
      for t in n.ast.targets:
        if isinstance(t, ast.Subscript) and isinstance(t.value, ast.Name) and t.value.id in bulk_names:
          sites.append((n, n.ast.value, 'cache-query-bulk'))
  if not sites:
    rule.cannot_decide('no datapoints= / datapointsByMetric[...] value found in CacheManagementHandler.stringReceived')
    return
  px = PathExec(cx, m, unroll=0, follow_exceptions=False)
  judged = set()
  for hit in px.run({n for n, _, _ in sites}):
    for n, e, what in sites:
      if n is not hit.node:
        continue
      t = hit.term(e, px)
      if what.endswith('*'):
        # the whole mapping handed to dict(datapointsByMetric=...): judged only when it is built in one expression
        if not (isinstance(t, tuple) and t[0] == 'dictcomp'):
          continue
        t = t[2]
        what = what[:-1]
      key = (what, t)
      if key in judged:
        continue
      judged.add(key)
      if remembered(t):
        rule.violate('%s answered from memory' % what, m, e, 'the datapoints returned for a %s can come from state remembered on the '
                     'connection (`%s`): a store that overwrites a cached timestamp changes neither the entry object nor its length, '
                     'so the accepted value is neither returned by the query nor drained yet' % (what, short(e)))
      elif from_live_cache(t):
        rule.ok('%s reads the cache when the request arrives' % what, m.loc(e))
      elif t in (('list',), ('tuple',)) and any(pol == 'F' and isinstance(c, tuple) and c[0] == 'truth' and from_live_cache(c[1])
                                                  for pol, c, a_, n_ in hit.conds):
        rule.ok('%s: nothing cached for the metric right now -> empty answer' % what, m.loc(e))
      else:
        rule.cannot_decide('%s: the source of `%s` is not recognised' % (what, short(e)))
  if px.truncated:
    rule.cannot_decide('too many paths through CacheManagementHandler.stringReceived')


def rule_side_tables(check, cm, rule):
  """a per-metric table kept next to the cache entries loses a metric's entry wherever the metric leaves the cache."""
  tables = {}
  for name, m in cm.methods.items():
    for n in walk_no_nested(m.node, include_self=False):
      if isinstance(n, ast.Assign):
        for t in n.targets:
          if isinstance(t, ast.Subscript) and isinstance(t.value, ast.Attribute) and cm.is_self(t.value.value) and \
             isinstance(t.slice, ast.Name) and t.slice.id in m.params:
            tables.setdefault(t.value.attr, []).append((m, n))
  init = cm.cls.methods.get('__init__')
  if not tables:
    rule.ok('the cache keeps no per-metric table besides its entries', cm.cls.methods['__init__'].loc() if init else 'lib/carbon/cache.py')
    return
  for attr, sites in sorted(tables.items()):
    for name, m in sorted(cm.methods.items()):
      for a in cm.accesses[name]:
        removal = (a.kind == 'struct-write' and 'pop' in a.detail) or (isinstance(a.node, ast.Delete))
        if not removal or not isinstance(a.node, (ast.Call, ast.Assign, ast.Expr, ast.Delete)):
          continue
        scope = a.block if a.block is not None else m.node
        cleared = [c for c in ast.walk(scope) if (isinstance(c, ast.Call) and isinstance(c.func, ast.Attribute) and
                                                  c.func.attr in ('pop', '__delitem__') and isinstance(c.func.value, ast.Attribute) and
                                                  c.func.value.attr == attr) or
                   (isinstance(c, ast.Delete) and any(isinstance(t, ast.Subscript) and isinstance(t.value, ast.Attribute) and
                                                      t.value.attr == attr for t in c.targets))]
        if cleared:
          rule.ok('%s(): self.%s is cleared together with the cache entry' % (name, attr), m.loc(a.node))
        else:
          rule.violate('self.%s outlives the entry' % attr, m, a.node, '%s() removes a metric from the cache but leaves its entry in '
                       'self.%s (maintained by %s): when the metric is stored again the stale entry is merged with the new data '
                       '(e.g. an old "oldest timestamp" lets a fresh datapoint pass the MIN_TIMESTAMP_LAG filter)'
                       % (name, attr, sites[0][0].name))


def rule_owner(check, cm, rule):
  """nothing outside the cache class writes its state or auto-vivifies entries."""
  T = check.types
  count = 0
  for f in check.repo.all_functions():
    if f.cls is cm.cls:
      continue
    for n in walk_no_nested(f.node, include_self=False):
      recv = None
      kind = None
      if isinstance(n, (ast.Assign, ast.AugAssign)):
        for t in (n.targets if isinstance(n, ast.Assign) else [n.target]):
          if isinstance(t, ast.Attribute) and t.attr == 'size':
            recv, kind = t.value, 'writes .size'
          elif isinstance(t, ast.Subscript):
            base = t.value
            if isinstance(base, ast.Subscript):
              recv, kind = base.value, 'stores into a per-metric dict'
            else:
              recv, kind = base, 'assigns an entry'
      elif isinstance(n, ast.Delete):
        for t in n.targets:
          if isinstance(t, ast.Subscript):
            recv, kind = t.value, 'deletes an entry'
      elif isinstance(n, ast.Call) and isinstance(n.func, ast.Attribute) and \
          n.func.attr in ('clear', 'popitem', 'setdefault', 'update', '__setitem__', '__delitem__'):
        recv, kind = n.func.value, 'calls .%s()' % n.func.attr
      elif isinstance(n, ast.Subscript) and isinstance(n.ctx, ast.Load):
        recv, kind = n.value, 'auto-vivifying read'
      if recv is None:
        continue
      ts = T.expr_types(recv, f.module, f)
      if not any(t[0] == 'inst' and t[1].key == cm.cls.key for t in ts):
        continue
      count += 1
      if kind == 'auto-vivifying read' and f.cls is not None and f.name == 'store' and \
         any((not isinstance(b, tuple)) and b.name == 'DrainStrategy' for b in check.repo.mro(f.cls)):
        # strategy.store() runs inside store()'s critical section, after the insert (checked by R-C17-no-empty-entry)
        rule.ok('strategy store() indexes the entry that was just inserted', f.loc(n), f.key)
        continue
      rule.violate('cache state touched from outside', f, n, '%s %s of the metric cache (`%s`) outside %s, bypassing its '
                   'lock and size accounting' % (f.qualname, kind, short(n), cm.cls.name))
  # positive control: the rule must still recognise an outside writer
  rule.ok('who-may-write scan over %d functions outside %s' % (
    sum(1 for f in check.repo.all_functions() if f.cls is not cm.cls), cm.cls.name), cm.mod.relpath,
    '%d cache-typed access(es) outside the class examined' % count)


def run(check):
  cx = Ctx(check)
  cm = CacheModel(cx)
  check.explanation = (
    'Inductive invariant "size == number of cached (metric, timestamp) keys, and every datapoint is in exactly one '
    'place" proved structurally for every interleaving: (1) lockset - every mutation of the cache, and every lookup '
    'made by a mutating method, holds the one lock, and a per-metric dict alias never crosses critical sections; '
    '(2) no live alias escapes (not stored in attributes, not returned); (3) path-wise abstract count of every '
    'critical section: size delta == key delta; (4) a removal hands out the whole dict, sorted by timestamp; '
    '(5) nothing outside the class writes cache state. Decides this structure, not the values a query returns.')
  check.not_decided = ['value equality of what a cache query returns', 'fairness between the two threads']
  check.trusted_base = ['CPython dict / GIL atomicity of single bytecodes', 'threading.Lock']
  for m in cm.methods.values():
    check.analysed(m)
  r1 = check.rule('R-C02-lockset', 10, rule_lockset.__doc__)
  rule_lockset(check, cm, r1)
  r2 = check.rule('R-C02-escape', 3, rule_escape.__doc__)
  rule_escape(check, cm, r2)
  r3 = check.rule('R-C02-delta', 4, 'size delta == key delta on every path of every critical section')
  rule_delta(check, cm, r3)
  r3b = check.rule('R-C02-decrement', 1, rule_decrement.__doc__)
  rule_decrement(check, cm, r3b)
  r4 = check.rule('R-C02-pop', 2, rule_pop.__doc__)
  rule_pop(check, cm, r4)
  r5 = check.rule('R-C02-lastwrite', 2, 'both item stores are plain overwrites with the datapoint\'s own (timestamp, value)')
  rule_lastwrite(check, cm, r5)
  r6 = check.rule('R-C02-owner', 1, rule_owner.__doc__)
  rule_owner(check, cm, r6)
  r7 = check.rule('R-C02-query-live', 2, rule_query_live.__doc__)
  rule_query_live(check, cm, r7)
  r8 = check.rule('R-C02-side-tables', 1, rule_side_tables.__doc__)
  rule_side_tables(check, cm, r8)
  r9 = check.rule('R-C02-dispatch-total', 1, rule_dispatch_total.__doc__)
  rule_dispatch_total(check, cm.cx, r9)
  rule_no_reinsertion(check, cx, check.rule('R-C02-no-reinsertion', 1, 'a batch handed out by drain_metric()/pop() never flows back into a method of the cache'))


def rule_no_reinsertion(check, cx, rule):
  """datapoints handed out by drain_metric() / pop() never flow back into the cache: a drained batch that is stored again
  (a 'requeue' after a failed write) is handed out by a second drain, and it overwrites whatever was received for the same
  timestamps in the meantime."""
  seen = 0
  for fn in check.repo.all_functions():
    if fn.module.name == 'carbon.cache' or isinstance(fn.node, ast.Lambda):
      continue
    takes = [c for c in walk_no_nested(fn.node, include_self=False) if isinstance(c, ast.Call) and isinstance(c.func, ast.Attribute) and
             c.func.attr in ('drain_metric', 'pop') and cx.calls_method(c, fn, {'_MetricCache'}, c.func.attr, allow_byname=False)]
    if not takes:
      continue
    seen += 1
    tainted = set()
    for st in ast.walk(fn.node):
      if isinstance(st, ast.Assign) and any(t is x for t in takes for x in ast.walk(st.value)):
        for tg in st.targets:
          if isinstance(tg, (ast.Tuple, ast.List)) and len(tg.elts) == 2 and any(t.func.attr == 'drain_metric' for t in takes if any(t is x for x in ast.walk(st.value))):
            tainted |= {x.id for x in ast.walk(tg.elts[1]) if isinstance(x, ast.Name)}
          else:
            tainted |= {x.id for x in ast.walk(tg) if isinstance(x, ast.Name)}
    for _ in range(6):
      before = len(tainted)
      for st in ast.walk(fn.node):
        if isinstance(st, ast.Assign) and any(isinstance(x, ast.Name) and x.id in tainted for x in ast.walk(st.value)):
          tainted |= {x.id for tg in st.targets for x in ast.walk(tg) if isinstance(x, ast.Name)}
        elif isinstance(st, (ast.For, ast.comprehension)) and any(isinstance(x, ast.Name) and x.id in tainted for x in ast.walk(st.iter)):
          tainted |= {x.id for x in ast.walk(st.target) if isinstance(x, ast.Name)}
      if len(tainted) == before:
        break
    bad = []
    for c in walk_no_nested(fn.node, include_self=False):
      if not (isinstance(c, ast.Call) and isinstance(c.func, ast.Attribute)) or c in takes:
        continue
      if not any(isinstance(x, ast.Name) and x.id in tainted for a in list(c.args) + [k.value for k in c.keywords] for x in ast.walk(a)):
        continue
      if cx.resolves_to(c, fn, lambda f: f.cls is not None and f.cls.name == '_MetricCache', allow_byname=False) or \
         (isinstance(c.func.value, ast.Name) and any(isinstance(t.func.value, ast.Name) and t.func.value.id == c.func.value.id for t in takes)):
        bad.append(c)
    for c in bad:
      rule.violate('drained datapoints are put back into the cache', fn, c, '`%s` hands datapoints that drain_metric()/pop() '
                   'already handed out back to the cache: they will be handed out again by a later drain, and they overwrite '
                   'newer values received for the same timestamps' % short(c, 60))
    if not bad:
      rule.ok('no flow from a drained batch back into the cache', fn.loc(fn.node), '%s; batch names: %s' % (fn.key, ', '.join(sorted(tainted)) or '-'))
  rule.require(seen >= 1, 'no consumer of drain_metric()/pop() found outside carbon.cache')
