"""C08 - Aggregates are the rule function over exactly the values of their interval.

Decided: interval values only grow and are aggregated whole; every datapoint is
routed to the interval buffer *currently registered* for its aligned interval;
re-emission only after new input; prune/release on every flush; pass-through
once, unchanged, guarded by FORWARD_ALL and "not named like an aggregate it
feeds" (over all matching rules); <field> excludes dots and patterns match whole
names.  Not decided: the arithmetic of alignment / horizon / each aggregation
function; LoopingCall timing.
"""
import ast
import re

from ..model import dotted, unparse, norm, walk_no_nested, loop_exits, loop_of
from ..rulelib import Ctx, nodes_calling, reaching_defs, value_assigned, short, ValueNumbers
from .c05 import _yields

try:
  import re._parser as sre_parse      # py3.11+
except ImportError:                    # pragma: no cover
  import sre_parse


def _class_excludes_dot(pattern):
  """every repeated atom of the constant regex fragment excludes '.'; returns (ok, why)"""
  try:
    tree = sre_parse.parse(pattern)
  except Exception as e:
    return False, 'does not parse: %s' % e

  def atom_ok(op, av):
    name = str(op)
    if name == 'IN':
      neg = any(str(o) == 'NEGATE' for o, _ in av)
      lits = [a for o, a in av if str(o) == 'LITERAL']
      cats = [a for o, a in av if str(o) in ('CATEGORY', 'RANGE')]
      if neg:
        return ord('.') in lits
      return ord('.') not in lits and not any(str(o) == 'RANGE' and a[0] <= ord('.') <= a[1] for o, a in av) and \
        not any('NOT' in str(a) for o, a in av if str(o) == 'CATEGORY')
    if name == 'LITERAL':
      return av != ord('.')
    if name == 'NOT_LITERAL':
      return av == ord('.')
    if name == 'ANY':
      return False
    return None

  def walk(items):
    for op, av in items:
      name = str(op)
      if name in ('MAX_REPEAT', 'MIN_REPEAT'):
        for o2, a2 in av[2]:
          r = atom_ok(o2, a2)
          if r is False:
            return False, 'a repeated atom can match "."'
          if r is None:
            sub = walk(av[2])
            if not sub[0]:
              return sub
      elif name == 'SUBPATTERN':
        sub = walk(av[3])
        if not sub[0]:
          return sub
      elif name == 'ANY':
        return False, '"." (any character) can match a dot'
      elif name == 'BRANCH':
        for b in av[1]:
          sub = walk(b)
          if not sub[0]:
            return sub
    return True, ''
  return walk(tree)


def run(check):
  cx = Ctx(check)
  repo = check.repo
  check.explanation = (
    'Ownership, dominance and regex-AST rules over the aggregator. IntervalBuffer.values is only created empty and appended to, '
    'and compute_value hands the whole list of the buffer found in the live interval table to the rule function, emitting '
    '(interval start, value). MetricBuffer.input aligns the timestamp to the rule frequency and uses the buffer registered in '
    'interval_buffers for that interval (or registers a new one) - never a remembered reference that a flush may already have '
    'dropped. Emission is dominated by "new data since last emit" and followed by mark_inactive; only IntervalBuffer.input clears '
    'the mark. Every flush passes the size bound and the release check, and buffers are closed before being forgotten. The '
    'pass-through yield is outside every loop, under FORWARD_ALL and under "metric not among the aggregates it feeds" accumulated '
    'over all rules, and yields the parameters unchanged. build_regex: <field> and * fragments exclude ".", parts are joined by an '
    'escaped dot, the pattern is end-anchored and applied with match().')
  check.not_decided = ['arithmetic of interval alignment, age threshold and the prune slice', 'numeric result of each aggregation '
                       'function', 'LoopingCall timing', '"$" also matches before a trailing newline (names with newlines cannot '
                       'arrive over the plaintext protocol)']
  check.trusted_base = ['twisted LoopingCall', 're']
  bmod = repo.module('carbon.aggregator.buffers')
  ib = bmod.cls('IntervalBuffer')
  mb = bmod.cls('MetricBuffer')

  # ------------------------------------------------------------------ values monotone / aggregated whole
  r_v = check.rule('R-C08-values-monotone', 3, 'interval values only grow and are aggregated whole')
  writes = []
  for f in repo.all_functions():
    for n in walk_no_nested(f.node, include_self=False):
      if isinstance(n, (ast.Assign, ast.AugAssign)):
        for t in (n.targets if isinstance(n, ast.Assign) else [n.target]):
          if isinstance(t, ast.Attribute) and t.attr == 'values' and f.module.name.startswith('carbon.aggregator'):
            writes.append((f, n, 'assign'))
          if isinstance(t, ast.Subscript) and isinstance(t.value, ast.Attribute) and t.value.attr == 'values' and \
             f.module.name.startswith('carbon.aggregator'):
            writes.append((f, n, 'setitem'))
      elif isinstance(n, ast.Delete):
        for t in n.targets:
          if isinstance(t, (ast.Subscript, ast.Attribute)) and 'values' in unparse(t) and '.values' in unparse(t) and \
             f.module.name.startswith('carbon.aggregator') and 'interval_buffers' not in unparse(t):
            writes.append((f, n, 'del'))
      elif isinstance(n, ast.Call) and isinstance(n.func, ast.Attribute) and isinstance(n.func.value, ast.Attribute) and \
          n.func.value.attr == 'values' and f.module.name.startswith('carbon.aggregator') and \
          n.func.attr in ('append', 'extend', 'clear', 'pop', 'remove', 'insert', 'sort', 'reverse'):
        writes.append((f, n, n.func.attr))
  for f, n, kind in writes:
    if kind == 'assign' and f.cls is ib and f.name == '__init__' and isinstance(n.value, ast.List) and not n.value.elts:
      r_v.ok('values created empty in IntervalBuffer.__init__', f.loc(n))
    elif kind == 'append' and f.cls is ib and f.name == 'input':
      arg = n.args[0] if n.args else None
      if arg is not None and unparse(arg).replace(' ', '') == '%s[1]' % f.params[1]:
        r_v.ok('values.append(datapoint[1]) in IntervalBuffer.input', f.loc(n))
      else:
        r_v.violate('wrong value buffered', f, n, 'IntervalBuffer.input appends `%s`, not the datapoint\'s value' % (unparse(arg) if arg else '?'))
    else:
      r_v.violate('interval values modified', f, n, '`%s` in %s changes the values of an interval other than by appending a received '
                  'value: values received for the interval are lost, reordered or replaced before they are aggregated'
                  % (short(n), f.qualname))
  cv = mb.methods.get('compute_value')
  if cv is None:
    r_v.cannot_decide('MetricBuffer.compute_value not found')
  else:
    check.analysed(cv)
    g = cx.cfg(cv)
    aggs = [c for n in g.nodes for c in g.calls(n) if isinstance(c.func, ast.Attribute) and c.func.attr == 'aggregation_func']
    okv = False
    for c in aggs:
      if len(c.args) == 1 and isinstance(c.args[0], ast.Attribute) and c.args[0].attr == 'values' and isinstance(c.args[0].value, ast.Name):
        bv = c.args[0].value.id
        lp = [n for n in g.nodes if n.kind == 'loop' and isinstance(n.owner, ast.For) and isinstance(n.owner.target, ast.Name) and
              n.owner.target.id == bv]
        if lp and 'self.interval_buffers.values()' in unparse(lp[0].owner.iter).replace(' ', ''):
          okv = True
          r_v.ok('aggregation_func(buffer.values) for every buffer of the live interval table', cv.loc(c))
        elif lp:
          r_v.violate('flush does not cover the live table', cv, lp[0].owner, 'compute_value iterates `%s`, not every buffer in '
                      'self.interval_buffers' % unparse(lp[0].owner.iter))
          okv = True
    if not okv and aggs:
      # by value: the argument is <buffer>.values for a buffer taken from the live table (values() / items() / [key])
      from ..symeval import canon, alternatives
      vn_a = ValueNumbers(cx, cv, multi=True)
      S0 = ('param', cv.params[0])
      TAB = ('attr', S0, 'interval_buffers')

      def live_buffer(b):
        b = canon(b)
        if not isinstance(b, tuple):
          return False
        if b[0] == 'elem' and canon(b[1]) in (('meth', 'values', TAB), ('call', '%s.interval_buffers.values' % cv.params[0])):
          return True
        if b[0] in ('field', 'sub') and len(b) == 3 and b[2] in (1, ('const', 1)) and isinstance(b[1], tuple) and b[1][0] == 'elem' and \
           canon(b[1][1]) in (('meth', 'items', TAB), ('call', '%s.interval_buffers.items' % cv.params[0])):
          return True
        if b[0] in ('field', 'sub') and len(b) == 3 and canon(b[1]) == TAB:
          return True
        return False
      for c in aggs:
        if len(c.args) == 1:
          alts = alternatives(vn_a.term(c.args[0], c))
          if alts and all(isinstance(t_, tuple) and t_[0] == 'attr' and t_[-1] == 'values' and live_buffer(t_[1]) for t_ in alts):
            okv = True
            r_v.ok('aggregation_func(<buffer of the live interval table>.values)', cv.loc(c))
    if not okv:
      r_v.violate('values not aggregated whole', cv, aggs[0] if aggs else None, 'compute_value does not call '
                  'self.aggregation_func(buffer.values) with the complete value list', construct='self.aggregation_func(buffer.values)')
    emits = nodes_calling(g, lambda c: (dotted(c.func) or '').endswith('metricGenerated'))
    for e in emits:
      call = [c for c in g.calls(e) if (dotted(c.func) or '').endswith('metricGenerated')][0]
      a1 = call.args[1] if len(call.args) > 1 else None
      dp = None
      if isinstance(a1, ast.Name):
        rds = reaching_defs(g, a1.id, e)
        vals = [value_assigned(d, a1.id) for d in rds if d is not g.entry]
        dp = vals[0] if len(vals) == 1 else None
      elif isinstance(a1, ast.Tuple):
        dp = a1
      if isinstance(dp, ast.Tuple) and len(dp.elts) == 2 and unparse(dp.elts[0]).endswith('.interval') and \
         unparse(call.args[0]) == 'self.metric_path':
        r_v.ok('emits (metric_path, (buffer.interval, aggregate))', cv.loc(call))
      else:
        r_v.violate('emitted datapoint', cv, call, 'the emitted datapoint is not (buffer.interval, value) for self.metric_path')

  # ------------------------------------------------------------------ live buffer routing
  r_l = check.rule('R-C08-live-buffer', 2, 'a datapoint joins the buffer currently registered for its aligned interval')
  mi = mb.methods.get('input')
  if mi is None:
    r_l.cannot_decide('MetricBuffer.input not found')
  else:
    check.analysed(mi)
    g = cx.cfg(mi)
    from ..paths import PathExec
    from ..symeval import show, canon
    ins = nodes_calling(g, lambda c: isinstance(c.func, ast.Attribute) and c.func.attr == 'input' and dotted(c.func.value) != mi.params[0])
    if not ins:
      r_l.violate('datapoint not buffered', mi, None, 'MetricBuffer.input does not pass the datapoint to an IntervalBuffer',
                  construct='buffer.input(datapoint)')
    S_ = ('param', mi.params[0])
    DP = ('param', mi.params[1])
    TABLE = ('attr', S_, 'interval_buffers')
    FREQ = ('attr', S_, 'aggregation_frequency')
    TS = ('field', DP, 0)

    def key_of(t):
      """K when t is self.interval_buffers[K] (or .setdefault(K, ...) / .get(K ...)), else None"""
      t = canon(t)
      if isinstance(t, tuple) and t[0] in ('sub', 'field') and len(t) == 3 and canon(t[1]) == TABLE:
        return t[2]
      if isinstance(t, tuple) and t[0] == 'meth' and t[1] in ('setdefault', 'get') and len(t) >= 4 and canon(t[2]) == TABLE:
        return t[3]
      if isinstance(t, tuple) and t[0] == 'call' and isinstance(t[1], str) and len(t) >= 3 and \
         t[1] in ('%s.interval_buffers.get' % mi.params[0], '%s.interval_buffers.setdefault' % mi.params[0]):
        return t[2]
      return None

    def aligned(k):
      k = canon(k)
      if isinstance(k, tuple) and k[0] == 'binop' and k[1] == 'Sub' and canon(k[2]) == TS:
        m_ = canon(k[3])
        return isinstance(m_, tuple) and m_[0] == 'binop' and m_[1] == 'Mod' and canon(m_[2]) == TS and canon(m_[3]) == FREQ
      if isinstance(k, tuple) and k[0] == 'binop' and k[1] == 'Mult':
        for x, y in ((k[2], k[3]), (k[3], k[2])):
          x, y = canon(x), canon(y)
          if y == FREQ and isinstance(x, tuple) and x[0] == 'binop' and x[1] == 'FloorDiv' and canon(x[2]) == TS and canon(x[3]) == FREQ:
            return True
      return False
    px = PathExec(cx, mi, unroll=0, follow_exceptions=False)
    verdicts = {}
    for hit in px.run(set(ins)):
      call = [c for c in g.calls(hit.node) if isinstance(c.func, ast.Attribute) and c.func.attr == 'input' and
              dotted(c.func.value) != mi.params[0]][0]
      recv = hit.term(call.func.value, px)
      k = key_of(recv)
      why = None
      if k is None:
        # a buffer created on this path and registered in the live table under its key before it is used
        for n in hit.trail:
          if n.kind == 'stmt' and isinstance(n.ast, ast.Assign):
            for tg in n.ast.targets:
              if isinstance(tg, ast.Subscript) and canon(px.ev(tg.value, hit.env)) == TABLE:
                stored = px.ev(n.ast.value, hit.env)
                if canon(stored) == canon(recv):
                  k = px.ev(tg.slice, hit.env)
        if k is None:
          why = ('the buffer that receives the datapoint can come from `%s` instead of the live table self.interval_buffers[interval]: '
                 'a buffer that a flush already dropped (age or size pruning) keeps receiving values that are then never aggregated'
                 % show(recv)[:120])
      if why is None and not aligned(k):
        why = ('the interval key `%s` is not the datapoint\'s timestamp rounded down to a multiple of self.aggregation_frequency'
               % show(k)[:120])
      arg = hit.term(call.args[0], px) if len(call.args) == 1 and not call.keywords else None
      if why is None and canon(arg) != DP:
        why = 'the datapoint passed to the interval buffer is `%s`, not the one received' % (show(arg)[:80] if arg else unparse(call))
      verdicts.setdefault(id(call), (call, []))[1].append(why)
    for call, whys in verdicts.values():
      bad = [w for w in whys if w]
      if bad:
        r_l.violate('stale interval buffer' if 'live table' in bad[0] else 'datapoint misrouted', mi, call, bad[0])
      else:
        r_l.ok('buffer taken from / registered in self.interval_buffers[<aligned interval>]; datapoint passed on unchanged', mi.loc(call))
        r_l.ok('interval start = timestamp - timestamp % frequency', mi.loc(call))
    if px.truncated:
      r_l.cannot_decide('too many paths through MetricBuffer.input')

  # ------------------------------------------------------------------ re-emit only after new data
  r_r = check.rule('R-C08-reemit', 3, 'an interval is (re-)emitted only if data arrived since its last emission')
  if cv is not None:
    g = cx.cfg(cv)
    emits = nodes_calling(g, lambda c: (dotted(c.func) or '').endswith('metricGenerated'))
    marks = set(nodes_calling(g, lambda c: isinstance(c.func, ast.Attribute) and c.func.attr == 'mark_inactive'))
    def active(a, lab, b):
      if not (isinstance(lab, tuple) and isinstance(lab[1], ast.Compare) and len(lab[1].ops) == 1):
        return False
      t = lab[1]
      return unparse(t.left).endswith('.inactive_since') and isinstance(t.comparators[0], ast.Constant) and \
        t.comparators[0].value is None and ((isinstance(t.ops[0], ast.Is) and lab[0] == 'T') or (isinstance(t.ops[0], ast.IsNot) and lab[0] == 'F'))
    def guarded_worklist(e):
      """the emission runs in `for b in W:` over a local worklist W whose every element was appended under the
      `inactive_since is None` test of that very element (and W is changed in no other way)"""
      for lp in [n for n in g.nodes if n.kind == 'loop' and isinstance(n.owner, ast.For) and e in g.in_loop_nodes(n.owner)]:
        it, tg = lp.owner.iter, lp.owner.target
        if not (isinstance(it, ast.Name) and isinstance(tg, ast.Name)):
          continue
        W = it.id
        uses = [c for c in walk_no_nested(cv.node, include_self=False) if isinstance(c, ast.Call) and isinstance(c.func, ast.Attribute) and
                dotted(c.func.value) == W]
        stores = [x for x in walk_no_nested(cv.node, include_self=False) if isinstance(x, ast.Name) and x.id == W and isinstance(x.ctx, ast.Store)]
        if len(stores) != 1 or not uses or any(c.func.attr != 'append' or len(c.args) != 1 or not isinstance(c.args[0], ast.Name) for c in uses):
          continue
        ok_all = True
        for c in uses:
          v = c.args[0].id
          nodes = g.node_containing(c)

          def active_v(a, lab, b, v=v):
            return active(a, lab, b) and unparse(lab[1].left).replace(' ', '') == '%s.inactive_since' % v
          if not nodes or nodes[0] in g.reach([g.entry], removed_edge=active_v, normal_only=True):
            ok_all = False
        # the emission must be about the loop variable
        if ok_all and any(isinstance(x, ast.Name) and x.id == tg.id for x in ast.walk(e.ast)) or ok_all and \
           any(isinstance(x, ast.Name) and x.id == tg.id for d_ in g.nodes if d_ in g.in_loop_nodes(lp.owner) and d_.ast is not None
               for x in ast.walk(d_.ast)):
          return True
      return False
    # the stamp recorded by mark_inactive is the flush's wall-clock interval, the same clock the expiry threshold is derived from
    from ..paths import mentions
    vn_cv2 = ValueNumbers(cx, cv)
    for mk in marks:
      for c in g.calls(mk):
        if isinstance(c.func, ast.Attribute) and c.func.attr == 'mark_inactive' and c.args:
          t_ = vn_cv2.term(c.args[0], mk)
          clocked = mentions(t_, lambda x: isinstance(x, tuple) and x[0] == 'call' and x[1] in ('time.time', 'time'))
          of_buffer = mentions(t_, lambda x: isinstance(x, tuple) and x[0] == 'attr' and x[-1] in ('interval', 'inactive_since', 'values'))
          if clocked and not of_buffer:
            r_r.ok('mark_inactive(<interval of the flush, from time.time()>)', cv.loc(c))
          else:
            r_r.violate('inactive stamp is not the time of the flush', cv, c, '`%s` stamps the buffer with `%s`, which is not the '
                        'current (wall-clock) interval: the expiry test compares the stamp with a threshold derived from time.time(), '
                        'so buffers for old or future timestamps are expired at once or never' % (short(c), unparse(c.args[0])))
    for e in emits:
      if e in g.reach([g.entry], removed_edge=active, normal_only=True) and guarded_worklist(e):
        r_r.ok('emission for the buffers collected under `inactive_since is None`', cv.loc(e.ast))
      elif e in g.reach([g.entry], removed_edge=active, normal_only=True):
        r_r.violate('unchanged interval re-emitted', cv, e.ast, 'an aggregate can be emitted for a buffer without `inactive_since is '
                    'None` (new data since the last emission) having been tested')
      else:
        r_r.ok('emission dominated by `buffer.inactive_since is None`', cv.loc(e.ast))
      loops = [n for n in g.nodes if n.kind == 'loop' and e in g.in_loop_nodes(n.owner)]
      stop = set(loops) | {g.exit}
      rr = g.reach(g.after(e), removed_nodes=marks, normal_only=True)
      if any(s in rr for s in stop):
        r_r.violate('emitted interval not marked', cv, e.ast, 'after emitting an interval the flush can go on without '
                    'mark_inactive(): the same values are emitted again by the next flush')
      else:
        r_r.ok('emission followed by mark_inactive on every path', cv.loc(e.ast))
  resets = []
  for f in bmod.all_functions():
    for n in walk_no_nested(f.node, include_self=False):
      if isinstance(n, ast.Assign) and any(isinstance(t, ast.Attribute) and t.attr == 'inactive_since' for t in n.targets) and \
         isinstance(n.value, ast.Constant) and n.value.value is None:
        resets.append((f, n))
  badr = [(f, n) for f, n in resets if not (f.cls is ib and f.name in ('__init__', 'input'))]
  if badr:
    f, n = badr[0]
    r_r.violate('inactive mark cleared without new data', f, n, '%s clears inactive_since although no value arrived' % f.qualname)
  elif any(f.name == 'input' for f, n in resets):
    r_r.ok('inactive_since reset only by IntervalBuffer.input', 'lib/carbon/aggregator/buffers.py')
  else:
    r_r.violate('new data does not reactivate the interval', ib.key, None, 'IntervalBuffer.input does not reset inactive_since: values '
                'received after an emission are never emitted', construct='self.inactive_since = None')

  # ------------------------------------------------------------------ nothing is pruned before it had its chance to be emitted
  r_e = check.rule('R-C08-emit-before-prune', 2, 'an interval buffer is only deleted when it is inactive, or after the emit pass')
  if cv is not None:
    g = cx.cfg(cv)
    emit_nodes = nodes_calling(g, lambda c: (dotted(c.func) or '').endswith('metricGenerated'))
    emit_loops = [n for n in g.nodes if n.kind == 'loop' and n.owner is not None and any(e in g.in_loop_nodes(n.owner) for e in emit_nodes)]
    dels = [n for n in g.nodes if n.kind == 'stmt' and isinstance(n.ast, ast.Delete) and
            'self.interval_buffers[' in unparse(n.ast).replace(' ', '')]
    dels += nodes_calling(g, lambda c: isinstance(c.func, ast.Attribute) and c.func.attr in ('pop', 'clear', 'popitem') and
                          dotted(c.func.value) == 'self.interval_buffers')
    if not emit_loops:
      r_e.cannot_decide('emit loop of compute_value not recognised')
    for d in dels:
      in_emit_loop = any(d in g.in_loop_nodes(lp.owner) for lp in emit_loops)
      if in_emit_loop:
        # must be on the "not active" side of the inactive_since test
        def active_true(a, lab, b):
          if not (isinstance(lab, tuple) and isinstance(lab[1], ast.Compare) and len(lab[1].ops) == 1):
            return False
          t = lab[1]
          return unparse(t.left).endswith('.inactive_since') and isinstance(t.comparators[0], ast.Constant) and \
            t.comparators[0].value is None and ((isinstance(t.ops[0], ast.Is) and lab[0] == 'F') or (isinstance(t.ops[0], ast.IsNot) and lab[0] == 'T'))
        lp = [l for l in emit_loops if d in g.in_loop_nodes(l.owner)][0]
        start = [y for y, lab in lp.succ if isinstance(lab, tuple) and lab[0] == 'T']
        if d in g.reach(start, removed_edge=active_true, removed_nodes=set(emit_nodes), normal_only=True):
          r_e.violate('active interval deleted in the emit pass', cv, d.ast, 'an interval buffer can be deleted inside the emit loop '
                      'without having been found inactive (or emitted first)')
        else:
          r_e.ok('deletion inside the emit pass only for inactive (already emitted) buffers', cv.loc(d.ast))
      else:
        exhausted = lambda a, lab, b: a in emit_loops and isinstance(lab, tuple) and lab[0] == 'F'   # noqa
        if emit_loops and d not in g.reach([g.entry], removed_edge=exhausted, normal_only=True):
          r_e.ok('deletion only after the emit pass completed', cv.loc(d.ast))
        else:
          r_e.violate('interval deleted before it was emitted', cv, d.ast, 'this deletion of interval buffers can run before the emit '
                      'pass: buffers that still hold values received since their last emission are dropped and those values never '
                      'reach any aggregate')

  # ------------------------------------------------------------------ prune / release
  r_p = check.rule('R-C08-prune-release', 3, 'every flush bounds the buffered intervals and releases idle series')
  if cv is not None:
    g = cx.cfg(cv)
    size_tests = [n for n in g.nodes if n.kind == 'test' and 'len(self.interval_buffers)' in unparse(n.ast).replace(' ', '') and
                  isinstance(n.ast, ast.Compare)]
    okb = False
    for n in size_tests:
      t = n.ast
      rhs = unparse(t.comparators[0]).replace(' ', '')
      rd_ok = False
      over_pol = 'T'
      if isinstance(t.ops[0], ast.LtE) and 'len(self.interval_buffers)' in unparse(t.left).replace(' ', ''):
        over_pol = 'F'          # `if len(...) <= bound: nothing to trim  else: trim`
      if isinstance(t.ops[0], (ast.Gt, ast.LtE)) and 'len(self.interval_buffers)' in unparse(t.left).replace(' ', ''):
        # rhs must be MAX_AGGREGATION_INTERVALS + 2 (as a value: locals are followed to what they hold)
        vn_cv = ValueNumbers(cx, cv)
        rt = vn_cv.term(t.comparators[0], n)

        def is_setting(x):
          return isinstance(x, tuple) and x[0] in ('sub', 'attr') and x[-1] == 'MAX_AGGREGATION_INTERVALS'
        rd_ok = isinstance(rt, tuple) and rt[0] == 'binop' and rt[1] == 'Add' and (
          (is_setting(rt[2]) and rt[3] == ('const', 2)) or (is_setting(rt[3]) and rt[2] == ('const', 2)))
      if rd_ok and g.exit not in g.reach([g.entry], removed_nodes={n}, normal_only=True):
        okb = True
        r_p.ok('every flush tests len(interval_buffers) > MAX_AGGREGATION_INTERVALS + 2', cv.loc(t))
        tsucc = [b for b, lab in n.succ if isinstance(lab, tuple) and lab[0] == over_pol]
        dels = [x for x in g.reach(tsucc, normal_only=True) if x.kind == 'stmt' and isinstance(x.ast, ast.Delete) and
                'self.interval_buffers[' in unparse(x.ast).replace(' ', '')]
        if dels:
          r_p.ok('oldest intervals deleted when over the bound', cv.loc(dels[0].ast))
        else:
          r_p.violate('bound not enforced', cv, t, 'when more than MAX_AGGREGATION_INTERVALS + 2 intervals are buffered nothing is deleted')
    if not okb:
      r_p.violate('no bound on buffered intervals', cv, size_tests[0].ast if size_tests else None, 'compute_value does not pass, on '
                  'every path, a test of len(self.interval_buffers) against MAX_AGGREGATION_INTERVALS + 2',
                  construct='len(self.interval_buffers) > max_aggregation_intervals + 2')
    empt = [n for n in g.nodes if n.kind == 'test' and unparse(n.ast).replace(' ', '') == 'self.interval_buffers']
    rel_ok = False
    for n in empt:
      fs = [b for b, lab in n.succ if isinstance(lab, tuple) and lab[0] == 'F']
      rr = g.reach(fs, normal_only=True)
      closes = [x for x in rr if x.kind == 'stmt' and any(isinstance(c.func, ast.Attribute) and c.func.attr == 'close' for c in g.calls(x))]
      dels = [x for x in rr if x.kind == 'stmt' and isinstance(x.ast, ast.Delete) and 'BufferManager.buffers[' in unparse(x.ast).replace(' ', '')]
      if closes and dels and g.exit not in g.reach([g.entry], removed_nodes={n}, normal_only=True):
        rel_ok = True
        if any(d in g.reach(fs, removed_nodes=set(closes), normal_only=True) for d in dels):
          r_p.violate('buffer forgotten before it is closed', cv, dels[0].ast, 'an idle series is removed from BufferManager.buffers on a '
                      'path that did not close() it first: its LoopingCall keeps firing')
        else:
          r_p.ok('idle series: close() then removed from BufferManager.buffers', cv.loc(dels[0].ast))
    if not rel_ok:
      r_p.violate('idle series not released', cv, None, 'compute_value does not, on every path, test for an empty interval table and '
                  'release the series (close + del BufferManager.buffers[...])', construct='if not self.interval_buffers: release')
  bm = bmod.cls('_BufferManager')
  clr = bm.methods.get('clear')
  if clr is not None:
    g = cx.cfg(clr)
    closes = nodes_calling(g, lambda c: isinstance(c.func, ast.Attribute) and c.func.attr == 'close')
    clears = nodes_calling(g, lambda c: isinstance(c.func, ast.Attribute) and c.func.attr == 'clear' and dotted(c.func.value) == 'self.buffers')
    close_loops = [n for n in g.nodes if n.kind == 'loop' and isinstance(n.owner, ast.For) and
                   'self.buffers.values()' in unparse(n.owner.iter).replace(' ', '') and isinstance(n.owner.target, ast.Name) and
                   any(isinstance(c, ast.Call) and isinstance(c.func, ast.Attribute) and c.func.attr == 'close' and
                       dotted(c.func.value) == n.owner.target.id for c in ast.walk(n.owner)) and
                   not loop_exits(n.owner, (ast.Break, ast.Return, ast.Continue))]
    exhausted = lambda a, lab, b: a in close_loops and isinstance(lab, tuple) and lab[0] == 'F'   # noqa
    if closes and clears and close_loops and all(c not in g.reach([g.entry], removed_edge=exhausted, normal_only=True) for c in clears):
      r_p.ok('BufferManager.clear closes every buffer before forgetting it', clr.loc())
    else:
      r_p.violate('BufferManager.clear leaks timers', clr, None, 'BufferManager.clear forgets buffers without closing them',
                  construct='buffer.close() before self.buffers.clear()')

  # ------------------------------------------------------------------ forward
  r_f = check.rule('R-C08-forward', 3, 'a received datapoint is forwarded unchanged exactly once iff FORWARD_ALL and it is not named '
                   'like an aggregate it feeds')
  ap = repo.cls('carbon.aggregator.processor', 'AggregationProcessor').methods.get('process')
  if ap is None:
    r_f.cannot_decide('AggregationProcessor.process not found')
  else:
    check.analysed(ap)
    g = cx.cfg(ap)
    mvar, dvar = ap.params[1], ap.params[2]
    ys = _yields(g)
    r_f.require(ys, 'AggregationProcessor.process has no pass-through yield')
    rule_loops = [n for n in g.nodes if n.kind == 'loop' and isinstance(n.owner, ast.For) and (dotted(n.owner.iter) or '').endswith('.rules')]
    for n, y in ys:
      if any(n in g.in_loop_nodes(lp.owner) for lp in g.nodes if lp.kind == 'loop' and lp.owner is not None):
        r_f.violate('pass-through inside a loop', ap, y, 'the pass-through yield is inside a loop: a datapoint can be forwarded more than once')
        continue
      if len(ys) > 1 and any(m in g.reach(g.after(n), normal_only=True) for m, _ in ys):
        r_f.violate('forwarded twice', ap, y, 'a datapoint can be forwarded by two yields')
      v = y.value
      if isinstance(v, ast.Tuple) and len(v.elts) == 2 and all(isinstance(e, ast.Name) for e in v.elts) and \
         v.elts[0].id == mvar and v.elts[1].id == dvar and reaching_defs(g, mvar, n) == [g.entry] and reaching_defs(g, dvar, n) == [g.entry]:
        r_f.ok('yields the unmodified (metric, datapoint)', ap.loc(y))
      else:
        r_f.violate('forwarded datapoint altered', ap, y, 'the pass-through yields `%s`, not the unmodified parameters' % unparse(v))
      fa = lambda a, lab, b: isinstance(lab, tuple) and lab[0] == 'T' and unparse(lab[1]).replace(' ', '') == 'settings.FORWARD_ALL'   # noqa
      if n in g.reach([g.entry], removed_edge=fa, normal_only=True):
        r_f.violate('forwarded although FORWARD_ALL is off', ap, y, 'the pass-through is reachable without settings.FORWARD_ALL being true')
      else:
        r_f.ok('pass-through only under settings.FORWARD_ALL', ap.loc(y))
      # the "not named like an aggregate it feeds" guard
      guards = g.test_edges(lambda pol, t, a: True)
      found = None
      for (a, lab, b) in guards:
        t = lab[1]
        pol = lab[0]
        if isinstance(t, ast.Compare) and len(t.ops) == 1 and isinstance(t.left, ast.Name) and t.left.id == mvar and \
           isinstance(t.comparators[0], ast.Name) and ((isinstance(t.ops[0], ast.NotIn) and pol == 'T') or (isinstance(t.ops[0], ast.In) and pol == 'F')):
          S = t.comparators[0].id
          if n not in g.reach([g.entry], normal_only=True, removed_edge=lambda x, l, z, a=a, lab=lab: x is a and l == lab):
            found = ('set', S, a)
        if isinstance(t, ast.Name) and pol == 'F' and n not in g.reach(
            [g.entry], normal_only=True, removed_edge=lambda x, l, z, a=a, lab=lab: x is a and l == lab):
          if t.id not in ('settings',):
            found = found or ('flag', t.id, a)
      if found is None:
        r_f.violate('own aggregate forwarded raw', ap, y, 'the pass-through is not guarded by "metric is not one of the aggregate names it '
                    'feeds": a datapoint named like its own aggregate is forwarded next to the aggregate')
      elif found[0] == 'set':
        S = found[1]
        gam = nodes_calling(g, lambda c: isinstance(c.func, ast.Attribute) and c.func.attr == 'get_aggregate_metric')
        gvar = None
        if gam and isinstance(gam[0].ast, ast.Assign) and len(gam[0].ast.targets) == 1 and isinstance(gam[0].ast.targets[0], ast.Name):
          gvar = gam[0].ast.targets[0].id

        def is_none(a, lab, b):
          if not (isinstance(lab, tuple) and isinstance(lab[1], ast.Compare) and len(lab[1].ops) == 1 and
                  isinstance(lab[1].comparators[0], ast.Constant) and lab[1].comparators[0].value is None):
            return False
          op = lab[1].ops[0]
          return (isinstance(op, (ast.Is, ast.Eq)) and lab[0] == 'T') or (isinstance(op, (ast.IsNot, ast.NotEq)) and lab[0] == 'F')

        def collects_all(name, depth=0):
          """every non-None aggregate name of every rule ends up in the collection `name`"""
          if depth > 3 or not (gam and rule_loops):
            return False
          def holds_result(e):
            return (isinstance(e, ast.Name) and e.id == gvar) or (isinstance(e, ast.Tuple) and any(holds_result(x) for x in e.elts))
          adds_ = [x for x in g.nodes if x.kind == 'stmt' and any(
            isinstance(c.func, ast.Attribute) and c.func.attr in ('add', 'append') and dotted(c.func.value) == name and len(c.args) == 1 and
            (gvar is None or holds_result(c.args[0])) for c in g.calls(x))]
          if adds_:
            # every non-None result is added before the next iteration
            rr = g.reach(g.after(gam[0]), removed_nodes=set(adds_), removed_edge=is_none, normal_only=True)
            return rule_loops[0] not in rr and g.exit not in rr
          defs_ = [x for x in g.nodes if x.kind == 'stmt' and isinstance(x.ast, ast.Assign) and
                   any(isinstance(t_, ast.Name) and t_.id == name for t_ in x.ast.targets)]
          if len(defs_) != 1 or defs_[0] in g.in_loop_nodes(rule_loops[0].owner):
            return False
          v_ = defs_[0].ast.value
          while isinstance(v_, ast.Call) and isinstance(v_.func, ast.Name) and v_.func.id in ('set', 'frozenset', 'list', 'tuple') and \
              len(v_.args) == 1 and not v_.keywords:
            v_ = v_.args[0]
          if isinstance(v_, ast.Name):
            return collects_all(v_.id, depth + 1)
          if isinstance(v_, (ast.ListComp, ast.SetComp, ast.GeneratorExp)) and len(v_.generators) == 1 and not v_.generators[0].ifs and \
             isinstance(v_.generators[0].iter, ast.Name):
            tn = {x.id for x in ast.walk(v_.generators[0].target) if isinstance(x, ast.Name)}
            en = {x.id for x in ast.walk(v_.elt) if isinstance(x, ast.Name)}
            return bool(en) and en <= tn and isinstance(v_.elt, (ast.Name, ast.Subscript)) and collects_all(v_.generators[0].iter.id, depth + 1)
          return False
        okadd = collects_all(S)
        if okadd:
          r_f.ok('guard `%s not in %s`, every aggregate name of every matching rule is added to %s' % (mvar, S, S), ap.loc(found[2].ast))
        else:
          r_f.violate('aggregate names not all collected', ap, found[2].ast, 'the set `%s` tested by the pass-through guard does not receive '
                      'the aggregate name of every matching rule' % S)
      else:
        flag = found[1]
        sets = [x for x in g.nodes if x.kind == 'stmt' and isinstance(x.ast, (ast.Assign, ast.AugAssign)) and
                flag in {z.id for t in (x.ast.targets if isinstance(x.ast, ast.Assign) else [x.ast.target]) for z in ast.walk(t) if isinstance(z, ast.Name)}]
        in_loop = [x for x in sets if rule_loops and x in g.in_loop_nodes(rule_loops[0].owner)]
        mono = True
        for x in in_loop:
          a = x.ast
          if isinstance(a, ast.AugAssign) and isinstance(a.op, ast.BitOr):
            continue
          if isinstance(a, ast.Assign) and isinstance(a.value, ast.Constant) and a.value.value is True:
            continue
          if isinstance(a, ast.Assign) and isinstance(a.value, ast.BoolOp) and isinstance(a.value.op, ast.Or) and \
             any(isinstance(v, ast.Name) and v.id == flag for v in a.value.values):
            continue
          mono = False
          bad = x
        if in_loop and mono:
          r_f.ok('guard flag `%s` only ever becomes true inside the rule loop' % flag, ap.loc(found[2].ast))
        elif in_loop:
          r_f.violate('last matching rule decides the pass-through', ap, bad.ast, 'the flag `%s` that guards the pass-through is '
                      're-assigned for every matching rule (`%s`): when an earlier rule aggregates the metric onto its own name and a '
                      'later rule does not, the datapoint is forwarded raw as well' % (flag, short(bad.ast)))
        else:
          r_f.cannot_decide('pass-through guard `%s` not recognised' % flag)

  # ------------------------------------------------------------------ pattern
  r_x = check.rule('R-C08-pattern', 4, 'rule patterns match whole names; <field> and * stay inside one dot-free segment')
  br = repo.cls('carbon.aggregator.rules', 'AggregationRule').methods.get('build_regex')
  if br is None:
    r_x.cannot_decide('AggregationRule.build_regex not found')
  else:
    check.analysed(br)
    consts = [n for n in walk_no_nested(br.node, include_self=False) if isinstance(n, ast.Constant) and isinstance(n.value, str)]
    frags = []
    part_vars = {c.args[0].id for c in walk_no_nested(br.node, include_self=False) if isinstance(c, ast.Call) and
                 isinstance(c.func, ast.Attribute) and c.func.attr == 'append' and c.args and isinstance(c.args[0], ast.Name)}
    list_vars = {dotted(c.func.value) for c in walk_no_nested(br.node, include_self=False) if isinstance(c, ast.Call) and
                 isinstance(c.func, ast.Attribute) and c.func.attr == 'append' and c.args and isinstance(c.args[0], ast.Name)}
    for n in walk_no_nested(br.node, include_self=False):
      if isinstance(n, ast.Assign) and any(isinstance(t, ast.Name) and t.id in part_vars for t in n.targets):
        frags.append(n)
    for a in frags:
      v = a.value
      par = a
      ctx = ''
      p = getattr(a, '_parent', None)
      while p is not None and p is not br.node:
        if isinstance(p, ast.If):
          ctx = unparse(p.test)
          break
        p = getattr(p, '_parent', None)
      tpl = None
      if isinstance(v, ast.BinOp) and isinstance(v.op, ast.Mod) and isinstance(v.left, ast.Constant):
        tpl = v.left.value.replace('%s', 'X')
      elif isinstance(v, ast.Constant):
        tpl = v.value
      elif isinstance(v, ast.Call) and isinstance(v.func, ast.Attribute) and v.func.attr == 'format' and \
          isinstance(v.func.value, ast.Constant) and isinstance(v.func.value.value, str):
        # a literal '{' of the template is written '{{'; replacement fields stand for pieces of the pattern part
        tpl = re.sub(r'\{[^{}]*\}', 'X', v.func.value.value.replace('{{', '\x00').replace('}}', '\x01')).replace('\x00', '{').replace('\x01', '}')
      elif isinstance(v, ast.JoinedStr):
        tpl = ''.join(x.value if isinstance(x, ast.Constant) else 'X' for x in v.values)
      elif isinstance(v, ast.Call) and isinstance(v.func, ast.Attribute) and v.func.attr == 'replace' and len(v.args) == 2 and \
          isinstance(v.args[1], ast.Constant):
        tpl = v.args[1].value
      if tpl is None:
        r_x.cannot_decide('regex fragment `%s` not recognised' % short(v))
        continue
      if "'<<'" in ctx:
        loopvars = {lp.target.id for lp in ast.walk(br.node) if isinstance(lp, ast.For) and isinstance(lp.target, ast.Name)}
        test_names = set()
        q = getattr(a, '_parent', None)
        while q is not None and q is not br.node:
          if isinstance(q, ast.If) and "'<<'" in unparse(q.test):
            test_names = {x.id for x in ast.walk(q.test) if isinstance(x, ast.Name)}
            break
          q = getattr(q, '_parent', None)
        if test_names & loopvars:
          r_x.ok('<<field>> fragment (may span segments by design) chosen per pattern part: %r' % tpl, br.loc(a))
        else:
          r_x.violate('<<field>> matching chosen for the whole pattern', br, a, 'the dot-crossing fragment %r is selected by `%s`, which '
                      'does not look at the current part of the pattern: a single-bracket <field> in a pattern that also contains a '
                      '<<field>> then matches across dots' % (tpl, ctx))
        continue
      okf, why = _class_excludes_dot(tpl)
      if okf:
        r_x.ok('fragment %r cannot match "."' % tpl, br.loc(a))
      else:
        r_x.violate('fragment can cross a segment boundary', br, a, 'the regex fragment %r used for %s %s: a <field> or * would match '
                    'across dots' % (tpl, 'a pattern part' if not ctx else '`%s`' % ctx, why))
    for n in walk_no_nested(br.node, include_self=False):
      if isinstance(n, ast.Constant) and isinstance(n.value, str) and n.value in ('.+?', '.+', '.*', '.*?', '(.+?)', '(.+)'):
        st = n
        while st is not None and not isinstance(st, ast.stmt):
          st = getattr(st, '_parent', None)
        if st in frags:
          continue
        in_loop = any(isinstance(q, ast.For) for q in __import__('sa.model', fromlist=['ancestors']).ancestors(n))
        if not in_loop:
          r_x.violate('dot-crossing class chosen outside the per-part loop', br, st, 'the regex class %r (matches ".") is selected once for '
                      'the whole pattern (`%s`), not per pattern part: every <field> of a pattern that contains a <<field>> then '
                      'matches across dots' % (n.value, ' '.join(unparse(st).split())[:80]))
    txt = unparse(br.node).replace(' ', '')
    if any(("'\\\\.'.join(%s)+'$'" % lv) in txt or ("'\\\\.'.join(%s)+'\\\\Z'" % lv) in txt for lv in list_vars if lv):
      r_x.ok('parts joined by an escaped dot, pattern end-anchored', br.loc())
    else:
      r_x.violate('pattern not anchored / joined by literal dots', br, None, 'the rule regex is not "\\\\.".join(parts) + "$": it can match '
                  'a prefix of a longer name or treat "." as a wildcard', construct="'\\\\.'.join(parts) + '$'")
    # the pieces cut out of a pattern part around '<field>' / '<<field>>' start right behind / end right before the delimiter
    vn_br = ValueNumbers(cx, br)

    def find_plus(t):
      """(delimiter, offset) if t == <x>.find(<delimiter>) [+ offset]"""
      if isinstance(t, tuple) and t[0] == 'meth' and t[1] == 'find' and len(t) == 4 and t[3][0] == 'const' and isinstance(t[3][1], str):
        return t[3][1], 0
      if isinstance(t, tuple) and t[0] == 'binop' and t[1] in ('Add', 'Sub') and t[3][0] == 'const' and isinstance(t[3][1], int):
        inner = find_plus(t[2])
        if inner is not None:
          return inner[0], inner[1] + (t[3][1] if t[1] == 'Add' else -t[3][1])
      return None
    for sl in [x for x in walk_no_nested(br.node, include_self=False) if isinstance(x, ast.Subscript) and isinstance(x.slice, ast.Slice)]:
      for bound, want_len in ((sl.slice.lower, True), (sl.slice.upper, False)):
        if bound is None:
          continue
        fp = find_plus(vn_br.term(bound, sl))
        if fp is None:
          continue
        delim, off = fp
        want = len(delim) if want_len else 0
        if off == want:
          r_x.ok('slice bound `%s` = position of %r %s' % (unparse(bound), delim, '+ its length' if want_len else '(exclusive end)'), br.loc(sl))
        else:
          r_x.violate('slice misses the delimiter by %d' % (off - want), br, sl, '`%s` cuts the pattern part at `%s`, i.e. %+d characters '
                      'from the %s of the %r delimiter: a literal character next to the field is dropped from (or the delimiter is '
                      'left in) the regex, so the rule matches other names than its pattern says'
                      % (short(sl), unparse(bound), off - want, 'end' if want_len else 'start', delim))
    gam = repo.cls('carbon.aggregator.rules', 'AggregationRule').methods.get('get_aggregate_metric')
    if gam is not None:
      rule_match_anchored(check, cx, r_x)
      r_c = check.rule('R-C08-cache', 1, 'the name cache is per rule, keyed by the whole name, and stores what was computed')
      rule_name_cache(check, cx, r_c)


def rule_name_cache(check, cx, r_c):
  """the aggregate-name cache is per rule, keyed by the whole name, and stores what was computed (shared with C16: the
  aggregation-aware router asks the same cached function which names feed which aggregate)."""
  repo = check.repo
  gam = repo.cls('carbon.aggregator.rules', 'AggregationRule').methods.get('get_aggregate_metric')
  if gam is None:
    r_c.cannot_decide('AggregationRule.get_aggregate_metric not found')
    return
  # per-rule cache keyed by the whole path, storing the computed result
  g = cx.cfg(gam)
  stores = [n for n in g.nodes if n.kind == 'stmt' and isinstance(n.ast, ast.Assign) and any(
    isinstance(tg, ast.Subscript) and dotted(tg.value) == 'self.cache' for tg in n.ast.targets)]
  rets = [n for n in g.nodes if n.kind == 'stmt' and isinstance(n.ast, ast.Return)]
  def _key_store(s_):
    for tg in s_.ast.targets:
      if isinstance(tg, ast.Subscript) and dotted(tg.value) == 'self.cache':
        return tg
    return None
  # self.cache[<whole path>] = <result> [= ...]; the result stored is the result returned
  okc = bool(stores) and all(unparse(_key_store(s_).slice) == gam.params[1] for s_ in stores)
  if okc:
    vn_g = ValueNumbers(cx, gam)
    stored = {vn_g.term(s_.ast.value, s_) for s_ in stores} | {
      vn_g.term(tg, s_) for s_ in stores for tg in s_.ast.targets if isinstance(tg, ast.Name)}
    final = [r for r in rets if r.ast.value is not None and (
      vn_g.term(r.ast.value, r) in stored or
      (isinstance(r.ast.value, ast.Name) and any(isinstance(tg, ast.Name) and tg.id == r.ast.value.id
                                                  for s_ in stores for tg in s_.ast.targets)) or
      (isinstance(r.ast.value, ast.Name) and any(isinstance(s_.ast.value, ast.Name) and s_.ast.value.id == r.ast.value.id for s_ in stores)))]
    okc = bool(final)
  init = repo.cls('carbon.aggregator.rules', 'AggregationRule').methods.get('__init__')
  per_rule = init is not None and _fresh_cache_per_rule(cx, init)
  if okc and per_rule:
    r_c.ok('cache[metric_path] = result, one cache per rule', gam.loc(stores[0].ast))
  else:
    r_c.violate('name cache', gam, stores[0].ast if stores else None, 'the aggregate-name cache is not a per-rule mapping from the '
                'whole metric path to the computed result', construct='self.cache[metric_path] = result')


def rule_match_anchored(check, cx, rule):
  """an aggregation rule applies to a name only if its pattern matches from the first character (shared with C16:
  the aggregation-aware router uses the same test to decide which names are inputs of an aggregate)."""
  gam = check.repo.cls('carbon.aggregator.rules', 'AggregationRule').methods.get('get_aggregate_metric')
  if gam is None:
    rule.cannot_decide('AggregationRule.get_aggregate_metric not found')
    return
  mp = gam.params[1] if len(gam.params) > 1 else 'metric_path'
  uses = [c for c in walk_no_nested(gam.node, include_self=False) if isinstance(c, ast.Call) and isinstance(c.func, ast.Attribute) and
          dotted(c.func.value) == 'self.regex']
  good = [c for c in uses if c.func.attr in ('match', 'fullmatch') and len(c.args) == 1 and dotted(c.args[0]) == mp]
  bad = [c for c in uses if c not in good]
  if good and not bad:
    rule.ok('patterns applied with regex.match (anchored at the start)', gam.loc(good[0]))
  else:
    rule.violate('pattern not anchored at the start', gam, (bad or [None])[0], 'get_aggregate_metric applies the rule pattern with '
                 '`%s`, not self.regex.match(%s): a name that merely contains (ends with) something the pattern matches is '
                 'taken for an input of the aggregate' % (short(bad[0]) if bad else 'nothing', mp),
                 construct='self.regex.match(metric_path)')


FRESH_CTORS = {'dict', 'OrderedDict', 'defaultdict'}


def _fresh_value(cx, fn, e, depth=0):
  """does the expression always evaluate to a container created by this very evaluation?"""
  from ..rulelib import resolve_copies
  if isinstance(e, tuple):
    return False
  if isinstance(e, ast.Dict):
    return True
  if isinstance(e, ast.Name):
    srcs = resolve_copies(fn, e)
    return bool(srcs) and srcs != [e] and all(_fresh_value(cx, fn, s, depth) for s in srcs)
  if isinstance(e, ast.IfExp):
    return _fresh_value(cx, fn, e.body, depth) and _fresh_value(cx, fn, e.orelse, depth)
  if isinstance(e, ast.Call):
    f = e.func
    if isinstance(f, ast.Name) and f.id in FRESH_CTORS:
      return True
    cs, how = cx.callees(e, fn)
    if how == 'resolved' and cs:
      ok = True
      for callee, via in cs:
        if via == 'ctor':
          continue
        if depth >= 2 or isinstance(callee.node, ast.Lambda):
          return False
        rets = [r for r in walk_no_nested(callee.node, include_self=False) if isinstance(r, ast.Return)]
        if not rets or not all(r.value is not None and _fresh_value(cx, callee, r.value, depth + 1) for r in rets):
          ok = False
      return ok
    if how == 'external' and isinstance(f, (ast.Name, ast.Attribute)) and (dotted(f) or '').split('.')[-1][:1].isupper():
      return True       # constructor of a library class (cachetools.LRUCache / TTLCache)
  return False


def _fresh_cache_per_rule(cx, init):
  """__init__ gives every rule object a cache container of its own."""
  stores = [n for n in walk_no_nested(init.node, include_self=False) if isinstance(n, ast.Assign) and
            any(isinstance(t, ast.Attribute) and dotted(t) == 'self.cache' for t in n.targets)]
  return bool(stores) and all(_fresh_value(cx, init, n.value) for n in stores)
