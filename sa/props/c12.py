"""C12 - Admission rules: blacklist, whitelist, NaN and timestamp normalisation.

Decided: every drop path of MetricReceiver.metricReceived is under one of the
classified guards; only the two normalisations redefine the datapoint, in the
stated order; a single gate for all listeners; list semantics = "some pattern
of the file searches the name".  Not decided: regex semantics, floor arithmetic.
"""
import ast

from ..model import dotted, unparse, norm, walk_no_nested
from ..symeval import show
from ..rulelib import Ctx, nodes_calling, reaching_defs, value_assigned, short, resolve_copies, local_sources
from ..registry import sites

EV = 'carbon.events.metricReceived'


def _list_origin(T, e, fn):
  for t in T.expr_types(e, fn.module, fn):
    if t[0] == 'inst' and t[1].name == 'RegexList' and t[2]:
      return t[2].split('.')[-1]
  return None


def run(check):
  cx = Ctx(check)
  repo, T = check.repo, check.types
  check.explanation = (
    'Guard classification on the CFG of MetricReceiver.metricReceived: with the blacklist-match, whitelist-miss, NaN and '
    'unparsable-timestamp edges removed, the function exit is unreachable without passing the dispatch to '
    'events.metricReceived - so no other datapoint is filtered. Reaching definitions show that only the "-1 -> now" and '
    'the resolution floor redefine the datapoint (value component and metric name untouched) and that the floor is applied '
    'to the substituted time, and the -1 test to the raw timestamp. Who-may-call shows one gate for every listener. '
    'RegexList: one compiled pattern per file line, membership = any pattern searches the name.')
  check.not_decided = ['regex semantics', 'the floor arithmetic itself']
  check.trusted_base = ['re module']
  mr = repo.cls('carbon.protocols', 'MetricReceiver')
  fn = mr.methods.get('metricReceived')
  if fn is None:
    check.rule('R-C12-drops-enumerated', 1).cannot_decide('MetricReceiver.metricReceived not found')
    return
  g = cx.cfg(fn)
  params = fn.params
  mvar, dvar = params[1], params[2]
  emits = nodes_calling(g, lambda c: T.event_origin(c.func, fn.module, fn) == EV)

  # ------------------------------------------------------------------ drop paths
  r_d = check.rule('R-C12-drops-enumerated', 3, 'every path that does not dispatch the datapoint is one of the stated drops')
  r_d.require(emits, 'metricReceived does not dispatch to events.metricReceived')
  from ..paths import PathExec
  P = ('param', dvar)
  RAW_TS = (('sub', P, 0), ('field', P, 0))
  RAW_VAL = (('sub', P, 1), ('field', P, 1))

  def classify(pol, t, a):
    """the drop a decision stands for, or None.  t: test term (sa/paths.py), a: the test's ast."""
    if not isinstance(t, tuple):
      return None
    if t[0] in ('in', 'notin') and t[1] == ('param', mvar) and isinstance(a, ast.Compare):
      lst = _list_origin(T, a.comparators[0], fn)
      isin = (t[0] == 'in') == (pol == 'T')
      if lst == 'BlackList' and isin:
        return 'blacklist match'
      if lst == 'WhiteList' and not isin:
        return 'whitelist miss'
    if t[0] == 'cmp' and t[2] == t[3] and t[2] in RAW_VAL and ((t[1] == 'NotEq' and pol == 'T') or (t[1] == 'Eq' and pol == 'F')):
      return 'NaN value'
    if t[0] == 'call' and t[1].split('.')[-1] == 'isnan' and len(t) == 3 and pol == 'T' and \
       (t[2] in RAW_VAL or (t[2][0] == 'call' and t[2][1] == 'float' and t[2][2] in RAW_VAL)):
      return 'NaN value'
    return None

  def conversion_failure(t, h):
    """t: ('raised', call terms...) of the statement that raised into handler node h: the integer conversion of the raw
    timestamp and nothing else, caught by a handler for conversion errors only?"""
    types = unparse(h.ast.type) if h.ast.type is not None else ''
    names = {x.strip().split('.')[-1] for x in types.strip('()').split(',') if x.strip()}
    if not names or not names <= {'ValueError', 'OverflowError', 'TypeError'}:
      return False
    calls = t[1:]
    return bool(calls) and all(c[0] == 'call' and c[1] in ('int', 'float') and len(c) == 3 and
                               (c[2] in RAW_TS or (c[2][0] == 'call' and c[2][1] in ('int', 'float') and c[2][2] in RAW_TS))
                               for c in calls)

  px = PathExec(cx, fn)
  seen_classes = {}
  n_drop = n_emit = n_unclassified = 0
  emit_set = set(emits)
  for hit in px.run([g.exit]):
    passed = [n for n in hit.trail if n in emit_set]
    kinds = []
    for pol, t, a, n in hit.conds:
      k = classify(pol, t, a) if pol in ('T', 'F') else None
      if k:
        kinds.append((k, a, n))
    for pol, t, a, n in hit.conds:
      if pol == 'X' and n.kind == 'handler' and conversion_failure(t, n):
        kinds.append(('unparsable timestamp', n.ast, n))
    if len(passed) > 1:
      r_d.violate('dispatched twice', fn, passed[0].ast, 'a datapoint can be dispatched to the pipeline more than once')
    if passed:
      n_emit += 1
      if kinds:
        k, a, n = kinds[0]
        r_d.violate('%s still dispatched' % k, fn, a, 'after `%s` classified the datapoint as a %s, it can still reach '
                    'events.metricReceived' % (short(a), k))
      continue
    n_drop += 1
    if not kinds:
      last = [x for x in hit.trail if x.ast is not None]
      n_unclassified += 1
      r_d.violate('unclassified drop path', fn, last[-1].ast if last else None, 'metricReceived can return without dispatching the '
                  'datapoint on a path that is not a blacklist match, a whitelist miss, a NaN value or an unparsable timestamp: '
                  'some other datapoint is filtered', path=hit.describe())
    else:
      for k, a, n in kinds:
        seen_classes.setdefault(k, a)
  if px.truncated:
    r_d.cannot_decide('too many paths through metricReceived')
  if n_drop and not n_unclassified:
    r_d.ok('all %d non-dispatching paths are classified drops' % n_drop, fn.loc())
  for k in ('blacklist match', 'whitelist miss', 'NaN value'):
    if k in seen_classes:
      r_d.ok('%s guard present' % k, fn.loc(seen_classes[k]))
    else:
      r_d.violate('%s not filtered' % k, fn, None, 'metricReceived has no path that drops a datapoint on a %s' % k,
                  construct='guard: %s' % k)

  # ------------------------------------------------------------------ normalisation
  r_n = check.rule('R-C12-normalisation', 4, 'only "-1 -> now" and the resolution floor alter an admitted datapoint, in that order')
  rule_normalisation(check, cx, r_n)

  # ------------------------------------------------------------------ single gate
  r_g = check.rule('R-C12-single-gate', 4, 'every listener protocol goes through the one admission function')
  for f in repo.all_functions():
    for c in [n for n in walk_no_nested(f.node, include_self=False) if isinstance(n, ast.Call)]:
      if T.event_origin(c.func, f.module, f) == EV:
        if f is fn:
          r_g.ok('events.metricReceived fired by MetricReceiver.metricReceived', f.loc(c))
        elif f.module.name == 'carbon.amqp_listener':
          check.notes.append('carbon.amqp_listener fires events.metricReceived directly (outside the listeners C12 speaks of)')
        else:
          r_g.violate('second gate', f, c, '%s fires events.metricReceived directly, bypassing blacklist/whitelist/NaN/timestamp '
                      'admission' % f.qualname)
  for c in repo.subclasses(mr):
    if 'metricReceived' in c.methods:
      r_g.violate('admission overridden', c.methods['metricReceived'], None, '%s overrides metricReceived: its listener does not '
                  'apply the common admission rules' % c.name, construct='def metricReceived')
    for name in ('lineReceived', 'datagramReceived', 'stringReceived'):
      m = c.methods.get(name)
      if m is None:
        continue
      seen_m = [m]
      todo_m = [m]
      calls = []
      while todo_m:
        cur = todo_m.pop()
        for k in walk_no_nested(cur.node, include_self=False):
          if isinstance(k, ast.Call) and isinstance(k.func, ast.Attribute) and isinstance(k.func.value, ast.Name) and k.func.value.id == 'self':
            if k.func.attr == 'metricReceived':
              calls.append(k)
            else:
              for callee, _ in cx.callees(k, cur)[0]:
                if callee.cls is not None and callee.module.name == 'carbon.protocols' and callee not in seen_m:
                  seen_m.append(callee)
                  todo_m.append(callee)
      if calls:
        r_g.ok('%s.%s -> self.metricReceived' % (c.name, name), m.loc(calls[0]))
      else:
        r_g.violate('listener bypasses admission', m, None, '%s.%s never calls self.metricReceived' % (c.name, name),
                    construct='self.metricReceived(...)')

  # ------------------------------------------------------------------ lists
  r_l = check.rule('R-C12-lists', 5, 'a list matches iff some pattern line of its file searches the name')
  rl = repo.cls('carbon.regexlist', 'RegexList')
  # "already read" is decided on the file's modification time at full (sub-second) precision: a whole-second stamp
  # (os.stat(f)[ST_MTIME], int(...)) makes a second version written within the same second look already read
  rdl = rl.methods.get('read_list')
  if rdl is not None:
    from ..paths import mentions
    from ..rulelib import ValueNumbers
    vn_r = ValueNumbers(cx, rdl, multi=True)
    for cmp_ in [x for x in walk_no_nested(rdl.node, include_self=False) if isinstance(x, ast.Compare) and
                 'rules_last_read' in unparse(x)]:
      other = cmp_.left if 'rules_last_read' in unparse(cmp_.comparators[0]) else cmp_.comparators[0]
      t_ = vn_r.term(other, cmp_)
      truncated = mentions(t_, lambda x: isinstance(x, tuple) and (
        (x[0] in ('sub', 'field') and mentions(x[1], lambda y: isinstance(y, tuple) and y[0] == 'call' and str(y[1]).endswith('stat'))) or
        (x[0] == 'call' and x[1] in ('int', 'round', 'math.floor', 'floor')) or
        (x[0] == 'binop' and x[1] == 'FloorDiv')))
      if truncated:
        r_l.violate('list reload decided on whole seconds', rdl, cmp_, 'the modification time compared with rules_last_read (`%s`) is '
                    'truncated to whole seconds: a list file rewritten within the second of the previous read is taken for already read '
                    'and the stale patterns stay in force' % unparse(other))
      else:
        r_l.ok('reload decided on the full-precision modification time', rdl.loc(cmp_))
  cont = rl.methods.get('__contains__')
  if cont is None:
    r_l.cannot_decide('RegexList.__contains__ not found')
  else:
    gc = cx.cfg(cont)
    val = cont.params[1]
    loops = [n for n in gc.nodes if n.kind == 'loop' and isinstance(n.owner, ast.For) and dotted(n.owner.iter) == 'self.regex_list']
    rets_true = [n for n in gc.nodes if n.kind == 'stmt' and isinstance(n.ast, ast.Return) and
                 isinstance(n.ast.value, ast.Constant) and n.ast.value.value is True]
    rets_false = [n for n in gc.nodes if n.kind == 'stmt' and isinstance(n.ast, ast.Return) and
                  isinstance(n.ast.value, ast.Constant) and n.ast.value.value is False]
    okc = bool(loops) and bool(rets_true) and bool(rets_false)
    any_form = _contains_any_form(cont, val)
    if any_form:
      okc = True
    elif okc:
      lv = loops[0].owner.target.id if isinstance(loops[0].owner.target, ast.Name) else None
      def search_true(a, lab, b):
        return isinstance(lab, tuple) and lab[0] == 'T' and isinstance(lab[1], ast.Call) and \
          isinstance(lab[1].func, ast.Attribute) and lab[1].func.attr == 'search' and dotted(lab[1].func.value) == lv and \
          lab[1].args and dotted(lab[1].args[0]) == val
      okc = all(rt not in gc.reach([gc.entry], removed_edge=search_true, normal_only=True) for rt in rets_true)
      # False only after the loop is exhausted
      exhausted = lambda a, lab, b: a is loops[0] and isinstance(lab, tuple) and lab[0] == 'F'   # noqa
      okc = okc and all(rf not in gc.reach([gc.entry], removed_edge=exhausted, normal_only=True) for rf in rets_false)
      # a successful search must return True
      for (a, lab, b) in gc.test_edges(lambda pol, t, n: pol == 'T' and isinstance(t, ast.Call) and isinstance(t.func, ast.Attribute)
                                       and t.func.attr == 'search'):
        if gc.exit in gc.reach([b], removed_nodes=set(rets_true), normal_only=True):
          okc = False
    if okc:
      r_l.ok('__contains__: True iff some pattern.search(name)', cont.loc())
    else:
      r_l.violate('membership semantics', cont, None, 'RegexList.__contains__ is not "return True as soon as one compiled pattern '
                  'searches the value, False after all were tried"', construct='__contains__')
  rd = rl.methods.get('read_list')
  if rd is None:
    r_l.cannot_decide('RegexList.read_list not found')
  else:
    gr = cx.cfg(rd)
    assigns = [n for n in gr.nodes if n.kind == 'stmt' and isinstance(n.ast, ast.Assign) and
               any(dotted(t) == 'self.regex_list' for t in n.ast.targets) and isinstance(n.ast.value, ast.Name)]
    line_loops = [n for n in gr.nodes if n.kind == 'loop' and isinstance(n.owner, ast.For) and _iterates_file(rd, n.owner.iter)]
    if not assigns or not line_loops:
      r_l.cannot_decide('read_list: list assignment or line loop not recognised')
    else:
      lst_names = _copy_closure(rd, assigns[-1].ast.value.id)
      loop = line_loops[0].owner
      apps = [c for c in walk_no_nested(rd.node, include_self=False) if isinstance(c, ast.Call) and isinstance(c.func, ast.Attribute)
              and isinstance(c.func.value, ast.Name) and c.func.value.id in lst_names and c.func.attr in ('append', 'extend', 'insert')]

      def one_compiled_line(c):
        if not (c.func.attr == 'append' and any(x is c for x in ast.walk(loop)) and c.args):
          return False
        vals = resolve_copies(rd, c.args[0])
        return bool(vals) and all(isinstance(v, ast.Call) and (dotted(v.func) or '') == 're.compile' and len(v.args) == 1 and
                                  isinstance(v.args[0], ast.Name) and any(x is v for x in ast.walk(loop)) for v in vals)
      bad = [c for c in apps if not one_compiled_line(c)]
      if apps and not bad:
        r_l.ok('one re.compile(<line pattern>) appended per file line', rd.loc(apps[0]))
      else:
        r_l.violate('patterns not kept one per line', rd, (bad or [assigns[-1].ast])[0], 'the list does not hold one compiled regex '
                    'per pattern line (`%s`): combining lines changes what they match (inline flags become global, group numbers '
                    'shift)' % short((bad or [assigns[-1].ast])[0]))
      # invalid lines are skipped, not fatal; comments / blanks skipped
      hs = [h for h in ast.walk(loop) if isinstance(h, ast.ExceptHandler)]
      if hs and all('error' in (unparse(h.type) if h.type is not None else '') for h in hs) and \
         not any(isinstance(x, (ast.Raise, ast.Break, ast.Return)) for h in hs for x in ast.walk(h)):
        r_l.ok('an invalid pattern line is logged and skipped', rd.loc(hs[0]))
      else:
        r_l.violate('invalid pattern handling', rd, loop, 'an invalid pattern line is not simply skipped (re.error must be caught '
                    'per line and the loop continued)')
  nz = rl.methods.get('__nonzero__') or rl.methods.get('__bool__')
  if nz is not None and 'self.regex_list' in unparse(nz.node) and ('__bool__' in rl.methods or '__bool__' in rl.attrs):
    r_l.ok('truthiness = non-empty list (py3 __bool__ defined)', nz.loc())
  else:
    r_l.violate('list truthiness', 'carbon.regexlist:RegexList', None, 'RegexList does not define __bool__ as "has patterns": an '
                'empty whitelist would reject everything / guards would be skipped', construct='__bool__')
  bs = repo.func('carbon.service', 'createBaseService')
  loads = {}
  for c in [n for n in walk_no_nested(bs.node, include_self=False) if isinstance(n, ast.Call)]:
    if isinstance(c.func, ast.Attribute) and c.func.attr == 'read_from' and c.args:
      o = _list_origin(T, c.func.value, bs)
      loads[o] = unparse(c.args[0])
  # with USE_WHITELIST set both lists are put under watch unconditionally (a file that appears later must be picked up)
  gbs = cx.cfg(bs)
  rf_nodes = {}
  for n in gbs.nodes:
    for c in gbs.calls(n):
      if isinstance(c.func, ast.Attribute) and c.func.attr == 'read_from' and c.args:
        o = _list_origin(T, c.func.value, bs)
        if o:
          rf_nodes.setdefault(o, set()).add(n)
  sw_true = [(a, b) for a in gbs.nodes for b, lab in a.succ if isinstance(lab, tuple) and lab[0] == 'T' and
             'USE_WHITELIST' in unparse(lab[1])]
  for o in ('WhiteList', 'BlackList'):
    if o in rf_nodes and sw_true and all(gbs.exit not in gbs.reach([b], removed_nodes=rf_nodes[o], normal_only=True) for a, b in sw_true):
      r_l.ok('%s.read_from() is called on every path once USE_WHITELIST is set' % o, bs.loc(sorted(rf_nodes[o], key=lambda x: x.lineno)[0].ast))
    elif o in rf_nodes:
      r_l.violate('%s watched conditionally' % o, bs, sorted(rf_nodes[o], key=lambda x: x.lineno)[0].ast, 'with USE_WHITELIST set, '
                  '%s.read_from() is skipped on some path (e.g. when the file does not exist at start-up): a list file that is '
                  'created later is never read, so datapoints it should reject are admitted' % o)
  if loads.get('WhiteList', '').endswith('whitelist') and loads.get('BlackList', '').endswith('blacklist'):
    r_l.ok('WhiteList <- settings.whitelist, BlackList <- settings.blacklist', bs.loc())
  else:
    r_l.violate('list files', bs, None, 'the whitelist/blacklist files are not loaded into their own lists: %s' % loads,
                construct='read_from')
  rule_path_as_configured(check, cx, check.rule('R-C12-path-as-configured', 1, 'the reload task watches the list file under the configured path (no symlink resolution at start-up)'))


def rule_normalisation(check, cx, r_n):
  """only "-1 -> now" and the resolution floor alter an admitted datapoint, in that order (shared with C01 and C15).

  Decided per path (sa/paths.py): on every path from the entry of metricReceived to the dispatch, the terms of the
  dispatched metric / value / timestamp are compared with what the decisions taken on that path require."""
  from ..paths import PathExec, mentions
  repo, T = check.repo, check.types
  mr = repo.cls('carbon.protocols', 'MetricReceiver')
  fn = mr.methods.get('metricReceived')
  if fn is None:
    r_n.cannot_decide('MetricReceiver.metricReceived not found')
    return
  g = cx.cfg(fn)
  mvar, dvar = fn.params[1], fn.params[2]
  emits = nodes_calling(g, lambda c: T.event_origin(c.func, fn.module, fn) == EV)
  if not emits:
    r_n.cannot_decide('metricReceived never dispatches to events.metricReceived')
    return
  P = ('param', dvar)
  RAW_TS = (('sub', P, 0), ('field', P, 0))
  RAW_VAL = (('sub', P, 1), ('field', P, 1))
  NOW = (('call', 'time.time'), ('call', 'time'))

  def is_res(t):
    return isinstance(t, tuple) and t[0] == 'attr' and t[-1] == 'MIN_TIMESTAMP_RESOLUTION'

  def unfloor(t):
    """(inner, divisor) if t == inner // d * d  (or d * (inner // d), inner - inner % d); else (None, None)"""
    if isinstance(t, tuple) and t[0] == 'binop' and t[1] == 'Mult':
      for a, b in ((t[2], t[3]), (t[3], t[2])):
        if isinstance(a, tuple) and a[0] == 'binop' and a[1] == 'FloorDiv' and a[3] == b:
          return a[2], b
        if isinstance(a, tuple) and a[0] == 'call' and a[1] == 'int' and len(a) == 3 and isinstance(a[2], tuple) and \
           a[2][0] == 'binop' and a[2][1] in ('FloorDiv', 'Div') and a[2][3] == b:
          return a[2][2], b
    if isinstance(t, tuple) and t[0] == 'binop' and t[1] == 'Sub' and isinstance(t[3], tuple) and t[3][0] == 'binop' and \
       t[3][1] == 'Mod' and t[3][2] == t[2]:
      return t[2], t[3][3]
    return None, None

  def base_kind(t):
    if t in RAW_TS:
      return 'raw'
    if t in NOW:
      return 'now'
    if isinstance(t, tuple) and t[0] == 'call' and t[1] in ('int', 'float') and len(t) == 3:
      k = base_kind(t[2])
      if k in ('raw', 'now'):
        return ('int-' if t[1] == 'int' else '') + k
      return None if k is None else k
    return None

  seen_now = seen_floor = 0
  npaths = 0
  px = PathExec(cx, fn)
  for hit in px.run(emits):
    call = [c for c in g.calls(hit.node) if T.event_origin(c.func, fn.module, fn) == EV][0]
    if len(call.args) != 2:
      r_n.cannot_decide('dispatch call is not events.metricReceived(<metric>, <datapoint>)')
      continue
    # decisions taken on this path
    minus1 = None
    res = None
    contradictory = False
    taken = {}
    for pol, t, a, n in hit.conds:
      if pol not in ('T', 'F'):
        continue
      key = repr(t)
      if key in taken and taken[key] != pol:
        contradictory = True
      taken[key] = pol
      if isinstance(t, tuple) and t[0] == 'cmp' and t[1] in ('Eq', 'NotEq', 'Is', 'IsNot') and (t[2] == ('const', -1) or t[3] == ('const', -1)):
        x = t[3] if t[2] == ('const', -1) else t[2]
        val = (pol == 'T') == (t[1] in ('Eq', 'Is'))
        if base_kind(x) not in ('raw', 'int-raw'):
          r_n.violate('-1 tested after flooring', fn, a, 'the `== -1` test is applied to `%s`, which is not the raw timestamp of the '
                      'datapoint: once floored to MIN_TIMESTAMP_RESOLUTION (or otherwise altered), -1 is no longer recognised'
                      % unparse(a.left if isinstance(a, ast.Compare) else a))
        minus1 = val if minus1 is None or minus1 == val else 'both'
      elif (t[0] == 'truth' and is_res(t[1])) or (t[0] == 'cmp' and (is_res(t[2]) or is_res(t[3]))):
        ZERO = (('const', 0), ('const', 0.0), ('const', None))
        if t[0] == 'truth':
          val = pol == 'T'
        elif t[0] == 'cmp' and (is_res(t[2]) and t[3] not in ZERO or is_res(t[3]) and t[2] not in ZERO):
          r_n.violate('resolution compared with something else than 0', fn, a, 'the resolution floor is decided by `%s`: every '
                      'positive MIN_TIMESTAMP_RESOLUTION (1 included: it turns fractional timestamps into whole seconds) must '
                      'floor the timestamp' % unparse(a))
          continue
        elif t[0] == 'cmp' and t[1] in ('Gt', 'NotEq', 'IsNot') and is_res(t[2]):
          val = pol == 'T'
        elif t[0] == 'cmp' and t[1] in ('LtE', 'Eq', 'Is') and is_res(t[2]):
          val = pol != 'T'
        elif t[0] == 'cmp' and t[1] == 'Lt' and is_res(t[3]):
          val = pol == 'T'
        else:
          r_n.cannot_decide('unrecognised test of MIN_TIMESTAMP_RESOLUTION: `%s`' % unparse(a))
          continue
        res = val if res is None or res == val else 'both'
    if contradictory or minus1 == 'both' or res == 'both':
      continue                # the same test decided both ways: not a path of the program
    npaths += 1
    m_t = hit.term(call.args[0], px)
    d_t = hit.term(call.args[1], px)
    if m_t != ('param', mvar):
      r_n.violate('metric name altered', fn, call, 'the metric name dispatched is not the unmodified `%s` parameter' % mvar)
    if d_t == P:
      ts_t, v_t = RAW_TS[0], RAW_VAL[0]
    elif isinstance(d_t, tuple) and d_t[0] == 'tuple' and len(d_t) == 3:
      ts_t, v_t = d_t[1], d_t[2]
    else:
      r_n.violate('datapoint rebuilt', fn, call, 'the datapoint dispatched is `%s`, not (timestamp, value)' % short(call.args[1]))
      continue
    if v_t not in RAW_VAL:
      r_n.violate('value altered', fn, call, 'the value component dispatched is `%s`, not the received value' % show(v_t))
    inner, div = unfloor(ts_t)
    floored = inner is not None
    base = base_kind(inner if floored else ts_t)
    where = _where(fn, hit, call, dvar)
    if minus1 is None:
      r_n.violate('timestamp never compared with -1', fn, where, 'a datapoint can be dispatched on a path that never compared its '
                  'timestamp with -1: "-1 means now" is not applied there')
      continue
    if base is None:
      r_n.violate('timestamp altered', fn, where, 'the timestamp dispatched can be `%s`: an admitted datapoint keeps the timestamp it '
                  'was sent with unless that is -1 (-> current time) or MIN_TIMESTAMP_RESOLUTION floors it' % show(ts_t))
      continue
    if minus1 and base not in ('now', 'int-now'):
      r_n.violate('-1 not replaced', fn, where, 'on the path where the timestamp equals -1 the dispatched timestamp is `%s`, not the '
                  'current time' % show(ts_t), construct='datapoint = (time.time(), datapoint[1])')
      continue
    if not minus1 and base in ('now', 'int-now'):
      r_n.violate('timestamp replaced without the -1 test', fn, where, 'the timestamp is replaced by the current time on a path '
                  'that did not find it equal to -1')
      continue
    if res is None:
      r_n.violate('resolution never consulted', fn, where, 'a datapoint can be dispatched on a path that never looked at '
                  'MIN_TIMESTAMP_RESOLUTION: the floor is not applied there', construct='timestamp // res * res')
      continue
    if res and not floored:
      r_n.violate('substituted time not floored' if minus1 else 'resolution floor missing', fn, where,
                  'with MIN_TIMESTAMP_RESOLUTION set, the dispatched timestamp `%s` is not floored to it%s'
                  % (show(ts_t), ' (after the "now" substitution)' if minus1 else ''), construct='timestamp // res * res')
      continue
    if floored and not is_res(div):
      r_n.violate('floor to something else', fn, where, 'the timestamp is floored to `%s`, not to MIN_TIMESTAMP_RESOLUTION' % show(div))
      continue
    if floored and not res:
      r_n.violate('floor without resolution', fn, where, 'the timestamp is floored on a path where MIN_TIMESTAMP_RESOLUTION was '
                  'not found set')
      continue
    if not floored and not minus1 and base != 'raw':
      r_n.violate('timestamp altered', fn, where, 'without -1 and without a resolution the timestamp dispatched is `%s`, not the one '
                  'received (int() drops the fractional part)' % show(ts_t))
      continue
    seen_now += 1 if minus1 else 0
    seen_floor += 1 if floored else 0
    r_n.ok('path [-1:%s, resolution:%s] dispatches (%s, value) for the unmodified metric'
           % ('yes' if minus1 else 'no', 'set' if res else 'unset', show(ts_t)), fn.loc(call))
  if px.truncated:
    r_n.cannot_decide('too many paths through metricReceived')
  if npaths and not seen_now:
    r_n.violate('-1 not replaced', fn, None, 'no path replaces a timestamp of -1 by the current time',
                construct='datapoint = (time.time(), datapoint[1])')
  if npaths and not seen_floor:
    r_n.violate('resolution floor missing', fn, None, 'no path floors the timestamp to MIN_TIMESTAMP_RESOLUTION',
                construct='timestamp // res * res')


def _where(fn, hit, call, dvar):
  """the last statement on the path that assigned the datapoint (or a name feeding the dispatch); the call otherwise."""
  names = {x.id for x in ast.walk(call) if isinstance(x, ast.Name)}
  for n in reversed(hit.trail):
    a = n.ast
    if n.kind == 'stmt' and isinstance(a, ast.Assign) and any(isinstance(t, ast.Name) and t.id in names for t in a.targets):
      return a
  return call


def _derives_component(g, node, expr, dvar, idx):
  """expr is a Name whose only reaching definition is component idx of the datapoint parameter."""
  if not isinstance(expr, ast.Name):
    return False
  rds = reaching_defs(g, expr.id, node)
  if len(rds) != 1 or rds[0] is g.entry:
    return False
  v = value_assigned(rds[0], expr.id)
  if isinstance(v, tuple) and v[0] == 'unpack' and isinstance(v[1], ast.Name) and v[1].id == dvar and v[2] == (idx,):
    return True
  if isinstance(v, ast.AST) and unparse(v).replace(' ', '') == '%s[%d]' % (dvar, idx):
    return True
  return False


def _raw_timestamp(g, node, expr, dvar):
  """expr is int(datapoint[0]) of the parameter, or a Name all of whose reaching definitions are that."""
  txt = unparse(expr).replace(' ', '')
  if txt in ('int(%s[0])' % dvar, '%s[0]' % dvar):
    return reaching_defs(g, dvar, node) == [g.entry]
  if isinstance(expr, ast.Name):
    rds = reaching_defs(g, expr.id, node)
    if not rds:
      return False
    for d in rds:
      if d is g.entry:
        return False
      v = value_assigned(d, expr.id)
      if not (isinstance(v, ast.AST) and unparse(v).replace(' ', '') in ('int(%s[0])' % dvar, '%s[0]' % dvar)):
        return False
      if reaching_defs(g, dvar, d) != [g.entry]:
        return False
    return True
  return False


def _is_resolution(g, node, t):
  if 'MIN_TIMESTAMP_RESOLUTION' in unparse(t):
    return True
  if isinstance(t, ast.Name):
    for d in reaching_defs(g, t.id, node):
      if d is g.entry:
        return False
      v = value_assigned(d, t.id)
      if not (isinstance(v, ast.AST) and 'MIN_TIMESTAMP_RESOLUTION' in unparse(v)):
        return False
    return True
  return False


def _copy_closure(fn, name):
  """the local names that (transitively) feed ``name`` by plain copies, itself included."""
  names = {name}
  changed = True
  while changed:
    changed = False
    for n in walk_no_nested(fn.node, include_self=False):
      if isinstance(n, ast.Assign) and isinstance(n.value, ast.Name):
        for t in n.targets:
          if isinstance(t, ast.Name) and t.id in names and n.value.id not in names:
            names.add(n.value.id)
            changed = True
  return names


def _iterates_file(fn, it):
  """the iterable of a ``for`` is an opened file (open(...), a name bound to one by assignment or ``with ... as``, .readlines())."""
  if isinstance(it, ast.Call) and isinstance(it.func, ast.Attribute) and it.func.attr in ('readlines', 'splitlines', 'read'):
    return _iterates_file(fn, it.func.value)
  if isinstance(it, ast.Call) and (dotted(it.func) or '') in ('open', 'io.open', 'codecs.open'):
    return True
  if isinstance(it, ast.Name):
    srcs = resolve_copies(fn, it)
    return bool(srcs) and srcs != [it] and all(
      (isinstance(x, tuple) and x[0] == 'with' and _iterates_file(fn, x[1])) or (isinstance(x, ast.AST) and _iterates_file(fn, x))
      for x in srcs)
  return False


def _contains_any_form(cont, val):
  """def __contains__(self, value): return any(<p>.search(value) for <p> in self.regex_list)"""
  body = [x for x in cont.node.body if not (isinstance(x, ast.Expr) and isinstance(x.value, ast.Constant))]
  if len(body) != 1 or not isinstance(body[0], ast.Return):
    return False
  v = body[0].value
  if isinstance(v, ast.Call) and isinstance(v.func, ast.Name) and v.func.id == 'bool' and len(v.args) == 1:
    v = v.args[0]
  if not (isinstance(v, ast.Call) and isinstance(v.func, ast.Name) and v.func.id == 'any' and len(v.args) == 1 and
          isinstance(v.args[0], (ast.GeneratorExp, ast.ListComp))):
    return False
  comp = v.args[0]
  if len(comp.generators) != 1 or comp.generators[0].ifs:
    return False
  gen = comp.generators[0]
  if dotted(gen.iter) != 'self.regex_list' or not isinstance(gen.target, ast.Name):
    return False
  e = comp.elt
  if isinstance(e, ast.Compare) and len(e.ops) == 1 and isinstance(e.ops[0], ast.IsNot) and \
     isinstance(e.comparators[0], ast.Constant) and e.comparators[0].value is None:
    e = e.left
  return isinstance(e, ast.Call) and isinstance(e.func, ast.Attribute) and e.func.attr == 'search' and \
    dotted(e.func.value) == gen.target.id and len(e.args) == 1 and dotted(e.args[0]) == val


PATH_KEEPING = {'abspath', 'normpath', 'expanduser', 'expandvars', 'join', 'str', 'fspath', 'normcase'}


def rule_path_as_configured(check, cx, rule):
  """the reload task watches the list file under the path the operator configured: RegexList.read_from keeps the path as given
  (or a lexical normalisation of it) - it does not resolve symbolic links once at start-up, which would pin the daemon to
  whatever the link pointed at then (ConfigMap / `current` release links are retargeted while the daemon runs)."""
  fn = cx.fn('carbon.regexlist', 'RegexList.read_from')
  if not rule.require(fn is not None, 'RegexList.read_from not found'):
    return
  stores = [st for st in ast.walk(fn.node) if isinstance(st, ast.Assign) and
            any(isinstance(t, ast.Attribute) and t.attr == 'list_file' for t in st.targets)]
  if not rule.require(bool(stores), 'RegexList.read_from does not record the list file'):
    return
  for st in stores:
    bad = [c for c in ast.walk(st.value) if isinstance(c, ast.Call) and (dotted(c.func) or unparse(c.func)).split('.')[-1] not in PATH_KEEPING]
    if bad:
      rule.violate('list file path resolved at start-up', fn, bad[0], 'self.list_file is `%s`: the path the reload task stats and reads is '
                   'no longer the configured one (a symbolic link is followed once, at start-up), so after the link is retargeted the '
                   'old rules stay in force - or all rules vanish when the old target is removed' % short(st.value, 60))
    else:
      rule.ok('list file recorded as configured', fn.loc(st), short(st.value, 50))
