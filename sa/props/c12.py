"""C12 - Admission rules: blacklist, whitelist, NaN and timestamp normalisation.

Decided: every drop path of MetricReceiver.metricReceived is under one of the
classified guards; only the two normalisations redefine the datapoint, in the
stated order; a single gate for all listeners; list semantics = "some pattern
of the file searches the name".  Not decided: regex semantics, floor arithmetic.
"""
import ast

from ..model import dotted, unparse, norm, walk_no_nested
from ..rulelib import Ctx, nodes_calling, reaching_defs, value_assigned, short
from ..registry import sites

EV = 'carbon.events.metricReceived'


def _list_origin(T, e, fn):
  for t in T.expr_types(e, fn.module, fn):
    if t[0] == 'inst' and t[1].name == 'RegexList' and t[2]:
      return t[2].split('.')[-1]
  return None


def run(check):
  cx = Ctx(check)
  repo, T = check.repo, check.types
  check.explanation = (
    'Guard classification on the CFG of MetricReceiver.metricReceived: with the blacklist-match, whitelist-miss, NaN and '
    'unparsable-timestamp edges removed, the function exit is unreachable without passing the dispatch to '
    'events.metricReceived - so no other datapoint is filtered. Reaching definitions show that only the "-1 -> now" and '
    'the resolution floor redefine the datapoint (value component and metric name untouched) and that the floor is applied '
    'to the substituted time, and the -1 test to the raw timestamp. Who-may-call shows one gate for every listener. '
    'RegexList: one compiled pattern per file line, membership = any pattern searches the name.')
  check.not_decided = ['regex semantics', 'the floor arithmetic itself']
  check.trusted_base = ['re module']
  mr = repo.cls('carbon.protocols', 'MetricReceiver')
  fn = mr.methods.get('metricReceived')
  if fn is None:
    check.rule('R-C12-drops-enumerated', 1).cannot_decide('MetricReceiver.metricReceived not found')
    return
  g = cx.cfg(fn)
  params = fn.params
  mvar, dvar = params[1], params[2]
  emits = nodes_calling(g, lambda c: T.event_origin(c.func, fn.module, fn) == EV)

  # ------------------------------------------------------------------ drop paths
  r_d = check.rule('R-C12-drops-enumerated', 3, 'every path that does not dispatch the datapoint is one of the stated drops')
  r_d.require(emits, 'metricReceived does not dispatch to events.metricReceived')
  classes = {}

  def classify(pol, t, node):
    # blacklist / whitelist membership
    if isinstance(t, ast.Compare) and len(t.ops) == 1 and isinstance(t.left, ast.Name) and t.left.id == mvar:
      lst = _list_origin(T, t.comparators[0], fn)
      isin = isinstance(t.ops[0], ast.In)
      notin = isinstance(t.ops[0], ast.NotIn)
      if lst == 'BlackList' and ((isin and pol == 'T') or (notin and pol == 'F')):
        return 'blacklist match'
      if lst == 'WhiteList' and ((notin and pol == 'T') or (isin and pol == 'F')):
        return 'whitelist miss'
    # NaN test of component 1
    if isinstance(t, ast.Compare) and len(t.ops) == 1 and isinstance(t.ops[0], ast.NotEq) and pol == 'T':
      a, b = unparse(t.left), unparse(t.comparators[0])
      if a == b and a.replace(' ', '') in ('%s[1]' % dvar, 'value'):
        if a.startswith(dvar) or _derives_component(g, node, t.left, dvar, 1):
          return 'NaN value'
    if isinstance(t, ast.Call) and (dotted(t.func) or '').split('.')[-1] == 'isnan' and pol == 'T' and t.args and \
       (unparse(t.args[0]).replace(' ', '') == '%s[1]' % dvar or _derives_component(g, node, t.args[0], dvar, 1)):
      return 'NaN value'
    return None
  guard_edges = {}
  for n in g.nodes:
    for y, lab in n.succ:
      if isinstance(lab, tuple):
        k = classify(lab[0], lab[1], n)
        if k:
          guard_edges[(n.id, y.id, lab[0])] = k
          classes.setdefault(k, n)
  # handler of a failed integer conversion of the timestamp
  ts_handlers = set()
  for h in [n for n in g.nodes if n.kind == 'handler']:
    tr = getattr(h.ast, '_parent', None)
    types = unparse(h.ast.type) if h.ast.type is not None else ''
    body_ints = [c for s in tr.body for c in ast.walk(s) if isinstance(c, ast.Call) and isinstance(c.func, ast.Name) and
                 c.func.id == 'int' and c.args and unparse(c.args[0]).replace(' ', '') == '%s[0]' % dvar]
    only_conv = all(isinstance(s, ast.Assign) for s in tr.body) and len(tr.body) == 1
    if body_ints and only_conv and ('ValueError' in types or 'OverflowError' in types) and 'Exception' not in types.replace('Exception)', ''):
      ts_handlers.add(h)
      classes.setdefault('unparsable timestamp', h)
  removed_edge = lambda a, lab, b: isinstance(lab, tuple) and (a.id, b.id, lab[0]) in guard_edges   # noqa
  rr = g.reach([g.entry], removed_nodes=set(emits) | ts_handlers, removed_edge=removed_edge, normal_only=False)
  if g.exit in rr:
    p = g.path([g.entry], g.exit, removed_nodes=set(emits) | ts_handlers, removed_edge=removed_edge)
    last = [x for x in p if x.ast is not None]
    r_d.violate('unclassified drop path', fn, last[-1].ast if last else None, 'metricReceived can return without dispatching the '
                'datapoint on a path that is not a blacklist match, a whitelist miss, a NaN value or an unparsable timestamp: '
                'some other datapoint is filtered', path=g.describe_path(p))
  else:
    r_d.ok('all non-dispatching exits are classified drops', fn.loc())
  for k in ('blacklist match', 'whitelist miss', 'NaN value'):
    if k in classes:
      # the guarded branch must really drop (not dispatch)
      n = classes[k]
      r_d.ok('%s guard present' % k, fn.loc(n.ast))
    else:
      r_d.violate('%s not filtered' % k, fn, None, 'metricReceived has no guard that drops a datapoint on a %s' % k,
                  construct='guard: %s' % k)
  # each classified guard leads to a drop: from the guard edge, the dispatch must be unreachable
  for (a_id, b_id, pol), k in sorted(guard_edges.items()):
    b = g.nodes[b_id]
    if any(e in g.reach([b], normal_only=True) for e in emits):
      a = g.nodes[a_id]
      r_d.violate('%s still dispatched' % k, fn, a.ast, 'after the `%s` test classified the datapoint as a %s, it can still reach '
                  'events.metricReceived' % (short(a.ast), k))
  # the dispatch happens exactly once
  for e in emits:
    if any(e2 in g.reach(g.after(e), normal_only=True) for e2 in emits):
      r_d.violate('dispatched twice', fn, e.ast, 'a datapoint can be dispatched to the pipeline more than once')

  # ------------------------------------------------------------------ normalisation
  r_n = check.rule('R-C12-normalisation', 4, 'only "-1 -> now" and the resolution floor alter an admitted datapoint, in that order')
  rule_normalisation(check, cx, r_n)

  # ------------------------------------------------------------------ single gate
  r_g = check.rule('R-C12-single-gate', 4, 'every listener protocol goes through the one admission function')
  for f in repo.all_functions():
    for c in [n for n in walk_no_nested(f.node, include_self=False) if isinstance(n, ast.Call)]:
      if T.event_origin(c.func, f.module, f) == EV:
        if f is fn:
          r_g.ok('events.metricReceived fired by MetricReceiver.metricReceived', f.loc(c))
        elif f.module.name == 'carbon.amqp_listener':
          check.notes.append('carbon.amqp_listener fires events.metricReceived directly (outside the listeners C12 speaks of)')
        else:
          r_g.violate('second gate', f, c, '%s fires events.metricReceived directly, bypassing blacklist/whitelist/NaN/timestamp '
                      'admission' % f.qualname)
  for c in repo.subclasses(mr):
    if 'metricReceived' in c.methods:
      r_g.violate('admission overridden', c.methods['metricReceived'], None, '%s overrides metricReceived: its listener does not '
                  'apply the common admission rules' % c.name, construct='def metricReceived')
    for name in ('lineReceived', 'datagramReceived', 'stringReceived'):
      m = c.methods.get(name)
      if m is None:
        continue
      seen_m = [m]
      todo_m = [m]
      calls = []
      while todo_m:
        cur = todo_m.pop()
        for k in walk_no_nested(cur.node, include_self=False):
          if isinstance(k, ast.Call) and isinstance(k.func, ast.Attribute) and isinstance(k.func.value, ast.Name) and k.func.value.id == 'self':
            if k.func.attr == 'metricReceived':
              calls.append(k)
            else:
              for callee, _ in cx.callees(k, cur)[0]:
                if callee.cls is not None and callee.module.name == 'carbon.protocols' and callee not in seen_m:
                  seen_m.append(callee)
                  todo_m.append(callee)
      if calls:
        r_g.ok('%s.%s -> self.metricReceived' % (c.name, name), m.loc(calls[0]))
      else:
        r_g.violate('listener bypasses admission', m, None, '%s.%s never calls self.metricReceived' % (c.name, name),
                    construct='self.metricReceived(...)')

  # ------------------------------------------------------------------ lists
  r_l = check.rule('R-C12-lists', 5, 'a list matches iff some pattern line of its file searches the name')
  rl = repo.cls('carbon.regexlist', 'RegexList')
  cont = rl.methods.get('__contains__')
  if cont is None:
    r_l.cannot_decide('RegexList.__contains__ not found')
  else:
    gc = cx.cfg(cont)
    val = cont.params[1]
    loops = [n for n in gc.nodes if n.kind == 'loop' and isinstance(n.owner, ast.For) and dotted(n.owner.iter) == 'self.regex_list']
    rets_true = [n for n in gc.nodes if n.kind == 'stmt' and isinstance(n.ast, ast.Return) and
                 isinstance(n.ast.value, ast.Constant) and n.ast.value.value is True]
    rets_false = [n for n in gc.nodes if n.kind == 'stmt' and isinstance(n.ast, ast.Return) and
                  isinstance(n.ast.value, ast.Constant) and n.ast.value.value is False]
    okc = bool(loops) and bool(rets_true) and bool(rets_false)
    if okc:
      lv = loops[0].owner.target.id if isinstance(loops[0].owner.target, ast.Name) else None
      def search_true(a, lab, b):
        return isinstance(lab, tuple) and lab[0] == 'T' and isinstance(lab[1], ast.Call) and \
          isinstance(lab[1].func, ast.Attribute) and lab[1].func.attr == 'search' and dotted(lab[1].func.value) == lv and \
          lab[1].args and dotted(lab[1].args[0]) == val
      okc = all(rt not in gc.reach([gc.entry], removed_edge=search_true, normal_only=True) for rt in rets_true)
      # False only after the loop is exhausted
      exhausted = lambda a, lab, b: a is loops[0] and isinstance(lab, tuple) and lab[0] == 'F'   # noqa
      okc = okc and all(rf not in gc.reach([gc.entry], removed_edge=exhausted, normal_only=True) for rf in rets_false)
      # a successful search must return True
      for (a, lab, b) in gc.test_edges(lambda pol, t, n: pol == 'T' and isinstance(t, ast.Call) and isinstance(t.func, ast.Attribute)
                                       and t.func.attr == 'search'):
        if gc.exit in gc.reach([b], removed_nodes=set(rets_true), normal_only=True):
          okc = False
    if okc:
      r_l.ok('__contains__: True iff some pattern.search(name)', cont.loc())
    else:
      r_l.violate('membership semantics', cont, None, 'RegexList.__contains__ is not "return True as soon as one compiled pattern '
                  'searches the value, False after all were tried"', construct='__contains__')
  rd = rl.methods.get('read_list')
  if rd is None:
    r_l.cannot_decide('RegexList.read_list not found')
  else:
    gr = cx.cfg(rd)
    assigns = [n for n in gr.nodes if n.kind == 'stmt' and isinstance(n.ast, ast.Assign) and
               any(dotted(t) == 'self.regex_list' for t in n.ast.targets) and isinstance(n.ast.value, ast.Name)]
    line_loops = [n for n in gr.nodes if n.kind == 'loop' and isinstance(n.owner, ast.For) and
                  isinstance(n.owner.iter, ast.Call) and (dotted(n.owner.iter.func) or '') in ('open', 'io.open')]
    if not assigns or not line_loops:
      r_l.cannot_decide('read_list: list assignment or line loop not recognised')
    else:
      lst = assigns[-1].ast.value.id
      loop = line_loops[0].owner
      apps = [c for c in walk_no_nested(rd.node, include_self=False) if isinstance(c, ast.Call) and isinstance(c.func, ast.Attribute)
              and dotted(c.func.value) == lst and c.func.attr in ('append', 'extend', 'insert')]
      bad = [c for c in apps if not (c.func.attr == 'append' and any(x is c for x in ast.walk(loop)) and c.args and
                                     isinstance(c.args[0], ast.Call) and (dotted(c.args[0].func) or '') == 're.compile' and
                                     len(c.args[0].args) == 1 and isinstance(c.args[0].args[0], ast.Name))]
      if apps and not bad:
        r_l.ok('one re.compile(<line pattern>) appended per file line', rd.loc(apps[0]))
      else:
        r_l.violate('patterns not kept one per line', rd, (bad or [assigns[-1].ast])[0], 'the list does not hold one compiled regex '
                    'per pattern line (`%s`): combining lines changes what they match (inline flags become global, group numbers '
                    'shift)' % short((bad or [assigns[-1].ast])[0]))
      # invalid lines are skipped, not fatal; comments / blanks skipped
      hs = [h for h in ast.walk(loop) if isinstance(h, ast.ExceptHandler)]
      if hs and all('error' in (unparse(h.type) if h.type is not None else '') for h in hs) and \
         not any(isinstance(x, (ast.Raise, ast.Break, ast.Return)) for h in hs for x in ast.walk(h)):
        r_l.ok('an invalid pattern line is logged and skipped', rd.loc(hs[0]))
      else:
        r_l.violate('invalid pattern handling', rd, loop, 'an invalid pattern line is not simply skipped (re.error must be caught '
                    'per line and the loop continued)')
  nz = rl.methods.get('__nonzero__') or rl.methods.get('__bool__')
  if nz is not None and 'self.regex_list' in unparse(nz.node) and ('__bool__' in rl.methods or '__bool__' in rl.attrs):
    r_l.ok('truthiness = non-empty list (py3 __bool__ defined)', nz.loc())
  else:
    r_l.violate('list truthiness', 'carbon.regexlist:RegexList', None, 'RegexList does not define __bool__ as "has patterns": an '
                'empty whitelist would reject everything / guards would be skipped', construct='__bool__')
  bs = repo.func('carbon.service', 'createBaseService')
  loads = {}
  for c in [n for n in walk_no_nested(bs.node, include_self=False) if isinstance(n, ast.Call)]:
    if isinstance(c.func, ast.Attribute) and c.func.attr == 'read_from' and c.args:
      o = _list_origin(T, c.func.value, bs)
      loads[o] = unparse(c.args[0])
  if loads.get('WhiteList', '').endswith('whitelist') and loads.get('BlackList', '').endswith('blacklist'):
    r_l.ok('WhiteList <- settings.whitelist, BlackList <- settings.blacklist', bs.loc())
  else:
    r_l.violate('list files', bs, None, 'the whitelist/blacklist files are not loaded into their own lists: %s' % loads,
                construct='read_from')


def rule_normalisation(check, cx, r_n):
  """only "-1 -> now" and the resolution floor alter an admitted datapoint, in that order (shared with C01 and C15)."""
  repo, T = check.repo, check.types
  mr = repo.cls('carbon.protocols', 'MetricReceiver')
  fn = mr.methods.get('metricReceived')
  if fn is None:
    r_n.cannot_decide('MetricReceiver.metricReceived not found')
    return
  g = cx.cfg(fn)
  params = fn.params
  mvar, dvar = params[1], params[2]
  emits = nodes_calling(g, lambda c: T.event_origin(c.func, fn.module, fn) == EV)
  for e in emits:
    call = [c for c in g.calls(e) if T.event_origin(c.func, fn.module, fn) == EV][0]
    if len(call.args) == 2 and isinstance(call.args[0], ast.Name) and isinstance(call.args[1], ast.Tuple) and \
       len(call.args[1].elts) == 2:
      # the datapoint is rebuilt in the call itself: judge its two components directly
      a_m = call.args[0]
      t0, v1 = call.args[1].elts
      if reaching_defs(g, a_m.id, e) == [g.entry] and a_m.id == mvar:
        r_n.ok('metric name passed on unchanged', fn.loc(call))
      else:
        r_n.violate('metric name altered', fn, call, 'the metric name dispatched is not the unmodified `%s` parameter' % mvar)
      if unparse(v1).replace(' ', '') == '%s[1]' % dvar and reaching_defs(g, dvar, e) == [g.entry] or _derives_component(g, e, v1, dvar, 1):
        r_n.ok('value component passed on unchanged', fn.loc(call))
      else:
        r_n.violate('value altered', fn, call, 'the value component dispatched is `%s`, not the received value' % unparse(v1))
      if isinstance(t0, ast.Name):
        for d in reaching_defs(g, t0.id, e):
          v = value_assigned(d, t0.id) if d is not g.entry else None
          vt = unparse(v).replace(' ', '') if isinstance(v, ast.AST) else str(v)
          if isinstance(v, ast.AST) and (vt == '%s[0]' % dvar or _derives_component(g, d, v, dvar, 0)):
            continue
          if isinstance(v, ast.AST) and any(isinstance(x, ast.BinOp) and isinstance(x.op, ast.FloorDiv) for x in ast.walk(v)):
            res_true = lambda a, lab, b: isinstance(lab, tuple) and lab[0] == 'T' and _is_resolution(g, a, lab[1])   # noqa
            if d not in g.reach([g.entry], removed_edge=res_true, normal_only=True):
              continue
          if isinstance(v, ast.AST) and 'time' in vt and 'time(' in vt:
            m1 = lambda a, lab, b: isinstance(lab, tuple) and lab[0] == 'T' and isinstance(lab[1], ast.Compare) and \
              isinstance(lab[1].ops[0], ast.Eq) and unparse(lab[1].comparators[0]).replace(' ', '') == '-1'   # noqa
            if d not in g.reach([g.entry], removed_edge=m1, normal_only=True) and vt in ('time.time()', 'time()', 'int(time.time())', 'int(time())'):
              continue
          r_n.violate('timestamp altered', fn, d.ast if d is not g.entry else call, 'the timestamp dispatched can be `%s`: an admitted '
                      'datapoint whose timestamp is neither -1 nor subject to MIN_TIMESTAMP_RESOLUTION must keep the timestamp it was '
                      'sent with (e.g. int() drops the fractional part)' % vt)
      elif unparse(t0).replace(' ', '') != '%s[0]' % dvar:
        r_n.violate('timestamp altered', fn, call, 'the timestamp dispatched is `%s`' % unparse(t0))
      continue
    if len(call.args) != 2 or not all(isinstance(a, ast.Name) for a in call.args):
      r_n.cannot_decide('dispatch call is not events.metricReceived(<name>, <name>)')
      continue
    a_m, a_d = call.args
    if reaching_defs(g, a_m.id, e) == [g.entry] and a_m.id == mvar:
      r_n.ok('metric name passed on unchanged', fn.loc(call))
    else:
      r_n.violate('metric name altered', fn, call, 'the metric name dispatched is not the unmodified `%s` parameter' % mvar)
    defs = [d for d in reaching_defs(g, a_d.id, e)]
    if a_d.id != dvar:
      r_n.cannot_decide('dispatched datapoint is not the `%s` variable' % dvar)
      continue
    all_defs = [d for d in g.nodes if d.kind == 'stmt' and isinstance(d.ast, ast.Assign) and
                any(isinstance(t, ast.Name) and t.id == dvar for t in d.ast.targets)]
    now_defs, floor_defs = [], []
    for d in all_defs:
      v = d.ast.value
      if not (isinstance(v, ast.Tuple) and len(v.elts) == 2):
        r_n.violate('datapoint rebuilt', fn, d.ast, 'the datapoint is replaced by `%s`, not by (new timestamp, same value)' % short(v))
        continue
      if unparse(v.elts[1]).replace(' ', '') != '%s[1]' % dvar and not _derives_component(g, d, v.elts[1], dvar, 1):
        r_n.violate('value altered', fn, d.ast, 'the value component of an admitted datapoint is replaced by `%s`' % unparse(v.elts[1]))
        continue
      t0 = v.elts[0]
      if isinstance(t0, ast.Call) and (dotted(t0.func) or '') in ('time.time', 'time'):
        now_defs.append(d)
      elif any(isinstance(x, ast.BinOp) and isinstance(x.op, ast.FloorDiv) for x in ast.walk(t0)) or \
          (isinstance(t0, ast.Name) and any(isinstance(x, ast.BinOp) and isinstance(x.op, ast.FloorDiv)
                                            for rd in reaching_defs(g, t0.id, d) if rd is not g.entry
                                            for x in ast.walk(rd.ast))):
        floor_defs.append(d)
      else:
        r_n.violate('timestamp altered', fn, d.ast, 'the timestamp of an admitted datapoint is replaced by `%s`, which is neither '
                    'the current time nor a floor to the resolution' % unparse(t0))
    # (a) the "-1" guard
    for d in now_defs:
      def minus1(a, lab, b):
        if not (isinstance(lab, tuple) and lab[0] == 'T'):
          return False
        t = lab[1]
        return isinstance(t, ast.Compare) and len(t.ops) == 1 and isinstance(t.ops[0], ast.Eq) and \
          unparse(t.comparators[0]).replace(' ', '') == '-1'
      if d in g.reach([g.entry], removed_edge=minus1, normal_only=True):
        r_n.violate('timestamp replaced without the -1 test', fn, d.ast, 'the timestamp is replaced by the current time on a path '
                    'that did not find it equal to -1')
      else:
        r_n.ok('"now" substituted only under `== -1`', fn.loc(d.ast))
      # the tested operand must be the raw timestamp (not a floored one)
      for (a, lab, b) in g.test_edges(lambda pol, t, n: pol == 'T' and isinstance(t, ast.Compare) and len(t.ops) == 1 and
                                      isinstance(t.ops[0], ast.Eq) and unparse(t.comparators[0]).replace(' ', '') == '-1'):
        left = lab[1].left
        if not _raw_timestamp(g, a, left, dvar):
          r_n.violate('-1 tested after flooring', fn, lab[1], 'the `== -1` test is applied to `%s`, which is not (only) the raw '
                      'timestamp of the datapoint: once floored to MIN_TIMESTAMP_RESOLUTION, -1 is no longer recognised'
                      % unparse(left))
        else:
          r_n.ok('-1 tested on the raw timestamp', fn.loc(lab[1]))
      # the floor applies to the substituted time as well
      res_false = lambda a, lab, b: isinstance(lab, tuple) and lab[0] == 'F' and _is_resolution(g, a, lab[1])   # noqa
      rr2 = g.reach(g.after(d), removed_nodes=set(floor_defs), removed_edge=res_false, normal_only=True)
      if any(e2 in rr2 for e2 in emits):
        r_n.violate('substituted time not floored', fn, d.ast, 'after the timestamp was replaced by the current time the datapoint '
                    'can be dispatched without the MIN_TIMESTAMP_RESOLUTION floor having been applied (or found disabled)')
      else:
        r_n.ok('the floor is applied after the "now" substitution', fn.loc(d.ast))
    if not now_defs:
      r_n.violate('-1 not replaced', fn, None, 'no statement replaces a timestamp of -1 by the current time',
                  construct='datapoint = (time.time(), datapoint[1])')
    # (b) the floor guard
    for d in floor_defs:
      res_true = lambda a, lab, b: isinstance(lab, tuple) and lab[0] == 'T' and _is_resolution(g, a, lab[1])   # noqa
      if d in g.reach([g.entry], removed_edge=res_true, normal_only=True):
        r_n.violate('floor without resolution', fn, d.ast, 'the timestamp is floored on a path where MIN_TIMESTAMP_RESOLUTION was '
                    'not found set')
      else:
        txt = unparse(d.ast.value.elts[0]).replace(' ', '')
        r_n.ok('floor only when MIN_TIMESTAMP_RESOLUTION is set: %s' % txt, fn.loc(d.ast))
    if not floor_defs:
      r_n.violate('resolution floor missing', fn, None, 'no statement floors the timestamp to MIN_TIMESTAMP_RESOLUTION',
                  construct='timestamp // res * res')



def _derives_component(g, node, expr, dvar, idx):
  """expr is a Name whose only reaching definition is component idx of the datapoint parameter."""
  if not isinstance(expr, ast.Name):
    return False
  rds = reaching_defs(g, expr.id, node)
  if len(rds) != 1 or rds[0] is g.entry:
    return False
  v = value_assigned(rds[0], expr.id)
  if isinstance(v, tuple) and v[0] == 'unpack' and isinstance(v[1], ast.Name) and v[1].id == dvar and v[2] == (idx,):
    return True
  if isinstance(v, ast.AST) and unparse(v).replace(' ', '') == '%s[%d]' % (dvar, idx):
    return True
  return False


def _raw_timestamp(g, node, expr, dvar):
  """expr is int(datapoint[0]) of the parameter, or a Name all of whose reaching definitions are that."""
  txt = unparse(expr).replace(' ', '')
  if txt in ('int(%s[0])' % dvar, '%s[0]' % dvar):
    return reaching_defs(g, dvar, node) == [g.entry]
  if isinstance(expr, ast.Name):
    rds = reaching_defs(g, expr.id, node)
    if not rds:
      return False
    for d in rds:
      if d is g.entry:
        return False
      v = value_assigned(d, expr.id)
      if not (isinstance(v, ast.AST) and unparse(v).replace(' ', '') in ('int(%s[0])' % dvar, '%s[0]' % dvar)):
        return False
      if reaching_defs(g, dvar, d) != [g.entry]:
        return False
    return True
  return False


def _is_resolution(g, node, t):
  if 'MIN_TIMESTAMP_RESOLUTION' in unparse(t):
    return True
  if isinstance(t, ast.Name):
    for d in reaching_defs(g, t.id, node):
      if d is g.entry:
        return False
      v = value_assigned(d, t.id)
      if not (isinstance(v, ast.AST) and 'MIN_TIMESTAMP_RESOLUTION' in unparse(v)):
        return False
    return True
  return False
