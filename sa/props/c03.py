"""C03 - The writer persists each drained datapoint exactly once or accounts for it.

Decided (structural): a typestate over the drained batch in
carbon.writer.writeCachedDataPoints, on every CFG path including the exception
edge out of every call (DESIGN 3/C03).  Not decided: that the backend really
persisted; value-level content of the batch.
"""
import ast

from ..model import dotted, unparse, norm, walk_no_nested
from ..rulelib import (Ctx, nodes_calling, is_increment_of, reaching_defs, value_assigned,
                       names_loaded, short)

DB_CLASSES = {'TimeSeriesDatabase'}
PURE_RESHAPE_FUNCS = {'dict', 'list', 'sorted', 'tuple', 'OrderedDict'}
PURE_RESHAPE_METHODS = {'items', 'copy'}


def is_none_edge(lab, var):
  """test edge on which the drained metric is known to be None (no batch held)."""
  if not isinstance(lab, tuple):
    return False
  pol, t = lab
  if isinstance(t, ast.Compare) and len(t.ops) == 1 and isinstance(t.left, ast.Name) and t.left.id == var \
     and isinstance(t.comparators[0], ast.Constant) and t.comparators[0].value is None:
    if isinstance(t.ops[0], (ast.Is, ast.Eq)):
      return pol == 'T'
    if isinstance(t.ops[0], (ast.IsNot, ast.NotEq)):
      return pol == 'F'
  # NOT `if not metric`: the empty string is a metric name the listeners accept, and it is falsy as well
  return False


def reshape_of(expr, var):
  """'ok' if expr is var under order/shape-preserving pure reshaping only,
  'drops' if it can lose items, 'unknown' otherwise."""
  if isinstance(expr, ast.Name):
    return 'ok' if expr.id == var else 'unknown'
  if isinstance(expr, ast.Call):
    f = expr.func
    if isinstance(f, ast.Name) and f.id in PURE_RESHAPE_FUNCS and expr.args:
      return reshape_of(expr.args[0], var)
    if isinstance(f, ast.Attribute) and f.attr in PURE_RESHAPE_METHODS and not expr.args:
      return reshape_of(f.value, var)
    if isinstance(f, ast.Name) and f.id in ('filter', 'set', 'frozenset', 'iter', 'next', 'min', 'max'):
      return 'drops'
    return 'unknown'
  if isinstance(expr, ast.Subscript):
    return 'drops'
  if isinstance(expr, (ast.ListComp, ast.GeneratorExp, ast.DictComp, ast.SetComp)):
    if any(g.ifs for g in expr.generators):
      return 'drops'
    return 'unknown'
  return 'unknown'


def run(check):
  cx = Ctx(check)
  repo = check.repo
  check.explanation = (
    'Typestate of the drained batch over the CFG (with an exception edge out of every call) of '
    'carbon.writer.writeCachedDataPoints: exactly one of written / dropped-counted / error-reported on '
    'every path; own metric; exists-first; accounting; every caller wraps the call. Decides these '
    'structural clauses, not that the backend persisted the data.')
  check.not_decided = ['that the storage backend really persisted what write() was given',
                       'that dict(datapoints) keeps every distinct timestamp (value level)']
  check.trusted_base = ['CPython exception semantics', 'carbon.database backends (external whisper/ceres)']
  fn = cx.fn('carbon.writer', 'writeCachedDataPoints')
  g = cx.cfg(fn)

  def is_db(call, m):
    return cx.calls_method(call, fn, DB_CLASSES, m)

  drains = nodes_calling(g, lambda c: cx.calls_method(c, fn, {'_MetricCache'}, 'drain_metric'))
  writes = nodes_calling(g, lambda c: is_db(c, 'write'))
  creates = nodes_calling(g, lambda c: is_db(c, 'create'))
  dropped = nodes_calling(g, lambda c: is_increment_of(c, 'droppedCreates'))
  errors = nodes_calling(g, lambda c: is_increment_of(c, 'errors'))
  committed = nodes_calling(g, lambda c: is_increment_of(c, 'committedPoints'))

  r_ts = check.rule('R-C03-typestate', 3,
                    'every path from the drain reaches exactly one terminal state (written / dropped-counted / '
                    'error-reported / none)')
  if not r_ts.require(len(drains) == 1, 'expected exactly one drain_metric() site in writeCachedDataPoints, found %d'
                      % len(drains)):
    return
  if not r_ts.require(len(writes) >= 1, 'no database.write() site found in writeCachedDataPoints'):
    return
  d = drains[0]
  # variables bound by the drain
  dm = d.ast
  mvar = dvar = None
  if isinstance(dm, ast.Assign) and isinstance(dm.targets[0], (ast.Tuple, ast.List)) and len(dm.targets[0].elts) == 2 \
     and all(isinstance(e, ast.Name) for e in dm.targets[0].elts):
    mvar, dvar = dm.targets[0].elts[0].id, dm.targets[0].elts[1].id
  if not r_ts.require(mvar is not None, 'drain result is not unpacked into (metric, datapoints): %s' % norm(dm)):
    return

  def is_dm(name, at, depth=0):
    """`name`, as seen at CFG node `at`, holds the metric bound by the drain (directly, or through plain copies
    `x = m` / `x, y = (m, d)` left by spliced helpers)"""
    rds = reaching_defs(g, name, at)
    if rds == [d]:
      return name == mvar
    if len(rds) != 1 or rds[0] is g.entry or depth > 3:
      return False
    v = value_assigned(rds[0], name)
    if isinstance(v, ast.Name):
      return is_dm(v.id, rds[0], depth + 1)
    if isinstance(v, tuple) and v[0] == 'unpack' and isinstance(v[1], (ast.Tuple, ast.List)) and v[2] and len(v[2]) == 1 and \
       v[2][0] < len(v[1].elts) and isinstance(v[1].elts[v[2][0]], ast.Name):
      return is_dm(v[1].elts[v[2][0]].id, rds[0], depth + 1)
    return False

  after_drain = g.after(d, normal_only=True)
  errors_after = [e for e in errors if e in g.reach(after_drain, removed_nodes={d})]
  terminals = set(writes) | set(dropped) | set(errors_after)
  none_edge = lambda a, lab, b: is_none_edge(lab, mvar)   # noqa: E731

  # (a) zero-terminal paths (normal completion of the loop body / function without any terminal)
  r = g.reach(after_drain, removed_nodes=terminals, removed_edge=none_edge)
  zero_bad = [n for n in (d, g.exit) if n in r]
  if zero_bad:
    for tgt in zero_bad:
      p = g.path(after_drain, tgt, removed_nodes=terminals, removed_edge=none_edge)
      last = [x for x in (p or []) if x.ast is not None]
      r_ts.violate('batch dropped silently', fn, last[-1].ast if last else d.ast,
                   'a drained batch can reach %s without being written, counted as a dropped create or reported '
                   'as an error' % ('the next drain' if tgt is d else 'the function exit'),
                   path=g.describe_path(p))
  else:
    r_ts.ok('no zero-terminal path', fn.loc(d.ast), 'drain at %s; terminals: %d write, %d droppedCreates, %d errors'
            % (fn.loc(d.ast), len(writes), len(dropped), len(errors_after)))
  # exception edge of each write must lead to error-reporting, not to silence
  for w in writes:
    exc_succ = [y for y, lab in w.succ if lab == 'exc']
    bad = []
    for y in exc_succ:
      if y is g.raise_exit:
        continue     # leaves the function: covered by R-C03-wrapper
      rr = g.reach([y], removed_nodes=set(errors_after) | set(dropped))
      if d in rr or g.exit in rr:
        bad.append(y)
    if bad:
      r_ts.violate('write failure unaccounted', fn, w.ast,
                   'an exception raised by database.write() can reach the next drain / the exit without the errors '
                   'counter being incremented (handler at line %d)' % bad[0].lineno)
    else:
      r_ts.ok('write failure -> error-reported', fn.loc(w.ast))
  # (b) double terminal
  dbl = []
  for t in list(writes) + list(dropped):
    rr = g.reach(g.after(t, normal_only=True), removed_nodes={d})
    for u in list(writes) + list(dropped):
      if u in rr:
        dbl.append((t, u))
  if dbl:
    t, u = dbl[0]
    r_ts.violate('batch handled twice', fn, u.ast,
                 'after `%s` (line %d) the same batch can reach `%s` again without an intervening drain'
                 % (short(t.ast), t.lineno, short(u.ast)))
  else:
    r_ts.ok('no double-terminal path', fn.loc(d.ast))

  # ------------------------------------------------------------------ own metric
  r_own = check.rule('R-C03-own-metric', 2, 'write() is given the drained metric and exactly the drained datapoints')
  for w in writes:
    call = [c for c in g.calls(w) if is_db(c, 'write')][0]
    if len(call.args) < 2:
      r_own.cannot_decide('write() call with fewer than two positional arguments: %s' % norm(call))
      continue
    a0, a1 = call.args[0], call.args[1]
    if isinstance(a0, ast.Name):
      rd = reaching_defs(g, a0.id, w)
      if is_dm(a0.id, w):
        r_own.ok('metric argument = drained metric', fn.loc(call))
      else:
        r_own.violate('metric argument', fn, call,
                      'the metric passed to database.write() is `%s`, whose reaching definitions are at lines %s, '
                      'not (only) the drain at line %d' % (a0.id, sorted(x.lineno for x in rd), d.lineno))
    else:
      r_own.violate('metric argument', fn, call, 'the metric passed to database.write() is the expression `%s`, '
                    'not the drained metric' % unparse(a0))
    # datapoints argument: chase pure reshaping back to the drain
    verdict, why = _chase(g, a1, w, d, dvar, depth=0)
    if verdict == 'ok':
      r_own.ok('datapoints argument derives only from the drained batch', fn.loc(call), why)
    elif verdict == 'drops':
      r_own.violate('datapoints argument', fn, call,
                    'the datapoints passed to database.write() can lose part of the drained batch: %s' % why)
    else:
      r_own.cannot_decide('unrecognised reshaping of the drained datapoints before write(): %s' % why)

  # ------------------------------------------------------------------ exists-first
  r_ex = check.rule('R-C03-exists-first', 1, 'write() only after exists(metric) answered True for the same metric')

  def exists_true(a, lab, b):
    if not (isinstance(lab, tuple) and lab[0] == 'T'):
      return False
    t = lab[1]
    if not (isinstance(t, ast.Call) and is_db(t, 'exists') and t.args and isinstance(t.args[0], ast.Name)):
      return False
    return is_dm(t.args[0].id, a)
  for w in writes:
    rr = g.reach(after_drain, removed_nodes={d}, removed_edge=exists_true)
    if w in rr:
      p = g.path(after_drain, w, removed_nodes={d}, removed_edge=exists_true)
      r_ex.violate('write without exists', fn, w.ast,
                   'database.write() is reachable from the drain without database.exists(%s) having returned True'
                   % mvar, path=g.describe_path(p))
    else:
      r_ex.ok('write dominated by exists(%s) True' % mvar, fn.loc(w.ast))

  # ------------------------------------------------------------------ accounting
  r_acc = check.rule('R-C03-accounting', 4, 'failed write/create -> errors; missing file -> droppedCreates; '
                     'success -> committedPoints')
  for kind, sites in (('write', writes), ('create', creates)):
    for s in sites:
      exc_succ = [y for y, lab in s.succ if lab == 'exc']
      if any(y is g.raise_exit for y in exc_succ) or not exc_succ:
        r_acc.violate('%s not guarded' % kind, fn, s.ast,
                      'an exception from database.%s() is not caught by a catch-all handler that counts it' % kind)
        continue
      ok = True
      for y in exc_succ:
        stop = {d, g.exit} | set(n for n in g.nodes if n.kind == 'loop')
        rr = g.reach([y], removed_nodes=set(errors), normal_only=True)
        if any(x in rr for x in stop if x is not y):
          ok = False
      if ok:
        r_acc.ok('%s failure increments errors' % kind, fn.loc(s.ast))
      else:
        r_acc.violate('%s failure uncounted' % kind, fn, s.ast,
                      'the handler of database.%s() can continue without incrementing the errors counter' % kind)

  def exists_false(pol, t, n):
    return pol == 'F' and isinstance(t, ast.Call) and is_db(t, 'exists') and t.args and \
      isinstance(t.args[0], ast.Name) and is_dm(t.args[0].id, n)
  fedges = g.test_edges(exists_false)
  if not fedges:
    r_acc.cannot_decide('no exists(%s)-False edge after the drain' % mvar)
  for (a, lab, b) in fedges:
    rr = g.reach([b], removed_nodes=set(dropped), normal_only=True)
    if d in rr or g.exit in rr or any(w in rr for w in writes):
      r_acc.violate('missing file uncounted', fn, a.ast,
                    'when exists(%s) is False the batch can be abandoned without incrementing droppedCreates' % mvar)
    else:
      r_acc.ok('not-exists branch increments droppedCreates', fn.loc(a.ast))
  for dn in [x for x in dropped if x in g.reach(after_drain, removed_nodes={d})]:
    def not_exists(a, lab, b):
      return isinstance(lab, tuple) and lab[0] == 'F' and isinstance(lab[1], ast.Call) and is_db(lab[1], 'exists') and lab[1].args and \
        isinstance(lab[1].args[0], ast.Name) and is_dm(lab[1].args[0].id, a)
    if dn in g.reach(after_drain, removed_nodes={d}, removed_edge=not_exists, normal_only=True):
      p_ = g.path(after_drain, dn, removed_nodes={d}, removed_edge=not_exists, normal_only=True)
      tests = [x for x in (p_ or []) if x.kind == 'test']
      r_acc.violate('batch dropped although its file may exist', fn, tests[-1].ast if tests else dn.ast,
                    'a drained batch can be counted as a dropped create (and discarded) without database.exists(%s) having answered '
                    'False: data for a metric whose file exists is never written' % mvar, path=g.describe_path(p_))
    else:
      r_acc.ok('droppedCreates only after exists(%s) answered False' % mvar, fn.loc(dn.ast))
  for w in writes:
    rr = g.reach(g.after(w, normal_only=True), removed_nodes=set(committed), normal_only=True)
    if d in rr or g.exit in rr:
      r_acc.violate('success uncounted', fn, w.ast, 'a successful write can complete without committedPoints '
                    'being incremented')
    else:
      r_acc.ok('success increments committedPoints', fn.loc(w.ast))

  # ------------------------------------------------------------------ wrapper
  r_wr = check.rule('R-C03-wrapper', 1, 'every caller catches and logs what escapes writeCachedDataPoints')
  for f in repo.all_functions():
    for c in [n for n in walk_no_nested(f.node, include_self=False) if isinstance(n, ast.Call)]:
      if not cx.calls_function(c, f, 'carbon.writer', 'writeCachedDataPoints'):
        continue
      ok = False
      node = c
      while node is not None and node is not f.node:
        par = getattr(node, '_parent', None)
        if isinstance(par, ast.Try) and any(node is s or _contains(s, node) for s in par.body):
          for h in par.handlers:
            ts = [None] if h.type is None else (
              [unparse(e) for e in h.type.elts] if isinstance(h.type, ast.Tuple) else [unparse(h.type)])
            if any(t is None or t in ('Exception', 'BaseException') for t in ts):
              logs = _always_logs(h.body)     # on every path through the handler, not only under a rate limit / a flag
              reraises = any(isinstance(x, ast.Raise) for s in h.body for x in ast.walk(s))
              if logs and not reraises:
                ok = True
        node = par
      if ok:
        r_wr.ok('call wrapped in try/except Exception + log', f.loc(c), f.key)
      else:
        r_wr.violate('unwrapped call', f, c, 'writeCachedDataPoints() is called outside a try whose catch-all '
                     'handler logs the error: an exception while a batch is held would kill the writer thread '
                     'unreported')


  # ------------------------------------------------------------------ interleaving with incoming stores (cache side)
  from ..cachemodel import CacheModel
  from .c02 import rule_lockset, rule_escape
  cmx = CacheModel(cx)
  r_il = check.rule('R-C03-store-interleaving', 10, 'a store() racing the drain either lands in the cache or in the drained batch: '
                    'every cache access of store/drain holds the lock and no per-metric dict is used across critical sections')
  rule_lockset(check, cmx, r_il)
  rule_escape(check, cmx, r_il)
  rule_counters_live(check, cx, check.rule('R-C03-counters-live', 3, 'instrumentation.increment / max / append update the stats table on every path (no early return)'))


def _contains(stmt, node):
  return any(x is node for x in ast.walk(stmt))


def _chase(g, expr, use_node, drain_node, dvar, depth):
  """Follow ``expr`` back to the drained datapoints through pure reshaping."""
  if depth > 4:
    return 'unknown', 'reshaping chain too deep'
  names = [n for n in ast.walk(expr) if isinstance(n, ast.Name) and isinstance(n.ctx, ast.Load)]
  data_names = [n.id for n in names if n.id not in ('dict', 'list', 'sorted', 'tuple', 'len')]
  if len(set(data_names)) != 1:
    return 'unknown', 'expression `%s` mixes several values' % unparse(expr)
  var = data_names[0]
  shape = reshape_of(expr, var)
  if shape == 'drops':
    return 'drops', '`%s`' % unparse(expr)
  if shape == 'unknown':
    return 'unknown', '`%s`' % unparse(expr)
  rds = reaching_defs(g, var, use_node)
  if rds == [drain_node] and var == dvar:
    return 'ok', '`%s` <- drain' % unparse(expr)
  out = []
  for rd in rds:
    if rd is drain_node:
      continue
    if rd is g.entry:
      return 'unknown', '`%s` may be undefined' % var
    v = value_assigned(rd, var)
    if isinstance(v, tuple) and v[0] == 'unpack' and isinstance(v[1], (ast.Tuple, ast.List)) and v[2] and len(v[2]) == 1 and \
       v[2][0] < len(v[1].elts):
      v = v[1].elts[v[2][0]]           # x, y = (a, b): a plain copy of one component
    if v is None or isinstance(v, tuple):
      return 'unknown', 'definition of `%s` at line %d' % (var, rd.lineno)
    verdict, why = _chase(g, v, rd, drain_node, dvar, depth + 1)
    if verdict != 'ok':
      return verdict, why
    out.append(why)
  return 'ok', '`%s` <- %s' % (unparse(expr), '; '.join(out) or 'drain')


def _always_logs(stmts):
  """every path through the statement list makes a log.<x>() call (the report of what escaped the pass must not depend
  on a condition: a suppressed report is the only account of a batch lost at the exists() gate)."""
  for s in stmts:
    if isinstance(s, ast.Expr) and isinstance(s.value, ast.Call) and (dotted(s.value.func) or '').startswith('log.'):
      return True
    if isinstance(s, ast.If) and s.orelse and _always_logs(s.body) and _always_logs(s.orelse):
      return True
    if isinstance(s, ast.With) and _always_logs(s.body):
      return True
    if isinstance(s, ast.Try) and (_always_logs(s.finalbody) or (_always_logs(s.body) and not s.handlers)):
      return True
    if isinstance(s, (ast.Return, ast.Raise, ast.Break, ast.Continue)):
      return False
  return False


def rule_counters_live(check, cx, rule):
  """carbon.instrumentation.increment / max / append reach their table on every path: a counter call that can return
  early (instrumentation 'disabled', a sampling fast path) makes the writer's and the relay's only account of a dropped
  batch disappear."""
  for name in ('increment', 'max', 'append'):
    fn = cx.fn('carbon.instrumentation', name)
    if not rule.require(fn is not None, 'carbon.instrumentation.%s not found' % name):
      continue
    g = cx.cfg(fn)
    touches = [n for n in g.nodes if n.ast is not None and any(
      isinstance(x, ast.Name) and x.id == 'stats'
      for x in (walk_no_nested(n.ast) if not isinstance(n.ast, (ast.If, ast.While, ast.For, ast.Try, ast.With)) else
                ast.walk(getattr(n.ast, 'test', None) or getattr(n.ast, 'iter', None) or ast.Pass())))]
    if not rule.require(bool(touches), 'no access to the `stats` table found in instrumentation.%s' % name):
      continue
    if g.exit in g.reach([g.entry], removed_nodes=touches, normal_only=True):
      p = g.path([g.entry], g.exit, removed_nodes=touches, normal_only=True)
      last = [x for x in (p or []) if x.ast is not None]
      rule.violate('counter call can return without counting', fn, last[-1].ast if last else fn.node,
                   'instrumentation.%s() can return without touching the `stats` table: events counted through it '
                   '(droppedCreates, errors, fullQueueDrops ...) are lost on that path' % name, path=g.describe_path(p))
    else:
      rule.ok('every path reaches the stats table', fn.loc(fn.node), name)
