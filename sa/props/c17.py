"""C17 - Every write strategy drains consistently, completely and without starvation.

Decided: drain = one critical section; no empty entry can exist; the three
generator strategies take a full snapshot per pass and drain it completely;
lag filter reads the oldest timestamp; strategy selection; bookkeeping written
under the cache lock.  Not decided: that max/bucketmax return *the* maximum for
every content (ordering of values), randomness, progress under continuous input.
"""
import ast

from ..model import dotted, unparse, norm, walk_no_nested, loop_exits, loop_of
from ..rulelib import Ctx, short, reaching_defs, value_assigned, nodes_calling
from ..cachemodel import CacheModel
from .c02 import rule_lockset

STRATEGY_NAMES = ('naive', 'max', 'sorted', 'timesorted', 'random', 'bucketmax')
FULL_SOURCES = ('keys', 'items', 'counts', 'watermarks')


def _strategy_classes(check):
  base = check.repo.cls('carbon.cache', 'DrainStrategy')
  return base, check.repo.subclasses(base)


def run(check):
  cx = Ctx(check)
  cm = CacheModel(cx)
  repo = check.repo
  check.explanation = (
    'Atomicity (choosing a metric, which mutates the strategy\'s bookkeeping, and removing it from the cache lie in '
    'one critical section; strategy bookkeeping is only touched under the cache lock), the invariant "no metric maps '
    'to an empty dict" (entries are created only as the container of an immediate item store), the shape of the three '
    'generator strategies (while True: full snapshot; while snapshot: yield pop - no break/return/slice), the tuple '
    'layout shared by watermarks and the lag filter, and the strategy selection table. Structural clauses only.')
  check.not_decided = ['that max/bucketmax return the metric with the current maximum for every cache content',
                       'randomness of the random strategy', 'progress under continuous input']
  check.trusted_base = ['threading.Lock', 'generator semantics of CPython']
  base, subs = _strategy_classes(check)
  for m in cm.methods.values():
    check.analysed(m)

  # ------------------------------------------------------------------ atomic drain
  r_at = check.rule('R-C17-atomic-drain', 2, 'choosing and removing the drained metric happen in one critical section')
  dm = cm.methods.get('drain_metric')
  if dm is None:
    r_at.cannot_decide('drain_metric not found')
  else:
    accs = cm.accesses['drain_metric']
    chooses = [a for a in accs if a.kind == 'strategy-call' and a.detail == 'choose_item']
    removals = [a for a in accs if (a.kind == 'self-call' and a.detail in cm.owned_helpers()) or
                (a.kind == 'struct-write' and 'pop' in a.detail)]
    removals += [a for a in accs if a.kind == 'self-call' and a.detail == 'pop']
    if not chooses or not removals:
      r_at.cannot_decide('drain_metric: choose_item call or removal not recognised (%d/%d)' % (len(chooses), len(removals)))
    for c in chooses:
      for rm in removals:
        if c.block is not None and c.block is rm.block:
          r_at.ok('choose_item and removal share one `with self.%s` block' % cm.lock_attr, dm.loc(c.node))
        else:
          r_at.violate('drain not atomic', dm, c.node, 'the strategy chooses the metric at line %d and the cache removes it '
                       'at line %d in different critical sections (or outside the lock): a store() of that metric in '
                       'between finds the strategy bookkeeping and the cache out of step (BucketMaxStrategy.store raises '
                       'ValueError; max/bucketmax hand out a non-maximal metric)' % (c.node.lineno, rm.node.lineno))
    # the fallback choice (no strategy) must be in the same section as well
    for a in accs:
      if a.kind == 'lookup' and a.detail in ('iter', 'next') and removals:
        if a.block is not None and a.block is removals[0].block:
          r_at.ok('strategy-less choice inside the same critical section', dm.loc(a.node))
        else:
          r_at.violate('drain not atomic', dm, a.node, 'the metric is picked with `%s` outside the critical section that '
                       'removes it' % short(a.node))
  # strategy bookkeeping is only reached under the lock
  r_lk = check.rule('R-C17-lockset', 10, 'cache mutations and strategy calls hold the cache lock (neither store nor drain can fail '
                    'because of an interleaving)')
  rule_lockset(check, cm, r_lk)
  for sc in [base] + subs:
    for mname in ('store', 'choose_item'):
      m = sc.methods.get(mname)
      if m is None:
        continue
      # call sites anywhere in the repo
      for f in repo.all_functions():
        if f.cls is cm.cls or f.cls is sc:
          continue
        for c in [n for n in walk_no_nested(f.node, include_self=False) if isinstance(n, ast.Call)]:
          if isinstance(c.func, ast.Attribute) and c.func.attr == mname:
            ts = check.types.expr_types(c.func.value, f.module, f)
            if any(t[0] == 'inst' and repo.is_subclass(t[1], base) for t in ts):
              r_lk.violate('strategy called from outside the cache', f, c, '%s.%s() mutates the strategy bookkeeping and '
                           'must run under the cache lock; `%s` calls it from %s' % (sc.name, mname, short(c), f.qualname))

  # ------------------------------------------------------------------ no empty entry
  r_ne = check.rule('R-C17-no-empty-entry', 2, 'a cache entry is only ever created by the item store that fills it')
  for name, accs in sorted(cm.accesses.items()):
    m = cm.methods[name]
    for a in accs:
      if a.kind == 'autoviv':
        r_ne.violate('auto-vivifying read', m, a.node, '`%s` indexes the defaultdict: for a metric that is not cached this '
                     'creates an empty entry, which a drain can then hand out as a metric without datapoints'
                     % short(a.node))
      elif a.kind == 'insert':
        r_ne.ok('entry created only as the container of `%s`' % short(a.node, 50), m.loc(a.node))
      elif a.kind == 'struct-write' and a.detail in ('setdefault', 'self[...] = ...', '__setitem__', 'update'):
        r_ne.violate('entry created empty', m, a.node, '`%s` can create a per-metric entry without a datapoint' % short(a.node))
  # strategy.store() may index the cache only because the insert precedes it in the same critical section
  st = cm.methods.get('store')
  if st is not None:
    g = cx.cfg(st)
    ins_nodes = set()
    for a in cm.accesses['store']:
      if a.kind in ('insert', 'alias-store') and isinstance(a.node, ast.Assign):
        ins_nodes.update(g.nodes_of(a.node))
    for a in cm.accesses['store']:
      if a.kind == 'strategy-call' and a.detail == 'store':
        nodes = g.node_containing(a.node)
        wn = [n for n in g.nodes if n.kind == 'with' and n.owner is a.block]
        if nodes and wn and nodes[0] not in g.reach([wn[0]], removed_nodes=ins_nodes, normal_only=True):
          r_ne.ok('strategy.store(metric) runs after the insert, inside the same critical section', st.loc(a.node))
        else:
          r_ne.violate('strategy.store before insert', st, a.node, 'strategy.store(metric) can run before the datapoint is '
                       'inserted: BucketMaxStrategy.store then indexes a missing entry (creating it empty)')

  # ------------------------------------------------------------------ generator pass shape
  r_ps = check.rule('R-C17-pass-shape', 3, 'naive/sorted/timesorted: full snapshot per pass, drained completely')
  gens = []
  for sc in subs:
    # the generator(s) a strategy class owns: a generator method, or a generator function nested in one of its methods
    for f in sc.module.all_functions():
      if f.cls is sc and not isinstance(f.node, ast.Lambda) and any(
          isinstance(x, ast.Yield) for x in walk_no_nested(f.node, include_self=False)):
        gens.append((sc, f))
  def never_instantiated(sc):
    """a base class with subclasses whose name is only used in base lists and inside its own body: a template"""
    if not repo.subclasses(sc):
      return False
    for m_ in repo.modules.values():
      own = {id(x) for x in ast.walk(sc.node)} if m_ is sc.module else set()
      bases = {id(y) for c_ in ast.walk(m_.tree) if isinstance(c_, ast.ClassDef) for b in c_.bases for y in ast.walk(b)}
      for x in ast.walk(m_.tree):
        if id(x) in own or id(x) in bases:
          continue
        if (isinstance(x, ast.Name) and x.id == sc.name and isinstance(x.ctx, ast.Load)) or \
           (isinstance(x, ast.Attribute) and x.attr == sc.name) or \
           (isinstance(x, ast.alias) and x.name == sc.name) or (isinstance(x, ast.Constant) and x.value == sc.name):
          return False
    return True
  def delegated_to(sc, gen):
    """the generator method is only a part of another generator of the class hierarchy (`yield from self.part()`): its
    statements are judged where they were spliced in"""
    for k in repo.mro(sc):
      if isinstance(k, tuple):
        continue
      for m_ in k.methods.values():
        if m_ is gen or isinstance(m_.node, ast.Lambda):
          continue
        if not any(isinstance(x, (ast.Yield, ast.YieldFrom)) for x in walk_no_nested(m_.node, include_self=False)):
          continue
        for c in walk_no_nested(m_.node, include_self=False):
          if isinstance(c, ast.Call) and isinstance(c.func, ast.Attribute) and c.func.attr == gen.name and dotted(c.func.value) == 'self':
            return True
    return False
  for sc, gen in gens:
    check.analysed(gen)
    if gen.cls is sc and gen.parent_fn is None and delegated_to(sc, gen):
      continue
    if never_instantiated(sc) and any(isinstance(c, ast.Call) and isinstance(c.func, ast.Attribute) and dotted(c.func.value) == 'self' and
                                     len({id(repo.find_method(k, c.func.attr)) for k in [sc] + list(repo.subclasses(sc))}) > 1
                                     for c in ast.walk(gen.node)):
      continue          # a template: judged in each subclass, where the hooks are resolved (sa/inline.py: _specialise)
    problems = _pass_shape(gen)
    ci = repo.find_method(sc, 'choose_item')
    uses_queue = ci is not None and any(isinstance(c, ast.Call) and dotted(c.func) == 'next' and c.args and
                                        (dotted(c.args[0]) or '').startswith('self.')
                                        for c in ast.walk(ci.node))
    if not uses_queue:
      problems.append(('choose_item does not advance the generator with next(self.<queue>)', ci.node if ci else gen.node))
    if problems:
      for msg, node in problems:
        r_ps.violate('%s pass shape' % sc.name, gen, node, '%s: %s' % (sc.name, msg))
    else:
      r_ps.ok('%s: while True / full snapshot / while snapshot: yield pop' % sc.name, gen.loc())

  # ------------------------------------------------------------------ lag layout
  r_lag = check.rule('R-C17-lag-layout', 2, 'the lag filter reads the oldest timestamp of the watermarks tuple')
  wm = cm.methods.get('watermarks')
  layout = None
  if wm is not None:
    for n in ast.walk(wm.node):
      if isinstance(n, ast.ListComp) and isinstance(n.elt, ast.Tuple):
        layout = []
        for e in n.elt.elts:
          if isinstance(e, ast.Call) and isinstance(e.func, ast.Name) and e.func.id in ('min', 'max'):
            layout.append(e.func.id)
          else:
            layout.append('name')
        # entries without datapoints must be skipped (min() of an empty sequence raises)
        if not any(g.ifs for g in n.generators):
          r_lag.violate('watermarks of empty entries', wm, n, 'watermarks computes min()/max() without skipping empty '
                        'entries')
  if layout is None:
    r_lag.cannot_decide('layout of _MetricCache.watermarks not recognised')
  else:
    r_lag.ok('watermarks layout = (%s)' % ', '.join(layout), wm.loc())
    found = False
    for sc, gen in gens:
      for n, cond, guarded in lag_conditions(gen):
        found = True
        ok = False
        why = unparse(cond)
        if isinstance(cond, ast.Compare) and len(cond.ops) == 1 and isinstance(cond.ops[0], (ast.Gt, ast.GtE)) and \
           isinstance(cond.left, ast.BinOp) and isinstance(cond.left.op, ast.Sub):
          sub = cond.left.right
          idx = None
          tgt = [g for g in n.generators if any(cond is x for i_ in g.ifs for x in ast.walk(i_))][0].target
          if isinstance(sub, ast.Subscript) and isinstance(sub.slice, ast.Constant) and isinstance(sub.slice.value, int) and \
             isinstance(sub.value, ast.Name) and isinstance(tgt, ast.Name) and sub.value.id == tgt.id:
            idx = sub.slice.value
          elif isinstance(sub, ast.Name) and isinstance(tgt, (ast.Tuple, ast.List)):
            pos = [i for i, e in enumerate(tgt.elts) if isinstance(e, ast.Name) and e.id == sub.id]
            idx = pos[0] if len(pos) == 1 and len(tgt.elts) == len(layout) else None
          if idx is not None and 0 <= idx < len(layout) and layout[idx] == 'min':
            # the minuend must be the current time
            ok = True
        if ok:
          r_lag.ok('%s: lag filter `%s` compares now - oldest timestamp' % (sc.name, why), gen.loc(n))
        else:
          r_lag.violate('lag filter', gen, cond, 'the MIN_TIMESTAMP_LAG filter `%s` does not compare (now - oldest '
                        'timestamp) > lag against the watermarks layout (%s)' % (why, ', '.join(layout)))
        # a lag of 0 (the value installed at shutdown) must switch the filter off entirely
        if not guarded:
          r_lag.violate('lag filter active at lag 0', gen, n, '%s filters its snapshot by MIN_TIMESTAMP_LAG without testing that the lag '
                        'is set: with the lag at 0 (as at shutdown) metrics whose oldest timestamp is not in the past are still never '
                        'handed out' % sc.name)
    if not found:
      r_lag.violate('lag filter missing', 'carbon.cache:TimeSortedStrategy', None, 'no strategy filters its snapshot by '
                    'MIN_TIMESTAMP_LAG', construct='MIN_TIMESTAMP_LAG filter')

  # ------------------------------------------------------------------ side tables (shared with C02)
  from .c02 import rule_side_tables
  r_st = check.rule('R-C17-side-tables', 1, rule_side_tables.__doc__)
  rule_side_tables(check, cm, r_st)

  # ------------------------------------------------------------------ selection
  r_sel = check.rule('R-C17-selection', 6, 'every strategy name selects its own DrainStrategy subclass')
  from ..paths import PathExec
  from ..symeval import show
  mc = cx.fn('carbon.cache', 'MetricCache')
  gmc = cx.cfg(mc)
  ctor = nodes_calling(gmc, lambda c: any(via == 'ctor' and callee.cls is cm.cls for callee, via in cx.callees(c, mc)[0]) or
                       (isinstance(c.func, ast.Name) and c.func.id == cm.cls.name))
  if not ctor:
    r_sel.cannot_decide('MetricCache() does not construct %s' % cm.cls.name)
  seen = {}
  SETTING = ('attr', ('param', 'settings'), 'CACHE_WRITE_STRATEGY')
  for name in STRATEGY_NAMES if ctor else ():
    px = PathExec(cx, mc, unroll=0, follow_exceptions=False, assume={SETTING: ('const', name)})
    chosen = set()
    for hit in px.run(ctor):
      call = [c for c in gmc.calls(hit.node) if (isinstance(c.func, ast.Name) and c.func.id == cm.cls.name) or
              any(via == 'ctor' for _, via in cx.callees(c, mc)[0])][0]
      chosen.add(hit.term(call.args[0], px) if call.args else ('const', None))
    names = {t[1] if isinstance(t, tuple) and t[0] == 'param' else None for t in chosen}
    cname = next(iter(names)) if len(names) == 1 else None
    cls = next((c for c in subs if c.name == cname), None)
    if cls is None:
      r_sel.violate('strategy %s' % name, mc, None, 'CACHE_WRITE_STRATEGY=%s does not select one DrainStrategy subclass '
                    '(got %s)' % (name, sorted(show(t) for t in chosen)), construct='strategy %s' % name)
      continue
    owner = None
    for k in repo.mro(cls):
      if not isinstance(k, tuple) and 'choose_item' in k.methods:
        owner = k
        break
    if cname in seen.values() or owner is None or owner is base:
      r_sel.violate('strategy %s' % name, mc, None, 'CACHE_WRITE_STRATEGY=%s selects %s, which is not its own strategy '
                    'class overriding choose_item' % (name, cname), construct='strategy %s' % name)
    else:
      seen[name] = cname
      r_sel.ok('%s -> %s' % (name, cname), mc.loc())
  # a name that is not a strategy falls back to the base class (documented default behaviour), never to another strategy
  if ctor:
    px = PathExec(cx, mc, unroll=0, follow_exceptions=False, assume={SETTING: ('const', '<no such strategy>')})
    other = {hit.term([c for c in gmc.calls(hit.node)][0].args[0], px) for hit in px.run(ctor) if [c for c in gmc.calls(hit.node)][0].args}
    if other and other != {('param', base.name)}:
      check.notes.append('an unknown CACHE_WRITE_STRATEGY selects %s' % sorted(show(t) for t in other))

  # ------------------------------------------------------------------ bookkeeping agreement (store vs choose_item)
  r_bk = check.rule('R-C17-bookkeeping', 1, 'state that choose_item uses to locate a metric is re-established by every store')
  for sc in subs:
    ci, so = sc.methods.get('choose_item'), sc.methods.get('store')
    if ci is None or so is None:
      continue
    def attrs(m, ctxs):
      return {n.attr for n in walk_no_nested(m.node, include_self=False) if isinstance(n, ast.Attribute) and
              isinstance(n.value, ast.Name) and n.value.id == 'self' and isinstance(n.ctx, ctxs)}
    rebound = attrs(ci, (ast.Store,)) | attrs(so, (ast.Store,))
    read_by_choose = attrs(ci, (ast.Load,))
    cursors = sorted(rebound & read_by_choose)
    if not cursors:
      r_bk.ok('%s.choose_item locates the metric through container state only (no cursor attribute)' % sc.name, ci.loc())
      continue
    gs = cx.cfg(so)
    grows = [n for n in gs.nodes if n.kind == 'stmt' and any(
      isinstance(c.func, ast.Attribute) and c.func.attr in ('append', 'insert', 'add', 'appendleft') and
      (dotted(c.func.value) or unparse(c.func.value)).startswith('self.') for c in gs.calls(n))]
    for a in cursors:
      sets = {n for n in gs.nodes if n.kind == 'stmt' and isinstance(n.ast, (ast.Assign, ast.AugAssign)) and any(
        dotted(t) == 'self.' + a for t in (n.ast.targets if isinstance(n.ast, ast.Assign) else [n.ast.target]))}
      bad = None
      for gnode in grows:
        before = gnode not in gs.reach([gs.entry], removed_nodes=sets, normal_only=True)
        after = gs.exit not in gs.reach(gs.after(gnode), removed_nodes=sets, normal_only=True)
        if not (before or after):
          bad = gnode
      if bad is not None:
        r_bk.violate('%s cursor self.%s' % (sc.name, a), so, bad.ast, '%s.choose_item relies on self.%s to find the metric to '
                     'drain, but store() can add a metric to the bookkeeping (`%s`) on a path that does not update self.%s: '
                     'metrics beyond the cursor are never drained' % (sc.name, a, short(bad.ast), a))
      else:
        r_bk.ok('%s: self.%s updated on every store path that adds a metric' % (sc.name, a), so.loc())

  # a metric is filed in one place only: when store() files it under its new count, the previous filing goes in the same call
  for sc in subs:
    ci, so = sc.methods.get('choose_item'), sc.methods.get('store')
    if ci is None or so is None or len(so.params) < 2:
      continue
    mp = so.params[1]
    files = [c for c in walk_no_nested(so.node, include_self=False) if isinstance(c, ast.Call) and isinstance(c.func, ast.Attribute) and
             c.func.attr in ('append', 'insert', 'add') and isinstance(c.func.value, ast.Subscript) and
             (dotted(c.func.value.value) or '').startswith('self.') and any(isinstance(a, ast.Name) and a.id == mp for a in c.args)]
    if not files:
      continue
    struct = dotted(files[0].func.value.value)
    unfiles = [c for c in walk_no_nested(so.node, include_self=False) if isinstance(c, ast.Call) and isinstance(c.func, ast.Attribute) and
               c.func.attr in ('remove', 'discard') and isinstance(c.func.value, ast.Subscript) and dotted(c.func.value.value) == struct and
               any(isinstance(a, ast.Name) and a.id == mp for a in c.args)]
    if unfiles:
      r_bk.ok('%s.store moves the metric: filed under the new count, removed from the previous one' % sc.name, so.loc(unfiles[0]))
    else:
      validated = any(isinstance(x, ast.Compare) and 'len(' in unparse(x) and 'self.cache[' in unparse(x) for x in ast.walk(ci.node))
      if validated:
        r_bk.cannot_decide('%s: store() leaves earlier filings of a metric in %s and choose_item() validates entries by their count: '
                           'lazy deletion is not decided by this rule' % (sc.name, struct))
      else:
        r_bk.violate('%s files a metric more than once' % sc.name, so, files[0], '%s.store files the metric in %s under its new count '
                     'without removing its previous filing: a left-over entry of a metric that was drained and stored again is taken for a '
                     'current one, and choose_item() hands out a metric that does not hold the maximum' % (sc.name, struct))
  rule_strategy_chooses(check, cx, check.rule('R-C17-strategy-chooses', 2, 'with a strategy configured, the drained metric is always the choice the strategy made in that call'))
  rule_no_outside_autoviv(check, cx, r_ne)


def _false_at_zero_lag(test, lag_names):
  """the test is false when MIN_TIMESTAMP_LAG is 0: truthiness of the lag, `lag > 0`, `lag != 0` (possibly one conjunct)"""
  def is_lag(e):
    return 'MIN_TIMESTAMP_LAG' in unparse(e) and isinstance(e, (ast.Attribute, ast.Subscript)) or \
      (isinstance(e, ast.Name) and e.id in lag_names)
  if isinstance(test, ast.BoolOp) and isinstance(test.op, ast.And):
    return any(_false_at_zero_lag(v, lag_names) for v in test.values)
  if is_lag(test):
    return True
  if isinstance(test, ast.Compare) and len(test.ops) == 1 and isinstance(test.comparators[0], ast.Constant) and \
     test.comparators[0].value == 0 and is_lag(test.left) and isinstance(test.ops[0], (ast.Gt, ast.NotEq)):
    return True
  if isinstance(test, ast.Compare) and len(test.ops) == 1 and isinstance(test.left, ast.Constant) and test.left.value == 0 and \
     is_lag(test.comparators[0]) and isinstance(test.ops[0], (ast.Lt, ast.NotEq)):
    return True
  return False


def _lag_names(root):
  """(local copies of settings.MIN_TIMESTAMP_LAG, locals computed from it) inside a function or loop"""
  copies, derived = set(), set()
  for _ in range(3):
    for st in ast.walk(root):
      if isinstance(st, ast.Assign):
        tg = {t.id for t in st.targets if isinstance(t, ast.Name)}
        if isinstance(st.value, (ast.Attribute, ast.Subscript)) and 'MIN_TIMESTAMP_LAG' in unparse(st.value):
          copies |= tg
        if 'MIN_TIMESTAMP_LAG' in unparse(st.value) or any(isinstance(x, ast.Name) and x.id in derived for x in ast.walk(st.value)):
          derived |= tg
  return copies, derived | copies


def lag_conditions(gen):
  """(comprehension, the comparison with the lag, guarded) for every comprehension of a generator that filters by
  MIN_TIMESTAMP_LAG (or a local copy of it).  guarded = the filter is off when the lag is 0: the comprehension is under
  `if <lag>:` or its condition is `not <lag> or <comparison>`."""
  out = []
  lag_names, derived = _lag_names(gen.node)

  def mentions_lag(e):
    return 'MIN_TIMESTAMP_LAG' in unparse(e) or any(isinstance(x, ast.Name) and x.id in derived for x in ast.walk(e))

  def zero_test(e):
    """true when the lag is 0"""
    if isinstance(e, ast.UnaryOp) and isinstance(e.op, ast.Not):
      return _false_at_zero_lag(e.operand, lag_names)
    if isinstance(e, ast.Compare) and len(e.ops) == 1 and isinstance(e.ops[0], (ast.Eq, ast.LtE)):
      l, r = e.left, e.comparators[0]
      return (isinstance(r, ast.Constant) and r.value == 0 and _false_at_zero_lag(l, lag_names)) or \
             (isinstance(l, ast.Constant) and l.value == 0 and isinstance(e.ops[0], ast.Eq) and _false_at_zero_lag(r, lag_names))
    return False
  for n in ast.walk(gen.node):
    if not isinstance(n, (ast.ListComp, ast.GeneratorExp)):
      continue
    for g_ in n.generators:
      for i in g_.ifs:
        if not mentions_lag(i):
          continue
        cond, guarded = i, False
        if isinstance(i, ast.BoolOp) and isinstance(i.op, ast.Or):
          rest = [v for v in i.values if not zero_test(v)]
          if len(rest) < len(i.values) and len(rest) == 1:
            cond, guarded = rest[0], True
        elif isinstance(i, ast.BoolOp) and isinstance(i.op, ast.And):
          rest = [v for v in i.values if not _false_at_zero_lag(v, lag_names)]
          if len(rest) == 1:
            cond = rest[0]          # `lag and now - low > lag` is false for every entry at lag 0: not a guard, the filter stays on
        p = getattr(n, '_parent', None)
        while p is not None and p is not gen.node:
          if isinstance(p, ast.If) and any(x is n for s_ in p.body for x in ast.walk(s_)) and _false_at_zero_lag(p.test, lag_names):
            guarded = True
          p = getattr(p, '_parent', None)
        out.append((n, cond, guarded))
  return out


def _pass_shape(gen):
  """problems with the shape of a strategy generator: an endless sequence of passes, each over a snapshot taken from ALL
  cache entries (only the lag filter may exclude some), every element of which is handed out exactly once -
  `while snapshot: yield snapshot.pop()` or `for x in [reversed](snapshot): yield <x or a projection of x>`."""
  probs = []
  body = [s for s in gen.node.body if not (isinstance(s, ast.Expr) and isinstance(s.value, ast.Constant))]
  if not (len(body) == 1 and isinstance(body[0], ast.While) and isinstance(body[0].test, ast.Constant) and body[0].test.value):
    probs.append(('the generator body is not a single `while True` loop', gen.node))
    return probs
  outer = body[0]
  for n in walk_no_nested(outer, include_self=False):
    if isinstance(n, (ast.Return, ast.Break)):      # a break of the drain loop abandons the rest of the snapshot too
      probs.append(('`%s` ends the pass (or the generator) early: metrics remaining in the snapshot are skipped / '
                    'StopIteration escapes choose_item' % type(n).__name__.lower(), n))

  def hands_out(y):
    return not (y.value is None or (isinstance(y.value, ast.Constant) and y.value.value is None))
  loops = [s for s in ast.walk(outer) if s is not outer and (
    (isinstance(s, ast.While) and isinstance(s.test, ast.Name)) or
    (isinstance(s, ast.For) and any(isinstance(y, ast.Yield) and hands_out(y) for y in ast.walk(s))))]
  loops = [l for l in loops if not any(l is not m and any(x is l for x in ast.walk(m)) for m in loops)]     # outermost ones
  if len(loops) != 1:
    probs.append(('expected exactly one drain loop (`while <snapshot>:` / `for x in <snapshot>:`), found %d' % len(loops), outer))
    return probs
  loop = loops[0]
  # copies of the lag setting (min_lag = settings.MIN_TIMESTAMP_LAG)
  lag_names = {'MIN_TIMESTAMP_LAG'} | _lag_names(outer)[1]

  def is_lag_test(e):
    return any((isinstance(x, ast.Name) and x.id in lag_names) or (isinstance(x, ast.Attribute) and x.attr in lag_names) or
               (isinstance(x, ast.Constant) and x.value in lag_names) for x in ast.walk(e))

  exprs = []          # (expression that produces the snapshot or a stage of it, statement for the report)
  if isinstance(loop, ast.While):
    snap = loop.test.id
  else:
    it = loop.iter
    while isinstance(it, ast.Call) and isinstance(it.func, ast.Name) and it.func.id in ('reversed', 'iter', 'list', 'tuple') and len(it.args) == 1:
      it = it.args[0]
    if isinstance(it, ast.Name):
      snap = it.id
    else:
      snap = None
      exprs.append((it, loop))
  # the chain of definitions (inside the outer loop) the snapshot is computed from
  chain, todo = set(), [snap] if snap else []
  for e, _ in exprs:
    todo.extend(x.id for x in ast.walk(e) if isinstance(x, ast.Name) and isinstance(x.ctx, ast.Load))
  assigned = {}
  for s_ in ast.walk(outer):
    if isinstance(s_, ast.Assign):
      for t in s_.targets:
        if isinstance(t, ast.Name):
          assigned.setdefault(t.id, []).append(s_)
  while todo:
    nm = todo.pop()
    if nm in chain or nm not in assigned:
      continue
    chain.add(nm)
    for d in assigned[nm]:
      # comprehension targets are not stages of the snapshot
      bound = {y.id for c in ast.walk(d.value) if isinstance(c, ast.comprehension) for y in ast.walk(c.target) if isinstance(y, ast.Name)}
      todo.extend(x.id for x in ast.walk(d.value) if isinstance(x, ast.Name) and isinstance(x.ctx, ast.Load) and x.id not in bound)
  if snap is not None and snap not in assigned:
    probs.append(('the snapshot `%s` is not rebuilt inside the `while True` loop' % snap, outer))
  src_seen = False
  for nm in sorted(chain):
    for d in assigned[nm]:
      if any(x is d for x in ast.walk(loop)):
        if nm == snap:
          probs.append(('the snapshot `%s` is reassigned inside its own drain loop' % snap, d))
        continue
      exprs.append((d.value, d))
  for v, d in exprs:
    for x in ast.walk(v):
      if isinstance(x, ast.Attribute) and x.attr in FULL_SOURCES and (dotted(x.value) or '').endswith('cache'):
        src_seen = True
      # iterating the cache itself is iterating its keys:  list(self.cache), sorted(self.cache), [m for m in self.cache]
      if isinstance(x, ast.Call) and isinstance(x.func, ast.Name) and x.func.id in ('list', 'sorted', 'tuple', 'iter') and x.args and \
         (dotted(x.args[0]) or '').endswith('cache'):
        src_seen = True
      if isinstance(x, ast.comprehension) and (dotted(x.iter) or '').endswith('cache'):
        src_seen = True
      if isinstance(x, ast.Subscript) and isinstance(x.slice, ast.Slice):
        probs.append(('the snapshot is sliced (`%s`): part of the cache is left out of the pass' % short(x, 40), d))
      if isinstance(x, (ast.ListComp, ast.GeneratorExp, ast.SetComp, ast.DictComp)):
        for g in x.generators:
          for i in g.ifs:
            if not is_lag_test(i):
              probs.append(('the snapshot is filtered by `%s` (only the lag filter may exclude metrics)' % short(i, 50), d))
      if isinstance(x, ast.Call) and isinstance(x.func, ast.Name) and x.func.id in ('filter', 'set', 'islice'):
        probs.append(('the snapshot goes through `%s(...)`' % x.func.id, d))
  if not src_seen:
    if snap in assigned:
      what, at = '`%s = %s`' % (snap, short(assigned[snap][0].value, 50)), assigned[snap][0]
    else:
      what, at = ('`%s`' % short(exprs[0][0], 50)) if exprs else '?', loop
    probs.append(('the snapshot %s is not taken from all cache entries' % what, at))
  ys = [y for y in ast.walk(loop) if isinstance(y, ast.Yield)]
  if not ys:
    probs.append(('the drain loop does not yield', loop))
  if isinstance(loop, ast.While):
    # yields something computed from snapshot.pop(); nothing else shrinks or ends it
    for y in ys:
      pops = [c for c in ast.walk(y) if isinstance(c, ast.Call) and isinstance(c.func, ast.Attribute) and
              c.func.attr in ('pop', 'popleft') and dotted(c.func.value) == snap]
      if not pops:
        # popped into a local first?
        stmts = [s_ for s_ in loop.body if isinstance(s_, ast.Assign) and any(
          isinstance(c, ast.Call) and isinstance(c.func, ast.Attribute) and c.func.attr in ('pop', 'popleft') and
          dotted(c.func.value) == snap for c in ast.walk(s_.value))]
        if not stmts:
          probs.append(('the drain loop yields `%s`, not an element popped from the snapshot' % short(y, 40), y))
  else:
    tnames = {x.id for x in ast.walk(loop.target) if isinstance(x, ast.Name)}
    derived = set(tnames)
    for s_ in loop.body:
      if isinstance(s_, ast.Assign) and any(isinstance(x, ast.Name) and x.id in derived for x in ast.walk(s_.value)):
        derived |= {t.id for t in s_.targets if isinstance(t, ast.Name)}
        derived |= {e.id for t in s_.targets if isinstance(t, (ast.Tuple, ast.List)) for e in t.elts if isinstance(e, ast.Name)}
    for y in ys:
      if not hands_out(y):
        continue
      if not any(isinstance(x, ast.Name) and x.id in derived for x in ast.walk(y.value)):
        probs.append(('the drain loop yields `%s`, not the element of the snapshot it is visiting' % short(y, 40), y))
      # the yield is reached on every iteration: directly in the loop body, or under the lag test only
      st = y
      while getattr(st, '_parent', None) is not None and st._parent is not loop:
        st = st._parent
        if isinstance(st, ast.If) and not is_lag_test(st.test):
          probs.append(('`%s` is handed out only when `%s`: other entries of the snapshot are skipped'
                        % (short(y, 30), short(st.test, 40)), st))
        elif isinstance(st, (ast.For, ast.While, ast.Try)) and st is not loop:
          probs.append(('the yield is nested in `%s` inside the drain loop' % type(st).__name__.lower(), st))
    for n in walk_no_nested(loop, include_self=False):
      if isinstance(n, ast.Continue):
        probs.append(('`continue` skips entries of the snapshot', n))
    nyield = len([y for y in ys if hands_out(y)])
    if nyield != 1:
      probs.append(('the drain loop has %d yields handing out metrics (expected one per element)' % nyield, loop))
  if snap is not None:
    shrink = ('clear', 'remove') + (('pop', 'popleft') if isinstance(loop, ast.For) else ())
    for c in ast.walk(loop):
      if isinstance(c, ast.Call) and isinstance(c.func, ast.Attribute) and dotted(c.func.value) == snap and c.func.attr in shrink:
        probs.append(('`%s` drops snapshot entries without yielding them' % short(c, 40), c))
  # yields outside the drain loop may only be the "nothing to do" signal
  for y in [y for y in walk_no_nested(outer, include_self=False) if isinstance(y, ast.Yield)]:
    if any(x is y for x in ast.walk(loop)):
      continue
    if hands_out(y):
      probs.append(('a yield outside the drain loop hands out `%s`' % short(y, 40), y))
  return probs


def rule_strategy_chooses(check, cx, rule):
  """whenever a strategy is configured, the metric drain_metric() removes is the one strategy.choose_item() handed out in that
  very call: every definition of the drained name is the strategy's answer, or sits on the branch where `self.strategy` tested
  false.  A shortcut that takes a metric from the cache behind the strategy's back ('only one metric cached') leaves the name
  in the running pass's snapshot / in a bucket; handed out later, _pop() raises KeyError and draining fails."""
  from ..rulelib import reaching_defs, value_assigned
  fn = cx.fn('carbon.cache', '_MetricCache.drain_metric')
  if not rule.require(fn is not None, '_MetricCache.drain_metric not found'):
    return
  g = cx.cfg(fn)
  me = fn.params[0]

  def no_strategy_edge(src, lab, dst):
    if not isinstance(lab, tuple):
      return False
    pol, t = lab
    neg = False
    while isinstance(t, ast.UnaryOp) and isinstance(t.op, ast.Not):
      t, neg = t.operand, not neg
    return isinstance(t, ast.Attribute) and t.attr == 'strategy' and dotted(t.value) == me and pol == ('T' if neg else 'F')
  rets = [n for n in g.nodes if n.kind == 'stmt' and isinstance(n.ast, ast.Return) and isinstance(n.ast.value, ast.Tuple) and
          len(n.ast.value.elts) == 2 and isinstance(n.ast.value.elts[0], ast.Name)]
  if not rule.require(bool(rets), 'drain_metric has no `return (metric, ...)`'):
    return
  judged = set()
  for r in rets:
    name = r.ast.value.elts[0].id
    todo, seen = [(name, r)], set()
    while todo:
      nm, at = todo.pop()
      for d in reaching_defs(g, nm, at):
        if d in seen or d is g.entry:
          continue
        seen.add(d)
        v = value_assigned(d, nm)
        if isinstance(v, ast.Name):
          todo.append((v.id, d))
          continue
        if isinstance(v, tuple) and v[0] == 'unpack' and isinstance(v[1], ast.Name) and v[2] and len(v[2]) == 1:
          # metric, index = taken   with   taken = (m, popped) | None   built earlier in the call
          followed = True
          for d2 in reaching_defs(g, v[1].id, d):
            v2 = value_assigned(d2, v[1].id) if d2 is not g.entry else None
            if isinstance(v2, ast.Constant) and v2.value is None:
              continue
            if isinstance(v2, ast.Tuple) and v[2][0] < len(v2.elts) and isinstance(v2.elts[v[2][0]], ast.Name):
              todo.append((v2.elts[v[2][0]].id, d2))
            else:
              followed = False
          if followed:
            continue
        if id(d) in judged:
          continue
        judged.add(id(d))
        is_choice = isinstance(v, ast.Call) and isinstance(v.func, ast.Attribute) and v.func.attr == 'choose_item' and \
            (dotted(v.func.value) or '').endswith('strategy')
        if is_choice:
          rule.ok('drained metric = strategy.choose_item()', fn.loc(d.ast))
        elif isinstance(v, ast.Constant) and v.value is None:
          continue
        elif g.dominated_by_edge(d, no_strategy_edge):
          rule.ok('no strategy configured: `%s`' % short(d.ast, 40), fn.loc(d.ast))
        else:
          rule.violate('metric chosen behind the strategy\'s back', fn, d.ast, '`%s` picks the metric to drain without asking the '
                       'configured strategy (the definition is reachable while self.strategy is set): the strategy still holds the '
                       'name in its snapshot / bucket and hands it out again after it left the cache' % short(d.ast, 60))


def rule_no_outside_autoviv(check, cx, rule):
  """code outside the cache class never indexes the MetricCache (`cache[metric]`): it is a defaultdict, so a look-up of a metric
  that has already been drained CREATES an empty entry - outside the lock and without the strategy hearing of it - which a
  drain then hands out as a metric without datapoints while others hold some.  Membership tests and .get() are the read API."""
  n = 0
  for fn in check.repo.all_functions():
    if (fn.cls is not None and fn.cls.name == '_MetricCache') or isinstance(fn.node, ast.Lambda):
      continue
    recv = {t.id for st in ast.walk(fn.node) if isinstance(st, ast.Assign) and isinstance(st.value, ast.Call) and
            (dotted(st.value.func) or '').split('.')[-1] == 'MetricCache' for t in st.targets if isinstance(t, ast.Name)}
    recv |= {k for k, vals in fn.module.globals.items() if any(isinstance(v, ast.Call) and (dotted(v.func) or '').split('.')[-1] == 'MetricCache' for v in vals)}
    if not recv:
      continue
    n += 1
    bad = [x for x in walk_no_nested(fn.node, include_self=False) if isinstance(x, ast.Subscript) and isinstance(x.ctx, ast.Load) and
           isinstance(x.value, ast.Name) and x.value.id in recv]
    for x in bad:
      rule.violate('auto-vivifying read outside the cache', fn, x, '`%s` indexes the MetricCache defaultdict from %s: for a metric that '
                   'is not cached this creates an empty entry (without the lock, unknown to the strategy) that a later drain hands out '
                   'without datapoints' % (short(x, 40), fn.qualname))
    if not bad:
      rule.ok('%s reads the cache through `in` / .get() / its methods only' % fn.qualname, fn.loc(fn.node))
  rule.require(n >= 1, 'no user of MetricCache() found outside carbon.cache')
