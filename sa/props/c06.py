"""C06 - Consistent hashing is stable, compatible and independent of membership history.

Decided: the ring is mutated only locally (insert the new node's entries /
filter out the leaving node's entries); a ring position depends only on (node,
replica index, hash type) - today it also depends on the ring contents through
the collision bump, a known finding; replica-key templates and hash parameters
equal the published carbon_ch / fnv1a_ch ones; dynamic membership changes go
through the router.  Not decided: hash values themselves.
"""
import ast

from ..model import dotted, unparse, norm, walk_no_nested
from ..rulelib import Ctx, nodes_calling, short, ValueNumbers
from ..symeval import SymEval, alternatives, show, fmt_specs

STABLE_SELF = {'hash_type', 'replica_count', 'compute_ring_position', 'replica_key'}


def ring_class(check):
  return check.repo.cls('carbon.hashing', 'ConsistentHashRing')


def _q(e, fn):
  """dotted name of a callee with `from M import f` resolved to M.f (so that `insort(...)` reads `bisect.insort(...)`)"""
  d = dotted(e) or ''
  if isinstance(e, ast.Name):
    b = fn.module.imports.get(e.id)
    if b and b[0] == 'from':
      return '%s.%s' % (b[1], b[2])
  return d


def _bump_by_one(w, pos):
  """the loop body is exactly `pos += 1` / `pos = pos + 1`"""
  return len(w.body) == 1 and (
    (isinstance(w.body[0], ast.AugAssign) and isinstance(w.body[0].op, ast.Add) and dotted(w.body[0].target) == pos and
     isinstance(w.body[0].value, ast.Constant) and w.body[0].value.value == 1) or
    (isinstance(w.body[0], ast.Assign) and unparse(w.body[0].value).replace(' ', '') in ('%s+1' % pos, '1+%s' % pos) and
     dotted(w.body[0].targets[0]) == pos))


def _any_entry_at(t, add):
  """name P when t is `any(P == <position of e> for e in self.ring)` (entry bound to a name or destructured), else None"""
  if not (isinstance(t, ast.Call) and isinstance(t.func, ast.Name) and t.func.id == 'any' and len(t.args) == 1 and not t.keywords and
          isinstance(t.args[0], (ast.GeneratorExp, ast.ListComp)) and len(t.args[0].generators) == 1):
    return None
  gen = t.args[0].generators[0]
  if gen.ifs or dotted(gen.iter) != '%s.ring' % add.params[0]:
    return None
  e = t.args[0].elt
  if not (isinstance(e, ast.Compare) and len(e.ops) == 1 and isinstance(e.ops[0], ast.Eq)):
    return None

  def is_pos0(x):
    tg = gen.target
    if isinstance(tg, ast.Name):
      return isinstance(x, ast.Subscript) and isinstance(x.value, ast.Name) and x.value.id == tg.id and \
        isinstance(x.slice, ast.Constant) and x.slice.value == 0
    if isinstance(tg, (ast.Tuple, ast.List)) and tg.elts and isinstance(tg.elts[0], ast.Name):
      return isinstance(x, ast.Name) and x.id == tg.elts[0].id and [y.id for y in tg.elts if isinstance(y, ast.Name)].count(x.id) == 1
    return False
  for a_, b_ in ((e.left, e.comparators[0]), (e.comparators[0], e.left)):
    if isinstance(a_, ast.Name) and is_pos0(b_):
      bound = {y.id for y in ast.walk(gen.target) if isinstance(y, ast.Name)}
      if a_.id not in bound:
        return a_.id
  return None


def rule_local_mutation(check, cx, rule):
  """add_node only inserts entries of the new node; remove_node only filters out the leaving node's entries."""
  rc = ring_class(check)
  add, rem = rc.methods.get('add_node'), rc.methods.get('remove_node')
  if add is None or rem is None:
    rule.cannot_decide('ConsistentHashRing.add_node/remove_node not found')
    return
  check.analysed(add, rem)
  # who writes self.ring
  for mname, m in sorted(rc.methods.items()):
    for n in walk_no_nested(m.node, include_self=False):
      writes = False
      if isinstance(n, (ast.Assign, ast.AugAssign)):
        for t in (n.targets if isinstance(n, ast.Assign) else [n.target]):
          if dotted(t) == 'self.ring' or (isinstance(t, ast.Subscript) and dotted(t.value) == 'self.ring'):
            writes = True
      elif isinstance(n, ast.Delete):
        writes = any(isinstance(t, ast.Subscript) and dotted(t.value) == 'self.ring' for t in n.targets)
      elif isinstance(n, ast.Call):
        f = n.func
        if isinstance(f, ast.Attribute) and dotted(f.value) == 'self.ring' and f.attr in (
            'append', 'insert', 'remove', 'pop', 'sort', 'reverse', 'clear', 'extend'):
          writes = True
        if _q(f, m).startswith('bisect.insort') and n.args and dotted(n.args[0]) == 'self.ring':
          writes = True
      if not writes:
        continue
      if mname == '__init__':
        rule.ok('__init__ creates the empty ring', m.loc(n))
      elif mname == 'add_node':
        good = isinstance(n, ast.Call) and _q(n.func, m).startswith('bisect.insort') and len(n.args) == 2
        if good:
          e = n.args[1]
          ent = None
          if isinstance(e, ast.Name):
            for s in walk_no_nested(m.node, include_self=False):
              if isinstance(s, ast.Assign) and any(isinstance(t, ast.Name) and t.id == e.id for t in s.targets):
                ent = s.value
          else:
            ent = e
          good = isinstance(ent, ast.Tuple) and len(ent.elts) == 2 and isinstance(ent.elts[1], ast.Name) and \
            ent.elts[1].id == m.params[1]
        if good:
          rule.ok('add_node inserts (position, <the new node>) with bisect.insort', m.loc(n))
        else:
          rule.violate('add_node disturbs other entries', m, n, 'add_node modifies the ring by `%s`, which is not a sorted insertion '
                       'of an entry of the node being added: entries of the destinations that stay can move' % short(n))
      elif mname == 'remove_node':
        good = False
        if isinstance(n, ast.Assign) and isinstance(n.value, ast.ListComp) and len(n.value.generators) == 1:
          gen = n.value.generators[0]
          key = m.params[1]

          def part(e):
            """'whole' / index of the ring entry's component that e denotes (entry bound to a name or destructured)"""
            tg = gen.target
            if isinstance(tg, ast.Name):
              if isinstance(e, ast.Name) and e.id == tg.id:
                return 'whole'
              if isinstance(e, ast.Subscript) and isinstance(e.value, ast.Name) and e.value.id == tg.id and \
                 isinstance(e.slice, ast.Constant) and isinstance(e.slice.value, int):
                return e.slice.value
            elif isinstance(tg, (ast.Tuple, ast.List)) and all(isinstance(x, ast.Name) for x in tg.elts):
              names = [x.id for x in tg.elts]
              if isinstance(e, ast.Name) and names.count(e.id) == 1:
                return names.index(e.id)
              if isinstance(e, (ast.Tuple, ast.List)) and [part(x) for x in e.elts] == list(range(len(names))) and len(names) == 2:
                return 'whole'
            return None
          cond_ok = False
          if len(gen.ifs) == 1 and isinstance(gen.ifs[0], ast.Compare) and len(gen.ifs[0].ops) == 1 and \
             isinstance(gen.ifs[0].ops[0], ast.NotEq) and dotted(gen.iter) == 'self.ring' and not gen.is_async:
            l, r = gen.ifs[0].left, gen.ifs[0].comparators[0]
            for a_, b_ in ((l, r), (r, l)):
              if part(a_) == 1 and isinstance(b_, ast.Name) and b_.id == key:
                cond_ok = True
          good = cond_ok and part(n.value.elt) == 'whole'
        elif isinstance(n, ast.Assign) and isinstance(n.value, ast.Name):
          good = _filter_loop(cx, m, n)
        if good:
          rule.ok('remove_node keeps, in order, every entry whose node differs', m.loc(n))
        else:
          rule.violate('remove_node does not just filter', m, n, 'remove_node modifies the ring by `%s` instead of filtering out '
                       'every entry of the leaving node in place: entries displaced by collisions stay behind as stale entries, or '
                       'the entries of destinations that stay are re-laid out' % short(n))
      else:
        rule.violate('ring written by %s' % mname, m, n, 'ConsistentHashRing.%s modifies self.ring (`%s`); only add_node and '
                     'remove_node may' % (mname, short(n)))
  for n in walk_no_nested(rem.node, include_self=False):
    if isinstance(n, ast.Call) and isinstance(n.func, ast.Attribute) and n.func.attr in ('add_node', 'sort') or \
       (isinstance(n, ast.Call) and dotted(n.func) == 'sorted'):
      rule.violate('remove_node re-lays the ring', rem, n, 'remove_node calls `%s`: rebuilding the ring for the remaining nodes changes '
                   'which of two colliding replicas keeps its position, so metrics move between destinations that stayed' % short(n))
  # node set and ring stay in step
  for m, op in ((add, 'add'), (rem, 'discard')):
    calls = [c for c in walk_no_nested(m.node, include_self=False) if isinstance(c, ast.Call) and isinstance(c.func, ast.Attribute)
             and dotted(c.func.value) == 'self.nodes' and c.func.attr in (op, 'remove' if op == 'discard' else op)]
    lens = [s for s in walk_no_nested(m.node, include_self=False) if isinstance(s, ast.Assign) and
            any(dotted(t) in ('self.nodes_len', 'self.ring_len') for t in s.targets)]
    if calls and len(lens) >= 2:
      rule.ok('%s: node set and cached lengths updated with the ring' % m.name, m.loc(calls[0]))
    else:
      rule.violate('%s leaves the node set out of step' % m.name, m, None, '%s does not update self.nodes / nodes_len / ring_len '
                   'together with the ring' % m.name, construct='self.nodes.%s / lengths' % op)


def _filter_loop(cx, m, assign):
  """self.ring = L where L starts empty and, in one loop over self.ring, receives exactly the entries whose node
  differs from the leaving one, in ring order:   L = []; for e in self.ring: if e[1] != key: L.append(e)"""
  from ..paths import PathExec
  from ..symeval import canon
  lst = assign.value.id
  key = ('param', m.params[1])
  RING = ('attr', ('param', m.params[0]), 'ring')
  g = cx.cfg(m)
  inits = [s_ for s_ in walk_no_nested(m.node, include_self=False) if isinstance(s_, ast.Assign) and
           any(isinstance(t, ast.Name) and t.id == lst for t in s_.targets)]
  if len(inits) != 1 or not ((isinstance(inits[0].value, ast.List) and not inits[0].value.elts) or
                             (isinstance(inits[0].value, ast.Call) and dotted(inits[0].value.func) == 'list' and not inits[0].value.args)):
    return False
  uses = [c for c in walk_no_nested(m.node, include_self=False) if isinstance(c, ast.Call) and isinstance(c.func, ast.Attribute) and
          dotted(c.func.value) == lst]
  if not uses or any(c.func.attr != 'append' or len(c.args) != 1 for c in uses):
    return False
  heads = [n for n in g.nodes if n.kind == 'loop' and isinstance(n.owner, ast.For) and dotted(n.owner.iter) == 'self.ring']
  if len(heads) != 1:
    return False
  head = heads[0]
  apps = [n for n in g.nodes if n.kind == 'stmt' and any(c in uses for c in g.calls(n))]
  if not all(n in g.in_loop_nodes(head.owner) for n in apps):
    return False
  NODE = ('field', ('elem', RING), 1)

  def differs(conds):
    """True / False / None: the decisions of one iteration say the entry's node differs from / equals the key / neither"""
    out = None
    for pol, t, a, n in conds:
      if pol not in ('T', 'F') or not isinstance(t, tuple) or t[0] == 'loop':
        continue
      t = canon(t)
      if t[0] == 'cmp' and t[1] in ('Eq', 'NotEq') and {t[2], t[3]} == {NODE, key}:
        v = (t[1] == 'NotEq') == (pol == 'T')
        out = v if out is None or out == v else 'both'
      else:
        return 'other'
    return out
  px = PathExec(cx, m, unroll=0, follow_exceptions=False)
  ok = True
  seen_keep = seen_drop = False
  for hit in px.run(set(apps) | {head}):
    if hit.node is head and head not in hit.trail[:-1]:
      continue
    since = [c for c in hit.conds if c[3] in g.in_loop_nodes(head.owner) and c[3] is not head]
    d = differs(since)
    if hit.node in apps:
      call = [c for c in g.calls(hit.node) if c in uses][0]
      if d is not True or canon(hit.term(call.args[0], px)) != ('elem', RING):
        ok = False
      seen_keep = True
    elif not any(n in apps for n in hit.trail):
      if d is not False:
        ok = False
      seen_drop = True
  return ok and seen_keep and seen_drop and not px.truncated


def run(check):
  cx = Ctx(check)
  se = SymEval(cx)
  repo = check.repo
  check.explanation = (
    'Ownership (who may write the ring: only add_node by sorted insertion of entries of the new node, and remove_node by an '
    'in-place, order-preserving filter on the node component), dependence analysis (data + control dependences of the ring '
    'position inserted by add_node must be within {node key, replica index, hash type}), and symbolic terms of the replica key '
    '("%s:%d" % (node, i) for carbon_ch, "%d-%s" % (i, instance) for fnv1a_ch), of carbonHash (first 4 hex digits of md5 resp. '
    '16-bit xor-fold of FNV-1a), the default replica count 100 and the bisect_left((position, ())) lookup, compared with the '
    'published algorithm\'s parameters. One known finding: the collision bump makes the position depend on ring contents.')
  check.not_decided = ['that md5/FNV arithmetic equals graphite-web\'s for every key (hash values are not computed)',
                       'the magnitude of disruption when a destination is added or removed']
  check.trusted_base = ['hashlib.md5', 'bisect']
  rc = ring_class(check)
  r_m = check.rule('R-C06-local-mutation', 4, rule_local_mutation.__doc__)
  rule_local_mutation(check, cx, r_m)

  # ------------------------------------------------------------------ position purity
  r_p = check.rule('R-C06-position-purity', 1, 'a ring position depends only on (node, replica index, hash type)')
  add = rc.methods.get('add_node')
  if add is None:
    r_p.cannot_decide('add_node not found')
  else:
    deps = {}          # local name -> set of (name, via-node) it depends on
    entry_pts = {}     # mutable-state name -> statement through which it enters

    def names(e):
      out = set()
      for x in ast.walk(e):
        if isinstance(x, ast.Attribute) and isinstance(x.ctx, ast.Load):
          d = dotted(x)
          if d and d.startswith('self.'):
            out.add('.'.join(d.split('.')[:2]))
        elif isinstance(x, ast.Name) and isinstance(x.ctx, ast.Load) and x.id != 'self':
          out.add(x.id)
      return out

    def walk(stmts, ctrl):
      for s in stmts:
        if isinstance(s, ast.Assign):
          for t in s.targets:
            for x in ast.walk(t):
              if isinstance(x, ast.Name):
                for nm in names(s.value) | ctrl:
                  deps.setdefault(x.id, set()).add(nm)
                for nm in names(s.value):
                  if nm.startswith('self.'):
                    entry_pts.setdefault((x.id, nm), s)
        elif isinstance(s, ast.AugAssign) and isinstance(s.target, ast.Name):
          for nm in names(s.value) | ctrl | {s.target.id}:
            deps.setdefault(s.target.id, set()).add(nm)
        elif isinstance(s, (ast.While, ast.If)):
          tn = names(s.test)
          for nm in tn:
            if nm.startswith('self.'):
              for x in ast.walk(s):
                if isinstance(x, (ast.Assign, ast.AugAssign)):
                  for t in (x.targets if isinstance(x, ast.Assign) else [x.target]):
                    if isinstance(t, ast.Name):
                      entry_pts.setdefault((t.id, nm), s)
          walk(s.body, ctrl | tn)
          walk(s.orelse, ctrl | tn)
        elif isinstance(s, ast.For):
          for x in ast.walk(s.target):
            if isinstance(x, ast.Name):
              deps.setdefault(x.id, set()).update(names(s.iter) | ctrl)
          walk(s.body, ctrl)
        elif isinstance(s, (ast.With, ast.Try)):
          walk(getattr(s, 'body', []), ctrl)
    walk(add.node.body, set())
    # the inserted position
    ins = [c for c in walk_no_nested(add.node, include_self=False) if isinstance(c, ast.Call) and
           _q(c.func, add).startswith('bisect.insort')]
    pos_names = set()
    for c in ins:
      e = c.args[1] if len(c.args) > 1 else None
      ent = None
      if isinstance(e, ast.Name):
        for s in walk_no_nested(add.node, include_self=False):
          if isinstance(s, ast.Assign) and any(isinstance(t, ast.Name) and t.id == e.id for t in s.targets):
            ent = s.value
      else:
        ent = e
      if isinstance(ent, ast.Tuple) and ent.elts:
        pos_names |= {x.id for x in ast.walk(ent.elts[0]) if isinstance(x, ast.Name)}
    if not pos_names:
      r_p.cannot_decide('the position inserted by add_node was not recognised')
    else:
      closure = set()
      todo = list(pos_names)
      how = {}
      while todo:
        v = todo.pop()
        for d in deps.get(v, ()):
          if d not in closure:
            closure.add(d)
            how.setdefault(d, v)
            todo.append(d)
      state = sorted(d for d in closure if d.startswith('self.') and d.split('.')[1] not in STABLE_SELF)
      params = set(add.params)
      if not state:
        r_p.ok('position depends only on %s' % sorted((closure & params) | {d for d in closure if d.startswith('self.')}), add.loc())
      for sname in state:
        via = how.get(sname)
        stmt = entry_pts.get((via, sname)) or next((s for (v, nm), s in entry_pts.items() if nm == sname), None)
        r_p.violate('position depends on %s' % sname, add, stmt, construct='ring position depends on %s' % sname, message='the ring position that add_node inserts depends on the mutable '
                    '`%s` (through `%s`): which of two colliding replicas keeps its position depends on the order in which '
                    'destinations joined, so after destinations leave and rejoin the ring differs from a freshly built one'
                    % (sname, short(stmt) if stmt is not None else via))

  # ------------------------------------------------------------------ published parameters
  r_b = check.rule('R-C06-published', 6, 'replica keys, hash functions and lookup equal the published carbon_ch / fnv1a_ch algorithm')
  if add is not None:
    out = []
    terms = {}
    # evaluate the replica-key expression(s): inline or in a helper
    body_fn = add
    env = {}
    rec = []
    se.run(add.body, env, add, lambda c: ('pos' if isinstance(c.func, ast.Attribute) and c.func.attr == 'compute_ring_position' else None), rec)
    keys = [r[2][0] for r in rec if r[0] == 'pos']
    tpls = set()
    for k in keys:
      for alt in alternatives(k):
        if alt[0] == 'fmt':
          tpls.add((alt[1], tuple(show(x) for x in alt[2:])))
        else:
          tpls.add(('?', (show(alt),)))
    kp = add.params[1]
    want = {('%s:%d', (kp, 'elem(range(self.replica_count))')), ('%d-%s', ('elem(range(self.replica_count))', '%s[1]' % kp))}
    loopvar_terms = {t for t in tpls}
    norm_t = set()
    for tpl, args in tpls:
      args = tuple(a.replace('elem(xrange(', 'elem(range(') for a in args)
      # "%s" of an integer (a range index, as an f-string writes it) renders exactly like "%d"
      specs = fmt_specs(tpl) if tpl != '?' else []
      if len(specs) == len(args) and '%' in tpl:
        pieces, i_ = [], 0
        out_tpl = tpl
        for (flags, ty), a in zip(specs, args):
          if ty == 's' and not flags and a.startswith('elem(range('):
            # replace this occurrence of %s by %d
            k_ = -1
            for _ in range(i_ + 1):
              k_ = out_tpl.find('%', k_ + 1)
            out_tpl = out_tpl[:k_] + '%d' + out_tpl[k_ + 2:]
          i_ += 1
        tpl = out_tpl
      norm_t.add((tpl, args))
    if norm_t == want:
      r_b.ok('replica keys: "%s:%d" % (node, i) and, for fnv1a_ch, "%d-%s" % (i, node[1])', add.loc())
    else:
      r_b.violate('replica key template', add, None, 'the replica keys hashed onto the ring are %s; the published algorithm uses '
                  '"%%s:%%d" %% (node, i) (carbon_ch/mmh3) and "%%d-%%s" %% (i, instance) (fnv1a_ch)' % sorted(norm_t),
                  construct='replica key')
    # the fnv template only under hash_type == 'fnv1a_ch'
    txt = unparse(add.node)
  init = rc.methods.get('__init__')
  if init is not None:
    a = init.node.args
    dflt = dict(zip([x.arg for x in a.args][-len(a.defaults):], a.defaults))
    rcnt = dflt.get('replica_count')
    if isinstance(rcnt, ast.Constant) and rcnt.value == 100:
      r_b.ok('default replica_count = 100', init.loc())
    else:
      r_b.violate('replica count', init, None, 'the default replica_count is %s, the published ring uses 100'
                  % (unparse(rcnt) if rcnt is not None else 'missing'), construct='replica_count default')
    loop = [n for n in walk_no_nested(rc.methods['add_node'].node, include_self=False) if isinstance(n, ast.For)] if add else []
    replica_loop = False
    if loop:
      from ..paths import mentions
      RANGE = ('call', 'range', ('attr', ('param', add.params[0]), 'replica_count'))
      its = alternatives(ValueNumbers(cx, add, multi=True).term(loop[0].iter, loop[0]))
      # range(self.replica_count) itself, or an unfiltered comprehension over it (one replica key per index)
      replica_loop = bool(its) and all(
        t == RANGE or (isinstance(t, tuple) and t[0] == 'comp' and len(t) == 3 and t[2] == () and mentions(t[1], lambda x: x == ('elem', RANGE)))
        for t in its)
    if replica_loop:
      r_b.ok('one ring entry per replica index 0..replica_count-1', add.loc(loop[0]))
    else:
      r_b.violate('replica loop', add, loop[0] if loop else None, 'add_node does not create one entry for each replica index in '
                  'range(self.replica_count)', construct='for i in range(self.replica_count)')
  if add is not None:
    whiles = [n for n in walk_no_nested(add.node, include_self=False) if isinstance(n, ast.While)]
    okb = False
    for w in whiles:
      t = w.test
      anyform = _any_entry_at(t, add)
      if anyform is not None:
        # while any(position == <position of e> for e in self.ring): the ring is scanned afresh at every test
        pos = anyform
        if _bump_by_one(w, pos):
          okb = True
          r_b.ok('collision handling: while the position is taken by any ring entry, position += 1 (published behaviour)', add.loc(w))
        continue
      if isinstance(t, ast.Compare) and len(t.ops) == 1 and isinstance(t.ops[0], ast.In) and isinstance(t.left, ast.Name):
        pos = t.left.id
        c = t.comparators[0]
        # the collection searched is "the position of every ring entry", computed in this very iteration of the replica loop
        vn = ValueNumbers(cx, add)
        ct = vn.term(c, w)
        while isinstance(ct, tuple) and ct[0] == 'call' and ct[1] in ('set', 'list', 'tuple', 'frozenset') and len(ct) == 3:
          ct = ct[2]
        RING = ('attr', ('param', add.params[0]), 'ring')
        all_positions = ct == ('comp', ('field', ('elem', RING), 0), ())
        if all_positions and isinstance(c, ast.Name):
          floop = [f_ for f_ in walk_no_nested(add.node, include_self=False) if isinstance(f_, ast.For) and any(x is w for x in ast.walk(f_))]
          defs_in = [d for d in walk_no_nested(add.node, include_self=False) if isinstance(d, ast.Assign) and
                     any(isinstance(tg, ast.Name) and tg.id == c.id for tg in d.targets)]
          recomputed = bool(floop) and bool(defs_in) and all(any(x is d for x in ast.walk(floop[-1])) for d in defs_in)
          # ... or computed once before the replica loop and kept in step: every insertion into the ring inside the loop is
          # accompanied, in the same iteration, by <collection>.add(<the inserted position>)
          maintained = False
          if floop and defs_in and not recomputed and len(defs_in) == 1:
            lp_ = floop[-1]
            inserts = [x for x in lp_.body if isinstance(x, ast.Expr) and isinstance(x.value, ast.Call) and
                       _q(x.value.func, add).startswith('bisect.insort') and len(x.value.args) == 2]
            adds_ = [x for x in lp_.body if isinstance(x, ast.Expr) and isinstance(x.value, ast.Call) and
                     isinstance(x.value.func, ast.Attribute) and x.value.func.attr == 'add' and dotted(x.value.func.value) == c.id and
                     len(x.value.args) == 1]
            all_ins = [x for x in ast.walk(add.node) if isinstance(x, ast.Call) and _q(x.func, add).startswith('bisect.insort')]
            if len(inserts) == 1 and len(adds_) == 1 and len(all_ins) == 1:
              ent_t = vn.term(inserts[0].value.args[1], inserts[0])
              pos_t = ent_t[1] if isinstance(ent_t, tuple) and ent_t[0] == 'tuple' and len(ent_t) == 3 else None
              maintained = pos_t is not None and vn.term(adds_[0].value.args[0], adds_[0]) == pos_t and pos_t == vn.term(t.left, inserts[0])
          all_positions = recomputed or maintained
        body_ok = _bump_by_one(w, pos)
        if all_positions and body_ok:
          okb = True
          r_b.ok('collision handling: while the position is taken by any ring entry, position += 1 (published behaviour)', add.loc(w))
    if not okb:
      # the same search written as  for P in itertools.count(W): if P not in <positions of all ring entries>: <take P>; break
      for fl in [n for n in walk_no_nested(add.node, include_self=False) if isinstance(n, ast.For)]:
        it = fl.iter
        if not (isinstance(it, ast.Call) and _q(it.func, add) in ('itertools.count', 'count') and len(it.args) == 1 and
                isinstance(fl.target, ast.Name)):
          continue
        P = fl.target.id
        tests = [x for x in fl.body if isinstance(x, ast.If)]
        if len(tests) != 1 or len(fl.body) != 1:
          continue
        t = tests[0].test
        free = isinstance(t, ast.Compare) and len(t.ops) == 1 and isinstance(t.ops[0], ast.NotIn) and isinstance(t.left, ast.Name) and t.left.id == P
        if not free or not any(isinstance(x, ast.Break) for x in tests[0].body) or tests[0].orelse:
          continue
        vn = ValueNumbers(cx, add)
        ct = vn.term(t.comparators[0], fl)
        while isinstance(ct, tuple) and ct[0] == 'call' and ct[1] in ('set', 'list', 'tuple', 'frozenset') and len(ct) == 3:
          ct = ct[2]
        RING = ('attr', ('param', add.params[0]), 'ring')
        outer = [f_ for f_ in walk_no_nested(add.node, include_self=False) if isinstance(f_, ast.For) and f_ is not fl and
                 any(x is fl for x in ast.walk(f_))]
        defs_in = [d for d in walk_no_nested(add.node, include_self=False) if isinstance(d, ast.Assign) and isinstance(t.comparators[0], ast.Name) and
                   any(isinstance(tg, ast.Name) and tg.id == t.comparators[0].id for tg in d.targets)]
        fresh = not isinstance(t.comparators[0], ast.Name) or (outer and defs_in and all(any(x is d for x in ast.walk(outer[-1])) for d in defs_in))
        if ct == ('comp', ('field', ('elem', RING), 0), ()) and fresh:
          okb = True
          r_b.ok('collision handling: first position >= the hashed one that no ring entry occupies (published behaviour)', add.loc(fl))
    if not okb:
      r_b.violate('collision handling differs from the published ring', add, whiles[0] if whiles else None, 'add_node does not resolve a '
                  'position collision the published way (`while position in [r[0] for r in self.ring]: position += 1`): rings with '
                  'double collisions (e.g. fnv1a_ch with hosts sharing instance names) then differ from graphite-web and other relays',
                  construct='collision bump loop')
  ch = cx.fn('carbon.hashing', 'carbonHash')
  rec = []
  se.run(ch.body, {}, ch, lambda c: None, rec)
  rets = [show(r[2][0]) for r in rec if r[0] == '<return>']
  cmp_ = cx.fn('carbon.hashing', 'compactHash')
  rec2 = []
  se.run(cmp_.body, {}, cmp_, lambda c: None, rec2)
  compact = [show(r[2][0]) for r in rec2 if r[0] == '<return>']
  txt = ' | '.join(rets)
  ok_md5 = any("md5(" in c and "encode('utf-8')" in c and c.endswith('.hexdigest()') for c in compact) and \
    "int(compactHash(key)[[:4]], 16)" in txt
  ok_fnv = "(int(fnv32a(key.encode('utf-8'))) RShift 16) BitXor (int(fnv32a(key.encode('utf-8'))) BitAnd 65535)" in txt.replace('((', '(').replace('))', ')')
  if ok_md5:
    r_b.ok('carbon_ch position = int(md5(key utf-8).hexdigest()[:4], 16)', ch.loc())
  else:
    r_b.violate('carbon_ch hash', ch, None, 'carbonHash(carbon_ch) is `%s` / compactHash `%s`, not int(md5(key.encode("utf-8")).hexdigest()[:4], 16)'
                % (txt, compact), construct='carbon_ch hash')
  fnv_txt = txt.replace(' ', '')
  if "RShift16" in fnv_txt and "BitAnd65535" in fnv_txt and "BitXor" in fnv_txt and "fnv32a(key.encode('utf-8'))" in fnv_txt:
    r_b.ok('fnv1a_ch position = (h >> 16) ^ (h & 0xffff) of FNV-1a(key utf-8)', ch.loc())
  else:
    r_b.violate('fnv1a_ch hash', ch, None, 'carbonHash(fnv1a_ch) is not the 16-bit xor-fold of fnv32a(key.encode("utf-8")): %s' % txt,
                construct='fnv1a_ch hash')
  # fnv32a constants
  fnv = [f for f in repo.module('carbon.hashing').functions.get('fnv32a', []) if any(isinstance(n, ast.For) for n in ast.walk(f.node))]
  if fnv:
    from ..paths import PathExec
    fv = fnv[0]
    gfv = cx.cfg(fv)
    dflt = fv.node.args.defaults
    seed_name = fv.params[-1] if fv.params else 'seed'
    seed_ok = bool(dflt) and isinstance(dflt[-1], ast.Constant) and dflt[-1].value == 0x811c9dc5
    px = PathExec(cx, fv, unroll=1, follow_exceptions=False)
    SEED = ('param', seed_name)
    SEEDS = (SEED, ('const', 0x811c9dc5))      # the parameter, or its default bound in (no caller passes a seed)
    shapes = set()
    for hit in px.run([n for n in gfv.nodes if n.kind == 'stmt' and isinstance(n.ast, ast.Return)]):
      shapes.add(hit.term(hit.node.ast.value, px) if hit.node.ast.value is not None else ('const', None))

    def one_round(t):
      """t == ((seed ^ <octet>) * 0x01000193) % 2**32   ->  (prime ok, modulus ok, xor-before-multiply ok)"""
      if not (isinstance(t, tuple) and t[0] == 'binop'):
        return None
      mod_ok = False
      if t[1] == 'Mod' and t[3] == ('const', 2 ** 32):
        mod_ok, t = True, t[2]
      elif t[1] == 'BitAnd' and t[3] == ('const', 0xffffffff):
        mod_ok, t = True, t[2]
      if not (isinstance(t, tuple) and t[0] == 'binop' and t[1] == 'Mult'):
        return None
      a, b = t[2], t[3]
      if a == ('const', 0x01000193):
        a, b = b, a
      prime = b == ('const', 0x01000193)
      order = isinstance(a, tuple) and a[0] == 'binop' and a[1] == 'BitXor' and any(s_ in (a[2], a[3]) for s_ in SEEDS)
      return prime, mod_ok, order
    rounds = [one_round(t) for t in shapes if t not in SEEDS]
    if seed_ok and rounds and all(r == (True, True, True) for r in rounds):
      r_b.ok('FNV-1a: offset basis 0x811c9dc5, prime 0x01000193, xor then multiply, mod 2**32', fv.loc())
    else:
      r_b.violate('FNV-1a constants', fv, None, 'the pure-python fnv32a does not compute ((h ^ octet) * 0x01000193) %% 2**32 from '
                  'the offset basis 0x811c9dc5 (basis %s; value after one octet: %s)' % (
                    seed_ok, sorted(show(t) for t in shapes if t != SEED)[:2]), construct='fnv32a')
  from ..rulelib import reaching_defs, value_assigned

  def _resolve(g, node, e, depth=0):
    """follow a local name to its single defining expression"""
    while isinstance(e, ast.Name) and depth < 3:
      rds = [d for d in reaching_defs(g, e.id, node) if d is not g.entry]
      if len(rds) != 1:
        return e
      v = value_assigned(rds[0], e.id)
      if not isinstance(v, ast.AST):
        return e
      e, node, depth = v, rds[0], depth + 1
    return e
  for mname in ('get_node', 'get_nodes'):
    m = rc.methods.get(mname)
    if m is None:
      continue
    g = cx.cfg(m)
    okl = False
    bis = None
    for n in g.nodes:
      for c in g.calls(n):
        if _q(c.func, m) == 'bisect.bisect_left' and len(c.args) == 2 and dotted(c.args[0]) == 'self.ring':
          bis = c
          ent = _resolve(g, n, c.args[1])
          if isinstance(ent, ast.Tuple) and len(ent.elts) == 2 and isinstance(ent.elts[1], ast.Tuple) and not ent.elts[1].elts:
            pos = _resolve(g, n, ent.elts[0])
            if isinstance(pos, ast.Call) and (dotted(pos.func) or '') == 'self.compute_ring_position' and pos.args and \
               isinstance(pos.args[0], ast.Name) and pos.args[0].id == m.params[1]:
              par = getattr(c, '_parent', None)
              if isinstance(par, ast.BinOp) and isinstance(par.op, ast.Mod) and dotted(par.right) == 'self.ring_len':
                okl = True
    if okl:
      r_b.ok('%s: lookup = bisect_left(ring, (hash(key), ())) mod ring_len' % mname, m.loc(bis))
    else:
      r_b.violate('%s lookup' % mname, m, bis, '%s does not look the key up with bisect_left(self.ring, '
                  '(compute_ring_position(key), ())) %% self.ring_len' % mname, construct='%s lookup' % mname)

  # ------------------------------------------------------------------ routing reads the ring as it is now
  from .c05 import rule_pure
  r_rp = check.rule('R-C06-route-pure', 3, 'a routing decision depends only on the key and the current membership (no memo of earlier '
                    'decisions on the router): routing after any history equals that of a fresh relay with the same destinations')
  rcls = repo.cls('carbon.routers', 'ConsistentHashingRouter')
  fns_ = [f for f in (rcls.methods.get('getDestinations'), repo.cls('carbon.routers', 'AggregatedConsistentHashingRouter').methods.get('getDestinations'),
                      ring_class(check).methods.get('get_nodes'), ring_class(check).methods.get('get_node')) if f is not None]
  # helpers the router's getDestinations delegates to (same class)
  for f in list(fns_):
    if f.cls is not None:
      for c in walk_no_nested(f.node, include_self=False):
        if isinstance(c, ast.Call) and isinstance(c.func, ast.Attribute) and dotted(c.func.value) == 'self' and c.func.attr in f.cls.methods and \
           f.cls.methods[c.func.attr] not in fns_:
          fns_.append(f.cls.methods[c.func.attr])
  mgr = repo.cls('carbon.client', 'CarbonClientManager')
  fns_ += [mgr.methods[k] for k in ('getFactories', 'sendDatapoint') if mgr is not None and k in mgr.methods]
  rule_pure(check, r_rp, fns_)

  # ------------------------------------------------------------------ dynamic membership
  r_d = check.rule('R-C06-dynamic', 2, 'a destination going down/up changes routing only through the router')
  fac = repo.cls('carbon.client', 'CarbonClientFactory')
  for mname, meth in (('destinationDown', 'removeDestination'), ('destinationUp', 'addDestination')):
    m = fac.methods.get(mname)
    if m is None:
      r_d.cannot_decide('%s not found' % mname)
      continue
    calls = [c for c in walk_no_nested(m.node, include_self=False) if isinstance(c, ast.Call) and isinstance(c.func, ast.Attribute)
             and c.func.attr == meth and dotted(c.func.value) == 'self.router']
    direct = [n for n in walk_no_nested(m.node, include_self=False) if isinstance(n, ast.Attribute) and n.attr in ('ring', 'instance_ports')]
    if calls and not direct:
      r_d.ok('%s -> router.%s only' % (mname, meth), m.loc(calls[0]))
    else:
      r_d.violate('%s bypasses the router' % mname, m, (direct or [None])[0], '%s does not change membership (only) through '
                  'self.router.%s' % (mname, meth), construct='self.router.%s' % meth)
  # every (re)connection is announced to the router, and the one-shot connectionMade Deferred is re-armed each time
  ccm = fac.methods.get('clientConnectionMade')
  if ccm is None:
    r_d.cannot_decide('CarbonClientFactory.clientConnectionMade not found')
  else:
    gcc = cx.cfg(ccm)
    ups = set(nodes_calling(gcc, lambda c: isinstance(c.func, ast.Attribute) and c.func.attr == 'destinationUp' and dotted(c.func.value) == 'self'))
    rearm = set(nodes_calling(gcc, lambda c: isinstance(c.func, ast.Attribute) and c.func.attr in ('addCallbacks', 'addCallback') and
                              dotted(c.func.value) == 'self.connectionMade' and c.args and dotted(c.args[0]) == 'self.clientConnectionMade'))
    known = lambda a, lab, b: isinstance(lab, tuple) and lab[0] == 'T' and 'hasDestination' in unparse(lab[1])   # noqa: E731
    if not rearm or gcc.exit in gcc.reach([gcc.entry], removed_nodes=rearm, normal_only=True):
      r_d.violate('reconnect not re-armed', ccm, None, 'clientConnectionMade can return without registering itself on the new '
                  'self.connectionMade Deferred: the next reconnect of this destination is never announced, so a destination that '
                  'was removed while down is connected again but never put back on the ring', construct='self.connectionMade.addCallbacks(self.clientConnectionMade, ...)')
    elif not ups or gcc.exit in gcc.reach([gcc.entry], removed_nodes=ups, removed_edge=known, normal_only=True):
      r_d.violate('reconnect not announced', ccm, None, 'clientConnectionMade can return without destinationUp() (or having found the '
                  'destination on the ring)', construct='self.destinationUp(client.destination)')
    else:
      r_d.ok('every reconnect calls destinationUp and re-arms connectionMade', ccm.loc())
  rule_replicas_total(check, cx, check.rule('R-C06-replicas-total', 1, 'add_node inserts one ring entry for every replica index (collisions are bumped, never dropped)'))
  rule_list_order(check, cx, check.rule('R-C06-list-order', 1, 'list-valued options (DESTINATIONS) keep the order of the configuration file'))


def rule_replicas_total(check, cx, rule):
  """ConsistentHashRing.add_node puts one ring entry in for EVERY replica index: no iteration of the replica loop can reach
  the next one (or leave the loop) without an insertion - a colliding replica is moved, never dropped.  (fnv1a_ch replica keys
  do not contain the server: nodes that share an instance name collide on all of their positions.)"""
  fn = cx.fn('carbon.hashing', 'ConsistentHashRing.add_node')
  if not rule.require(fn is not None, 'ConsistentHashRing.add_node not found'):
    return
  g = cx.cfg(fn)
  # the loop(s) that put entries into the ring: the innermost `for` around each insertion (over range(replica_count), over the
  # replica keys, over precomputed positions ... - whatever sequence of replicas the code walks)
  def is_insertion(c):
    d = dotted(c.func) or ''
    return d.split('.')[-1] in ('insort', 'insort_left', 'insort_right') or (d.split('.')[-1] in ('insert', 'append') and 'ring' in d)
  owners = []
  for c in ast.walk(fn.node):
    if isinstance(c, ast.Call) and is_insertion(c):
      p_ = getattr(c, '_parent', None)
      while p_ is not None and not isinstance(p_, ast.For):
        p_ = getattr(p_, '_parent', None)
      if p_ is not None and not any(p_ is o for o in owners):
        owners.append(p_)
  heads = [n for n in g.nodes if n.kind == 'loop' and any(n.owner is o for o in owners)]
  if not rule.require(len(heads) >= 1, 'no loop that inserts entries into the ring found in add_node'):
    return
  for head in heads:            # one loop, or one per hash type when the loop was unswitched
    _replica_loop_total(rule, fn, g, head)


def _replica_loop_total(rule, fn, g, head):
  loop = head.owner

  def inserts(n):
    if n.ast is None or n.kind != 'stmt':
      return False
    for c in walk_no_nested(n.ast):
      if isinstance(c, ast.Call):
        d = dotted(c.func) or ''
        if d.split('.')[-1] in ('insort', 'insort_left', 'insort_right') or \
           (d.split('.')[-1] in ('insert', 'append') and 'ring' in d):
          return True
    return False
  ins = [n for n in g.in_loop_nodes(loop) if inserts(n)]
  if not rule.require(bool(ins), 'no ring insertion found inside the replica loop'):
    return
  start = [y for y, lab in head.succ if isinstance(lab, tuple) and lab[0] == 'T']
  r = g.reach(start, removed_nodes=set(ins), normal_only=True)
  inside = g.in_loop_nodes(loop)
  leaks = [n for n in r if n is head or n not in inside]
  if leaks:
    tgt = head if head in leaks else leaks[0]
    p = g.path(start, tgt, removed_nodes=set(ins), normal_only=True)
    last = [x for x in (p or []) if x.ast is not None and x is not head]
    rule.violate('a replica can be left out of the ring', fn, last[-1].ast if last else loop, 'an iteration of the replica loop can end '
                 'without inserting its entry: the node then owns fewer than replica_count positions (none at all when every '
                 'position collides), is still counted in nodes/nodes_len and is never returned by get_nodes()',
                 path=g.describe_path(p))
  else:
    rule.ok('every replica index inserts one ring entry', fn.loc(ins[0].ast))


ORDER_PRESERVING = {'split', 'strip', 'lstrip', 'rstrip', 'list', 'tuple', 'map', 'filter', 'iter', 'str', 'len', 'bool'}


def rule_list_order(check, cx, rule):
  """a list-valued option (DESTINATIONS) reaches the settings in the order it was written: collisions on the hash ring are
  resolved by insertion order, and destinations are added in settings order - so the value read from the file may only go
  through order-preserving steps (split / strip / comprehension / list), never through a set, a sort or a dict."""
  fn = cx.fn('carbon.conf', 'Settings.readFrom')
  if not rule.require(fn is not None, 'Settings.readFrom not found'):
    return
  splits = [c for c in ast.walk(fn.node) if isinstance(c, ast.Call) and isinstance(c.func, ast.Attribute) and c.func.attr == 'split' and
            c.args and isinstance(c.args[0], ast.Constant) and c.args[0].value == ',']
  if not rule.require(bool(splits), "no `.split(',')` of a list-valued option found in Settings.readFrom"):
    return
  for sp in splits:
    top = sp
    while not isinstance(getattr(top, '_parent', None), ast.stmt):
      top = top._parent
    bad = []
    for x in ast.walk(top):
      if isinstance(x, (ast.SetComp, ast.DictComp, ast.Set)):
        bad.append(x)
      elif isinstance(x, ast.Call):
        name = (dotted(x.func) or unparse(x.func)).split('.')[-1]
        if name not in ORDER_PRESERVING:
          bad.append(x)
    if bad:
      rule.violate('list option loses its order', fn, bad[0], 'the value of a list-valued option goes through `%s`, which does not keep '
                   'the order of the configuration file: the relay builds the ring of a permuted DESTINATIONS list and resolves '
                   'position collisions differently from the published algorithm' % short(bad[0], 50))
    else:
      rule.ok('list options keep file order', fn.loc(sp), short(top, 60))
