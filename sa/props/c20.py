"""C20 - Update and create rate limits.

Decided (structural): every backend write/create is gated by its token bucket;
the bucket objects the gate uses are the ones re-rated at shutdown; every
refill is capped and advances the clock on every path; a grant charges its
cost exactly once.  Not decided: the window bound rate*w + 2*burst and the
waiting-time bound (arithmetic over clocks).
"""
import ast

from ..model import dotted, unparse, norm, walk_no_nested
from ..rulelib import Ctx, nodes_calling, reaching_defs, value_assigned, short

DB = {'TimeSeriesDatabase'}


def _is_true(node):
  return isinstance(node, ast.Constant) and node.value is True


def run(check):
  cx = Ctx(check)
  T = check.types
  check.explanation = (
    'Must-pass gate on the writer CFG (every path to database.write/create passes the bucket\'s drain or the '
    '"no bucket configured" edge), bucket identity (the objects used by the gate are the ones re-rated at '
    'shutdown), and a per-path refill discipline inside TokenBucket (capped, clock advanced, cost charged once). '
    'Decides these structural clauses; the window/waiting-time bounds are arithmetic and are not decided.')
  check.not_decided = ['the bound rate*w + 2*burst over every window', 'the waiting-time bound of a blocking drain']
  check.trusted_base = ['time.time()/time.sleep()']
  fn = cx.fn('carbon.writer', 'writeCachedDataPoints')
  g = cx.cfg(fn)
  tb = check.repo.cls('carbon.util', 'TokenBucket')

  def is_bucket_expr(e):
    return any(t[0] == 'inst' and t[1].name == 'TokenBucket' for t in T.expr_types(e, fn.module, fn))

  def bucket_drain_call(c):
    return isinstance(c.func, ast.Attribute) and c.func.attr == 'drain' and is_bucket_expr(c.func.value)

  def blocking(c):
    for kw in c.keywords:
      if kw.arg == 'blocking' and _is_true(kw.value):
        return True
    return len(c.args) >= 2 and _is_true(c.args[1])

  def cost_ok(c):
    return bool(c.args) and isinstance(c.args[0], ast.Constant) and isinstance(c.args[0].value, (int, float)) \
      and c.args[0].value >= 1

  r_gate = check.rule('R-C20-gate', 2, 'every write/create passes its bucket gate')
  buckets_used = {}
  for kind in ('write', 'create'):
    sites = nodes_calling(g, lambda c, k=kind: cx.calls_method(c, fn, DB, k))
    if not sites:
      r_gate.cannot_decide('no database.%s() site in writeCachedDataPoints' % kind)
      continue
    want = {'write': 'UPDATE_BUCKET', 'create': 'CREATE_BUCKET'}[kind]

    def bname(e, _depth=0):
      # the module-level bucket an expression stands for (a local alias `update_bucket = UPDATE_BUCKET` is followed)
      from ..rulelib import local_sources
      if isinstance(e, ast.Name) and e.id not in fn.module.globals and _depth < 3:
        srcs = [x for x in local_sources(fn, e.id) if isinstance(x, ast.AST)]
        names = {bname(x, _depth + 1) for x in srcs}
        return names.pop() if len(names) == 1 else dotted(e)
      return dotted(e)
    for s in sites:
      gates = set()          # nodes that are unconditional (blocking) gates
      cond_gates = []        # test nodes whose True edge is the gate
      bucket_names = set()
      for n in g.nodes:
        for c in g.calls(n):
          if bucket_drain_call(c) and cost_ok(c) and bname(c.func.value) == want:
            name = dotted(c.func.value)
            if n.kind == 'test' and n.ast is c:
              cond_gates.append((n, name))
            elif blocking(c):
              gates.add(n)
              bucket_names.add(name)
      # which bucket guards this site: the one whose gate dominates it
      def removed_edge(a, lab, b, names=None):
        if not isinstance(lab, tuple):
          return False
        pol, t = lab
        # "no bucket configured" edge
        if pol == 'F' and isinstance(t, ast.Name) and is_bucket_expr(t) and bname(t) == want:
          return True
        if pol == 'T' and isinstance(t, ast.Call) and bucket_drain_call(t) and cost_ok(t) and bname(t.func.value) == want:
          return True
        return False
      # start: for write, the drain of the batch; for create: function entry / loop iteration start
      starts = [g.entry]
      rr = g.reach(starts, removed_nodes=gates, removed_edge=removed_edge, normal_only=True)
      if s in rr:
        p = g.path(starts, s, removed_nodes=gates, removed_edge=removed_edge, normal_only=True)
        r_gate.violate('%s ungated' % kind, fn, s.ast,
                       'database.%s() is reachable on a path that neither drains a token from %s '
                       'nor established that this bucket is not configured (a peek() spends nothing)' % (kind, want), path=g.describe_path(p))
      else:
        r_gate.ok('%s gated by token bucket' % kind, fn.loc(s.ast))
      # the gate must be re-evaluated for every operation: no path from the site back to itself without a gate
      rr2 = g.reach(g.after(s, normal_only=True), removed_nodes=gates, removed_edge=removed_edge, normal_only=True)
      if s in rr2:
        r_gate.violate('%s gate not per operation' % kind, fn, s.ast,
                       'a second database.%s() can follow the first without passing the bucket again' % kind)
      else:
        r_gate.ok('%s gate re-evaluated per operation' % kind, fn.loc(s.ast))
      for n in list(gates) + [x for x, _ in cond_gates]:
        for c in g.calls(n):
          if bucket_drain_call(c):
            buckets_used.setdefault(dotted(c.func.value), []).append(n)

  # ------------------------------------------------------------------ bucket identity
  r_id = check.rule('R-C20-bucket-identity', 2, 'the gate uses the bucket objects that shutdown re-rates')
  mod = fn.module
  global_buckets = [name for name in mod.globals
                    if any(t[0] == 'inst' and t[1].name == 'TokenBucket' for t in T.module_attr(mod.name, name))]
  r_id.require(len(global_buckets) >= 2, 'expected the update and create buckets as module globals of carbon.writer, '
               'found %s' % global_buckets)
  rebinders = [(f, rhs) for (m, name), lst in T.global_assigns.items() if m == mod.name and name in global_buckets
               for (f, rhs) in lst]
  aliases = []
  for name, nodes in buckets_used.items():
    if name in global_buckets:
      for n in nodes:
        rd = reaching_defs(g, name, n)
        if rd != [g.entry]:
          aliases.append((name, n))
    else:
      aliases.extend((name, n) for n in nodes)
  for name in global_buckets:
    reb = [f for (f, rhs) in rebinders if any(isinstance(x, ast.Global) and name in x.names
                                              for x in walk_no_nested(f.node, include_self=False))]
    if reb and aliases:
      f = reb[0]
      r_id.violate('%s rebound while aliased' % name, f, None,
                   '%s is rebound to a new object in %s while writeCachedDataPoints gates through a local alias (%s): '
                   'a pass in progress keeps using the old bucket with the old limits' % (
                     name, f.qualname, ', '.join(sorted({a for a, _ in aliases}))),
                   construct='global %s rebinding' % name)
    else:
      r_id.ok('%s: %s' % (name, 'never rebound after module initialisation' if not reb else
                          'rebound but never aliased by the gate'), mod.relpath)

  # ------------------------------------------------------------------ refill discipline
  r_ref = check.rule('R-C20-cap-and-clock', 2, 'every refill is capped at capacity and advances the clock on every path')
  r_chg = check.rule('R-C20-charge', 2, 'every grant charges its cost exactly once; refusals charge nothing')
  for mname, m in sorted(tb.methods.items()):
    if mname == '__init__':
      continue
    gm = cx.cfg(m)
    _refill_discipline(check, r_ref, m, gm)
  drain = tb.methods.get('drain')
  if drain is None:
    r_chg.cannot_decide('TokenBucket.drain not found')
  else:
    gd = cx.cfg(drain)
    cost = drain.params[1] if len(drain.params) > 1 else 'cost'
    charges = [n for n in gd.nodes if n.kind == 'stmt' and isinstance(n.ast, ast.AugAssign) and
               isinstance(n.ast.op, ast.Sub) and dotted(n.ast.target) == 'self._tokens' and
               isinstance(n.ast.value, ast.Name) and n.ast.value.id == cost]
    charges += [n for n in gd.nodes if n.kind == 'stmt' and isinstance(n.ast, ast.Assign) and
                any(dotted(t) == 'self._tokens' for t in n.ast.targets) and
                unparse(n.ast.value).replace(' ', '') == 'self._tokens-%s' % cost]
    rets = [n for n in gd.nodes if n.kind == 'stmt' and isinstance(n.ast, ast.Return)]
    for rn in rets:
      v = rn.ast.value
      if _is_true(v):
        rr = gd.reach([gd.entry], removed_nodes=set(charges), normal_only=True)
        if rn in rr:
          r_chg.violate('grant without charge', drain, rn.ast, 'drain() can return True on a path that does not '
                        'subtract the cost from the bucket')
        else:
          r_chg.ok('return True preceded by a charge', drain.loc(rn.ast))
      elif isinstance(v, ast.Constant) and v.value is False:
        before = [c for c in charges if rn in gd.reach(gd.after(c, normal_only=True), normal_only=True)]
        if before:
          r_chg.violate('refusal charged', drain, rn.ast, 'drain() can return False after subtracting the cost')
        else:
          r_chg.ok('return False charges nothing', drain.loc(rn.ast))
      else:
        r_chg.cannot_decide('drain() returns the non-constant `%s`' % (unparse(v) if v is not None else 'None'))
    dbl = [c for c in charges if any(c2 in gd.reach(gd.after(c, normal_only=True), normal_only=True) for c2 in charges)]
    if dbl:
      r_chg.violate('double charge', drain, dbl[0].ast, 'the cost can be subtracted twice for one grant')
    elif charges:
      r_chg.ok('no path charges twice', drain.loc())
  # setCapacityAndFillRate assigns the new limits from its parameters
  r_set = check.rule('R-C20-rerate', 2, 'setCapacityAndFillRate installs the new capacity and rate')
  sc = tb.methods.get('setCapacityAndFillRate')
  if sc is None:
    r_set.cannot_decide('TokenBucket.setCapacityAndFillRate not found')
  else:
    ps = sc.params[1:]
    for attr, p in zip(('capacity', 'fill_rate'), ps):
      ok = False
      for n in walk_no_nested(sc.node, include_self=False):
        if isinstance(n, ast.Assign) and any(dotted(t) == 'self.' + attr for t in n.targets):
          if p in {x.id for x in ast.walk(n.value) if isinstance(x, ast.Name)}:
            ok = True
      if ok:
        r_set.ok('self.%s <- %s' % (attr, p), sc.loc())
      else:
        r_set.violate('self.%s not updated' % attr, sc, None, 'setCapacityAndFillRate does not assign self.%s from its '
                      'parameter `%s`' % (attr, p), construct='self.%s = %s' % (attr, p))

  init = tb.methods.get('__init__')
  if init is not None and sc is not None:
    # the limits: the parameters __init__ shares with setCapacityAndFillRate (an injected clock or a name is not a limit)
    ps = (set(init.params[1:]) & set(sc.params[1:])) or set(init.params[1:3])
    derived = {}
    changed = True
    srcs = set(ps)
    while changed:
      changed = False
      for n in walk_no_nested(init.node, include_self=False):
        if isinstance(n, ast.Assign):
          names = {x.id for x in ast.walk(n.value) if isinstance(x, ast.Name)} | \
                  {dotted(x) for x in ast.walk(n.value) if isinstance(x, ast.Attribute) and dotted(x)}
          if names & srcs:
            for t in n.targets:
              d = dotted(t)
              if d and d.startswith('self.') and d not in derived:
                derived[d] = n
                srcs.add(d)
                changed = True
    reassigned = {dotted(t) for n in walk_no_nested(sc.node, include_self=False) if isinstance(n, (ast.Assign, ast.AugAssign))
                  for t in (n.targets if isinstance(n, ast.Assign) else [n.target])}
    for d, n in sorted(derived.items()):
      used_elsewhere = any(isinstance(x, ast.Attribute) and dotted(x) == d and isinstance(x.ctx, ast.Load)
                           for m_ in tb.methods.values() if m_ not in (init, sc) for x in ast.walk(m_.node))
      if d in reassigned or not used_elsewhere:
        r_set.ok('%s (derived from the limits) is refreshed by setCapacityAndFillRate' % d, sc.loc())
      else:
        r_set.violate('%s goes stale when the limits change' % d, sc, None, '%s is computed from the capacity/fill rate in __init__ '
                      '(`%s`) and used by other methods, but setCapacityAndFillRate does not recompute it: after the limits are changed '
                      'at shutdown the bucket keeps waiting/granting by the old rate' % (d, short(n)), construct='%s not refreshed' % d)

  # ------------------------------------------------------------------ the only run-time change of the limits is the configured one
  from ..rulelib import ValueNumbers
  from ..paths import mentions
  for f in check.repo.all_functions():
    if f.module.name.startswith('carbon.tests'):
      continue
    for c in [n for n in walk_no_nested(f.node, include_self=False) if isinstance(n, ast.Call)]:
      if isinstance(c.func, ast.Attribute) and c.func.attr == 'setCapacityAndFillRate' and (f.cls is None or f.cls.name != 'TokenBucket'):
        vn_f = ValueNumbers(cx, f)
        for a in c.args[:2]:
          t_ = vn_f.term(a, c)
          configured = isinstance(t_, tuple) and t_[0] in ('attr', 'sub', 'field') and t_[-1] == 'MAX_UPDATES_PER_SECOND_ON_SHUTDOWN' and \
            not mentions(t_, lambda x: isinstance(x, tuple) and x[0] in ('meth', 'call'))
          if configured:
            r_set.ok('limits changed at run time to settings.MAX_UPDATES_PER_SECOND_ON_SHUTDOWN only', f.loc(c))
          else:
            r_set.violate('limits changed to something not configured', f, c, '`%s` re-rates a bucket with `%s`, which is not the '
                          'configured settings.MAX_UPDATES_PER_SECOND_ON_SHUTDOWN read directly (absent = no change): with a fallback '
                          'value the create bucket is re-rated too, to a limit nobody configured' % (short(c), unparse(a)))
  # ------------------------------------------------------------------ a blocking acquisition waits until the tokens are there
  dr = tb.methods.get('drain')
  if dr is not None:
    gd_ = cx.cfg(dr)
    sleeps = nodes_calling(gd_, lambda c: (dotted(c.func) or '').split('.')[-1] == 'sleep' and len(c.args) == 1)
    vn_d = ValueNumbers(cx, dr)
    for sn in sleeps:
      call = [c for c in gd_.calls(sn) if (dotted(c.func) or '').split('.')[-1] == 'sleep'][0]
      t_ = vn_d.term(call.args[0], sn)
      capped = mentions(t_, lambda x: isinstance(x, tuple) and x[0] == 'call' and x[1] in ('min', 'max'))
      uses_rate = mentions(t_, lambda x: isinstance(x, tuple) and x[0] == 'attr' and x[-1] == 'fill_rate')
      uses_tokens = mentions(t_, lambda x: isinstance(x, tuple) and x[0] == 'attr' and x[-1] == '_tokens')
      if uses_rate and uses_tokens and not capped:
        r_chg = r_set
        r_set.ok('blocking drain sleeps for the whole deficit / fill_rate', dr.loc(call))
      else:
        r_set.violate('blocking drain does not wait for its tokens', dr, call, 'the blocking branch of drain() sleeps for `%s`, not for the '
                      'time the missing tokens take to accrue (deficit / fill_rate, uncapped): with a rate below one token per cap '
                      'interval every blocked grant returns early and the long-run rate exceeds the configured one' % unparse(call.args[0]))

  # ------------------------------------------------------------------ config
  r_cfg = check.rule('R-C20-config', 2, 'buckets built from MAX_CREATES_PER_MINUTE/60 and MAX_UPDATES_PER_SECOND')
  _config_rule(cx, r_cfg, mod)
  rule_rerate_optin(check, cx, check.rule('R-C20-rerate-optin', 1, 'buckets are re-rated at run time only from a setting without built-in default (the operator configured it)'))


def _config_rule(cx, r_cfg, mod):
  """The module body (helpers spliced in, sa/inline.py) is evaluated to shape terms; the two arguments of the
  TokenBucket(...) call assigned to each bucket global are compared with the setting: capacity = the limit,
  fill rate = the limit per second (limit / 60 for the per-minute create limit)."""
  from ..symeval import SymEval, show, alternatives
  se = SymEval(cx)
  body = [st for st in mod.tree.body if not isinstance(st, (ast.FunctionDef, ast.AsyncFunctionDef, ast.ClassDef, ast.Import, ast.ImportFrom))]
  out = []
  se.run(body, {}, None, lambda c: 'bucket' if dotted(c.func) in ('TokenBucket', 'util.TokenBucket', 'carbon.util.TokenBucket') else None, out)
  by_call = {id(o[1]): o for o in out}

  def strip(t):
    while isinstance(t, tuple) and t[0] == 'call' and t[1] == 'float' and len(t) == 3:
      t = t[2]
    return t

  for name, setting, per in (('CREATE_BUCKET', 'MAX_CREATES_PER_MINUTE', 60), ('UPDATE_BUCKET', 'MAX_UPDATES_PER_SECOND', 1)):
    vals = [v for v in mod.globals.get(name, []) if isinstance(v, ast.Call) and id(v) in by_call]
    if not vals:
      r_cfg.cannot_decide('%s is not built by a TokenBucket(...) call at module level' % name)
      continue

    def is_setting(t):
      t = strip(t)
      return isinstance(t, tuple) and t[0] in ('attr', 'field') and t[-1] == setting and 'settings' in show(t)

    for call in vals:
      o = by_call[id(call)]
      args = list(o[2])
      kws = dict(o[3]) if isinstance(o[3], dict) else dict(o[3] or ())
      cap = args[0] if args else kws.get('capacity')
      rate = args[1] if len(args) > 1 else kws.get('fill_rate')
      why = ''
      if cap is None or rate is None:
        why = 'TokenBucket is not given a capacity and a fill rate'
      elif not all(is_setting(t) for t in alternatives(cap)):
        why = 'the capacity `%s` is not settings.%s' % (show(cap), setting)
      else:
        for r in alternatives(rate):
          r = strip(r)
          if isinstance(r, tuple) and r[0] == 'binop' and r[1] == 'Div' and is_setting(r[2]) and strip(r[3]) in (('const', per), ('const', float(per))):
            continue
          if per == 1 and is_setting(r):
            continue
          why = 'the fill rate `%s` is not settings.%s%s' % (show(r), setting, ' / 60 (tokens per second)' if per == 60 else '')
      if not why:
        r_cfg.ok('%s = TokenBucket(%s, %s)' % (name, show(cap), show(rate)), '%s:%d' % (mod.relpath, call.lineno))
      else:
        r_cfg.violate('%s misconfigured' % name, 'carbon.writer:<module>', None, why, construct='%s = %s' % (name, unparse(call)))


def _refill_discipline(check, rule, m, g):
  """Forward slice from reads of self.timestamp to writes of self._tokens (data + lexical control)."""
  stmts = [n for n in g.nodes if n.ast is not None and n.kind in ('stmt', 'test')]
  reads_ts = [n for n in stmts if any(dotted(x) == 'self.timestamp' and isinstance(x.ctx, ast.Load)
                                      for x in walk_no_nested(n.ast) if isinstance(x, ast.Attribute))]
  if not reads_ts:
    return
  tainted = set()
  changed = True
  body_stmts = [s for s in walk_no_nested(m.node, include_self=False) if isinstance(s, ast.stmt)]

  def expr_tainted(e):
    for x in walk_no_nested(e):
      if isinstance(x, ast.Attribute) and dotted(x) == 'self.timestamp' and isinstance(x.ctx, ast.Load):
        return True
      if isinstance(x, ast.Name) and x.id in tainted and isinstance(x.ctx, ast.Load):
        return True
    return False
  while changed:
    changed = False
    for s in body_stmts:
      if isinstance(s, ast.Assign) and expr_tainted(s.value):
        for t in s.targets:
          if isinstance(t, ast.Name) and t.id not in tainted:
            tainted.add(t.id)
            changed = True
  def controlled(s):
    p = getattr(s, '_parent', None)
    while p is not None and p is not m.node:
      if isinstance(p, (ast.If, ast.While)) and expr_tainted(p.test):
        return True
      p = getattr(p, '_parent', None)
    return False
  refills = []
  for s in body_stmts:
    tgt = None
    if isinstance(s, ast.Assign) and any(dotted(t) == 'self._tokens' for t in s.targets):
      tgt = s
    elif isinstance(s, ast.AugAssign) and dotted(s.target) == 'self._tokens':
      tgt = s
    if tgt is not None and (expr_tainted(tgt.value) or controlled(tgt)):
      refills.append(tgt)
  if not refills:
    return
  # cap
  for s in refills:
    v = s.value
    txt = unparse(v).replace(' ', '')
    capped = (isinstance(s, ast.Assign) and ((isinstance(v, ast.Call) and isinstance(v.func, ast.Name) and
                                              v.func.id == 'min' and 'self.capacity' in txt) or txt == 'self.capacity'))
    if not capped:
      # accept an explicit clamp that every path to the exit passes
      nodes = g.nodes_of(s)
      clamp = [n for n in g.nodes if n.kind == 'stmt' and isinstance(n.ast, ast.Assign) and
               any(dotted(t) == 'self._tokens' for t in n.ast.targets) and
               unparse(n.ast.value).replace(' ', '') in ('self.capacity', 'min(self.capacity,self._tokens)',
                                                         'min(self._tokens,self.capacity)')]
      ok = bool(nodes) and bool(clamp) and g.exit not in g.reach(g.after(nodes[0]), removed_nodes=set(clamp), normal_only=True)
      if not ok and nodes:
        # guarded by a comparison against the capacity (the saturating case is handled in the other branch)
        cap_tests = {n for n in g.nodes if n.kind == 'test' and 'self.capacity' in unparse(n.ast).replace(' ', '')}
        ok = bool(cap_tests) and nodes[0] not in g.reach([g.entry], removed_nodes=cap_tests, normal_only=True)
      if not ok:
        rule.violate('refill not capped', m, s, 'a time-based refill of the bucket is not capped at self.capacity: idle '
                     'time accumulates tokens beyond the burst size')
        continue
    rule.ok('refill capped at capacity', m.loc(s), short(s))
  # clock: from every statement that reads self.timestamp and feeds a refill, every normal path to the exit
  # passes `self.timestamp = <time value>`
  clock = [n for n in g.nodes if n.kind == 'stmt' and isinstance(n.ast, ast.Assign) and
           any(dotted(t) == 'self.timestamp' for t in n.ast.targets)]
  for src in reads_ts:
    if src in clock:
      continue
    feeds = False
    if src.kind == 'stmt' and isinstance(src.ast, ast.Assign):
      feeds = any(isinstance(t, ast.Name) and t.id in tainted for t in src.ast.targets) or \
        any(dotted(t) == 'self._tokens' for t in src.ast.targets)
    elif src.kind == 'test':
      feeds = True
    elif src.kind == 'stmt' and isinstance(src.ast, ast.AugAssign) and dotted(src.ast.target) == 'self._tokens':
      feeds = True
    if not feeds:
      continue
    # does this source actually feed a refill (data or control)?
    names = {t.id for t in getattr(src.ast, 'targets', []) if isinstance(t, ast.Name)}
    grew = bool(names)
    while grew:             # names computed from them, transitively
      grew = False
      for st in body_stmts:
        if isinstance(st, ast.Assign) and names & {x.id for x in ast.walk(st.value) if isinstance(x, ast.Name)}:
          for t in st.targets:
            if isinstance(t, ast.Name) and t.id not in names:
              names.add(t.id)
              grew = True
    used = False
    for s in refills:
      if expr_tainted(s.value) and (names & {x.id for x in ast.walk(s.value) if isinstance(x, ast.Name)} or not names):
        used = True
      if controlled(s):
        used = True
    # transitive: a name derived from src's names used by a refill
    if not used:
      continue
    rr = g.reach(g.after(src, normal_only=True), removed_nodes=set(clock), normal_only=True)
    if g.exit in rr:
      p = g.path(g.after(src, normal_only=True), g.exit, removed_nodes=set(clock), normal_only=True)
      rule.violate('clock not advanced', m, src.ast,
                   'elapsed time since self.timestamp is credited here, but a path to the return does not set '
                   'self.timestamp: the same interval is credited again by the next refill', path=g.describe_path(p))
    else:
      rule.ok('clock advanced after the credit on every path', m.loc(src.ast), short(src.ast))


def rule_rerate_optin(check, cx, rule):
  """the limits an operator configured are changed at run time only on the operator's own say-so: every setting a caller of
  setCapacityAndFillRate() takes the new rate from has NO built-in default in carbon.conf, so its presence means it was
  configured.  With a default (MAX_UPDATES_PER_SECOND_ON_SHUTDOWN=1000) every shutdown re-rates both buckets to 1000/s although
  MAX_UPDATES_PER_SECOND / MAX_CREATES_PER_MINUTE asked for less."""
  from ..rulelib import conf_defaults, local_sources
  defaults = conf_defaults(check.repo)
  if not rule.require(defaults is not None, 'carbon.conf defaults table not found'):
    return
  n = 0
  for fn in check.repo.all_functions():
    if fn.module.name == 'carbon.util' or isinstance(fn.node, ast.Lambda):
      continue
    calls = [c for c in walk_no_nested(fn.node, include_self=False) if isinstance(c, ast.Call) and isinstance(c.func, ast.Attribute) and
             c.func.attr == 'setCapacityAndFillRate']
    if not calls:
      continue
    opts = set()
    for c in calls:
      for a in list(c.args) + [k.value for k in c.keywords]:
        exprs = [a]
        for x in ast.walk(a):
          if isinstance(x, ast.Name):
            exprs += [s for s in local_sources(fn, x.id) if isinstance(s, ast.AST)]
        for e in exprs:
          opts |= {x.attr for x in ast.walk(e) if isinstance(x, ast.Attribute) and isinstance(x.value, ast.Name) and x.value.id == 'settings'}
          opts |= {x.slice.value for x in ast.walk(e) if isinstance(x, ast.Subscript) and isinstance(x.value, ast.Name) and
                   x.value.id == 'settings' and isinstance(x.slice, ast.Constant)}
    for o in sorted(opts):
      n += 1
      if o in defaults:
        rule.violate('run-time re-rating without being configured', 'carbon.conf:<module>', defaults[o], '%s() re-rates the token buckets '
                     'from settings.%s, and carbon.conf gives that option a built-in default (`%s`): the branch that leaves the '
                     'configured limits alone when the option is absent is dead, so the configured MAX_UPDATES_PER_SECOND / '
                     'MAX_CREATES_PER_MINUTE stop holding as soon as it runs' % (fn.qualname, o, short(defaults[o], 30)),
                     construct='defaults[%s]' % o)
      else:
        rule.ok('%s re-rates from settings.%s, which has no built-in default (operator opt-in)' % (fn.qualname, o), fn.loc(calls[0]))
  rule.require(n >= 1, 'no caller of setCapacityAndFillRate() taking its rate from a setting found')
