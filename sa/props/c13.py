"""C13 - The default unpickler cannot be made to load or call arbitrary globals.

Decided: single door to unpickling; every global is returned only past both
allow-list membership checks on the exact (module, name) pair and is looked up
by exactly that pair; the allow-list is a frozen literal within the documented
one; the safe class really hooks find_class.  Trusted: CPython's unpickler
resolves every global through find_class.
"""
import ast

from ..model import dotted, unparse, norm, walk_no_nested
from ..paths import PathExec, static_truth
from ..symeval import show
from ..rulelib import Ctx, reaching_defs, value_assigned, short, resolve_copies

DOCUMENTED = {'copy_reg': {'_reconstructor'}, '__builtin__': {'object'}}
UNPICKLE_NAMES = {'loads', 'load', 'Unpickler', '_Unpickler', '_loads', '_load'}
PICKLE_MODULES = {'pickle', 'cPickle', '_pickle', 'six.moves.cPickle', 'dill', 'marshal', 'shelve'}


def _is_pickle_module(T, e, module, fn):
  for t in T.expr_types(e, module, fn):
    if t[0] == 'mod' and t[1] in PICKLE_MODULES:
      return True
  return False


def run(check):
  cx = Ctx(check)
  repo, T = check.repo, check.types
  check.explanation = (
    'Who-may-deserialise (every use of pickle.loads/load/Unpickler or of the pickle module as an unpickler object in the '
    'repository is inside SafeUnpickler or is the value get_unpickler returns on its `insecure` branch, and both '
    'pickle-speaking protocols take their unpickler from get_unpickler(insecure=settings.USE_INSECURE_UNPICKLER), default '
    'False); dominance in find_class (every return and the import are dominated by the pass outcome of `module in '
    'PICKLE_SAFE`, every return also by `name in PICKLE_SAFE[module]` on the *parameters themselves*, and what is returned '
    'is getattr(sys.modules[module], name) for exactly those parameters); the allow-list is a literal dict of literal sets, '
    'never written elsewhere and within the documented list. Universality over all pickle programs then follows from the '
    'trusted fact that CPython resolves every global opcode through find_class.')
  check.not_decided = ['CPython\'s unpickler itself (that GLOBAL/STACK_GLOBAL/INST/OBJ/NEWOBJ/REDUCE only reach objects obtained '
                       'through find_class)']
  check.trusted_base = ['CPython pickle.Unpickler']
  util = repo.module('carbon.util')

  # ------------------------------------------------------------------ single door
  r_d = check.rule('R-C13-single-door', 4, 'unpickling happens only behind get_unpickler / SafeUnpickler')
  gu = cx.fn('carbon.util', 'get_unpickler')
  safe_classes = util.classes.get('SafeUnpickler', [])
  r_d.require(safe_classes, 'carbon.util.SafeUnpickler not found')
  uses = 0
  for m in repo.modules.values():
    pk_names = {name for name in m.imports
                if any(t[0] == 'mod' and t[1] in PICKLE_MODULES for t in T.module_attr(m.name, name))}
    if not pk_names:
      continue
    for n in ast.walk(m.tree):
      if not (isinstance(n, ast.Name) and n.id in pk_names and isinstance(n.ctx, ast.Load)):
        continue
      f = repo.enclosing_function(m, n)
      if f is not None and n.id in f.params:
        continue
      par = getattr(n, '_parent', None)
      where = f.key if f is not None else m.name + ':<module>'
      if isinstance(par, ast.Attribute) and par.value is n:
        if par.attr not in UNPICKLE_NAMES:
          continue        # pickle.dumps, pickle.UnpicklingError ...
        uses += 1
        inside_safe = f is not None and f.cls is not None and f.cls.name == 'SafeUnpickler'
        gp = getattr(par, '_parent', None)
        cls_base = isinstance(gp, ast.ClassDef) and gp.name == 'SafeUnpickler' and par in gp.bases
        if inside_safe or cls_base:
          r_d.ok('pickle.%s used inside SafeUnpickler' % par.attr, '%s:%d' % (m.relpath, n.lineno))
        else:
          r_d.violate('raw unpickler', f if f is not None else where, par, '`%s` is used in %s, outside SafeUnpickler: data '
                      'reaching it is unpickled without the allow-list (arbitrary globals can be imported and called)'
                      % (unparse(par), where))
        continue
      # the pickle module itself handed out as an unpickler object
      up = par
      while isinstance(up, ast.IfExp):
        up = getattr(up, '_parent', None)
      if f is gu and isinstance(up, ast.Return):
        continue          # judged by R-C13-guarded-return
      if f is None and isinstance(up, ast.Dict):
        # a module-level lookup table: fine if get_unpickler is its only reader (its entries are judged there, by cases)
        asg = getattr(up, '_parent', None)
        tname = asg.targets[0].id if isinstance(asg, ast.Assign) and len(asg.targets) == 1 and isinstance(asg.targets[0], ast.Name) else None
        readers = {repo.enclosing_function(m, x) for x in ast.walk(m.tree) if isinstance(x, ast.Name) and x.id == tname and
                   isinstance(x.ctx, ast.Load)} if tname else {None}
        if tname and readers and all(r_ is not None and r_.key == gu.key for r_ in readers):
          continue
      r_d.violate('pickle module used as an unpickler object', f if f is not None else where, par if par is not None else n,
                  'the pickle module is passed around as a value in %s (`%s`): whoever calls .loads on it bypasses the '
                  'allow-list' % (where, short(par) if par is not None else n.id))
  # who obtains an unpickler, and how
  getters = 0
  for f in repo.all_functions():
    for c in [n for n in walk_no_nested(f.node, include_self=False) if isinstance(n, ast.Call)]:
      if cx.calls_function(c, f, 'carbon.util', 'get_unpickler'):
        getters += 1
        arg = None
        if c.args:
          arg = c.args[0]
        for kw in c.keywords:
          if kw.arg == 'insecure':
            arg = kw.value
        vals = resolve_copies(f, arg) if arg is not None else []
        if arg is None:
          r_d.ok('%s: get_unpickler() with the secure default' % f.qualname, f.loc(c))
        elif vals and all(isinstance(v, ast.AST) and ((dotted(v) or '').endswith('settings.USE_INSECURE_UNPICKLER') or
                                                      (isinstance(v, ast.Constant) and v.value in (False, None, 0))) for v in vals):
          r_d.ok('%s: insecure=settings.USE_INSECURE_UNPICKLER (or False)' % f.qualname, f.loc(c))
        else:
          r_d.violate('insecure unpickler requested', f, c, 'get_unpickler is called with insecure=`%s`, not with the '
                      'USE_INSECURE_UNPICKLER setting' % unparse(arg))
  r_d.require(getters >= 2, 'expected the pickle listener and the cache query port to call get_unpickler, found %d call(s)' % getters)
  # every .loads() on wire data in the protocol modules goes through an attribute assigned from get_unpickler
  for modname in ('carbon.protocols', 'carbon.amqp_listener', 'carbon.protobuf'):
    m = repo.modules.get(modname)
    if m is None:
      continue
    for f in m.all_functions():
      for c in [n for n in walk_no_nested(f.node, include_self=False) if isinstance(n, ast.Call)]:
        if isinstance(c.func, ast.Attribute) and c.func.attr in ('loads', 'load') and not isinstance(c.func.value, ast.Name):
          recv = c.func.value
          if isinstance(recv, ast.Attribute) and isinstance(recv.value, ast.Name) and recv.value.id == 'self' and f.cls is not None:
            srcs = [rhs for (am, af, tgt, rhs) in T.attr_assigns.get(recv.attr, [])
                    if af is not None and af.cls is not None and repo.is_subclass(f.cls, af.cls) or
                    (af is not None and af.cls is f.cls)]
            srcs_f = [(af, rhs) for (am, af, tgt, rhs) in T.attr_assigns.get(recv.attr, [])
                      if af is not None and af.cls is not None and repo.is_subclass(f.cls, af.cls) or
                      (af is not None and af.cls is f.cls)]
            good = bool(srcs_f) and all(
              isinstance(r, ast.AST) and isinstance(r, ast.Call) and (dotted(r.func) or '').split('.')[-1] == 'get_unpickler'
              for (af, rhs) in srcs_f for r in resolve_copies(af, rhs))
            if good:
              r_d.ok('%s: %s comes from get_unpickler()' % (f.qualname, unparse(recv)), f.loc(c))
            else:
              r_d.violate('unpickler of unknown origin', f, c, '`%s` is not (only) assigned from get_unpickler(...)' % unparse(recv))
  conf = repo.module('carbon.conf')
  dflt = None
  for v in conf.globals.get('defaults', []):
    if isinstance(v, ast.Call):
      for kw in v.keywords:
        if kw.arg == 'USE_INSECURE_UNPICKLER':
          dflt = kw.value
  if isinstance(dflt, ast.Constant) and dflt.value is False:
    r_d.ok('USE_INSECURE_UNPICKLER defaults to False', '%s:%d' % (conf.relpath, dflt.lineno))
  else:
    r_d.violate('insecure by default', 'carbon.conf:<module>', dflt, 'the default of USE_INSECURE_UNPICKLER is `%s`'
                % (unparse(dflt) if dflt is not None else 'missing'), construct='USE_INSECURE_UNPICKLER default')

  # the setting that selects the unpickler is a real boolean: a configuration value that is not a valid boolean spelling must not
  # survive as a (truthy) string
  try:
    rf = cx.fn('carbon.conf', 'Settings.readFrom')
  except Exception:
    rf = None
  if rf is None:
    r_d.cannot_decide('carbon.conf.Settings.readFrom not found')
  else:
    check.analysed(rf)
    grf = cx.cfg(rf)
    stores = [n for n in grf.nodes if n.kind == 'stmt' and isinstance(n.ast, ast.Assign) and any(
      isinstance(t, ast.Subscript) and isinstance(t.value, ast.Name) and rf.params and t.value.id == rf.params[0] for t in n.ast.targets)]
    if not stores:
      r_d.cannot_decide('Settings.readFrom: the statement that stores a value (self[key] = value) was not found')
    else:
      px = PathExec(cx, rf, unroll=0, follow_exceptions=True)
      bad = ok_seen = None
      for hit in px.run(set(stores)):
        is_bool = any(pol == 'T' and isinstance(t, tuple) and t[0] == 'cmp' and t[1] == 'Is' and ('param', 'bool') in (t[2], t[3])
                      for pol, t, a, n in hit.conds if pol in ('T', 'F'))
        if not is_bool:
          continue
        v = hit.term(hit.node.ast.value, px)
        if isinstance(v, tuple) and v[0] == 'meth' and v[1] == 'getboolean':
          ok_seen = hit
        else:
          bad = (hit, v)
      if bad is not None:
        r_d.violate('boolean setting keeps its raw text', rf, bad[0].node.ast, 'for a setting whose default is a bool, Settings.readFrom can '
                    'store `%s` instead of parser.getboolean(...): an unparsable spelling such as `False ; comment` stays a non-empty, '
                    'truthy string, and USE_INSECURE_UNPICKLER = <that> selects the plain pickle module' % show(bad[1])[:80])
      elif ok_seen is not None:
        r_d.ok('boolean settings are stored as parser.getboolean(...) or the read fails', rf.loc(ok_seen.node.ast))
      else:
        r_d.cannot_decide('Settings.readFrom: no path for bool-typed settings recognised')

  # ------------------------------------------------------------------ guarded returns
  r_g = check.rule('R-C13-guarded-return', 5, 'globals are returned only past both allow-list checks, by exactly the checked names')
  g = cx.cfg(gu)
  p_ins = gu.params[0] if gu.params else 'insecure'
  def insecure_true(a, lab, b):
    return isinstance(lab, tuple) and lab[0] == 'T' and isinstance(lab[1], ast.Name) and lab[1].id == p_ins

  def judge_return(rn, v, under_param_true):
    if v is not None and isinstance(v, ast.IfExp):
      t = v.test
      neg = False
      while isinstance(t, ast.UnaryOp) and isinstance(t.op, ast.Not):
        neg, t = not neg, t.operand
      is_param = isinstance(t, ast.Name) and t.id == p_ins and reaching_defs(g, p_ins, rn) == [g.entry]
      judge_return(rn, v.orelse if neg else v.body, under_param_true or is_param)
      judge_return(rn, v.body if neg else v.orelse, under_param_true)
      return
    if v is not None and _is_pickle_module(T, v, gu.module, gu):
      ok = under_param_true or (rn not in g.reach([g.entry], normal_only=True, removed_edge=insecure_true) and
                                reaching_defs(g, p_ins, rn) == [g.entry])
      if ok:
        r_g.ok('get_unpickler returns the raw pickle module only when `insecure` is true', gu.loc(rn.ast))
      else:
        r_g.violate('raw pickle returned unconditionally', gu, rn.ast, 'get_unpickler can return the raw pickle module although '
                    '`insecure` is false')
    elif v is not None and dotted(v) == 'SafeUnpickler':
      r_g.ok('get_unpickler returns SafeUnpickler otherwise', gu.loc(rn.ast))
    else:
      r_g.violate('unknown unpickler returned', gu, rn.ast, 'get_unpickler returns `%s`' % (unparse(v) if v is not None else 'None'))
  # decided by cases: the value returned when `insecure` is false must be SafeUnpickler; when it is true, the pickle module
  # or SafeUnpickler (PathExec with the parameter assumed; a lookup table indexed by bool(insecure) is evaluated)
  pk_names = {name for name in gu.module.imports
              if any(t_[0] == 'mod' and t_[1] in PICKLE_MODULES for t_ in T.module_attr(gu.module.name, name))}
  rets_gu = [n for n in g.nodes if n.kind == 'stmt' and isinstance(n.ast, ast.Return)]
  for assumed in (False, True):
    pxg = PathExec(cx, gu, unroll=0, follow_exceptions=False, assume={('param', p_ins): ('const', assumed)})
    outs = set()
    for hit in pxg.run(rets_gu):
      v = hit.node.ast.value
      if isinstance(v, ast.IfExp):
        tt = static_truth(pxg.test_term(v.test, hit.env))
        v = v.body if tt is True else (v.orelse if tt is False else v)
      outs.add((hit.node, hit.term(v, pxg) if v is not None else ('const', None)))
    for rn, t_ in sorted(outs, key=lambda x: (x[0].lineno, repr(x[1]))):
      if t_ == ('param', 'SafeUnpickler'):
        r_g.ok('insecure=%s: get_unpickler returns SafeUnpickler' % assumed, gu.loc(rn.ast))
      elif isinstance(t_, tuple) and t_[0] == 'param' and t_[1] in pk_names:
        if assumed:
          r_g.ok('get_unpickler returns the raw pickle module only when `insecure` is true', gu.loc(rn.ast))
        else:
          r_g.violate('raw pickle returned unconditionally', gu, rn.ast, 'get_unpickler can return the raw pickle module although '
                      '`insecure` is false')
      else:
        r_g.violate('unknown unpickler returned', gu, rn.ast, 'with insecure=%s get_unpickler returns `%s`' % (assumed, show(t_)))
    if not outs:
      r_g.violate('no unpickler returned', gu, None, 'with insecure=%s get_unpickler returns nothing' % assumed,
                  construct='get_unpickler(insecure=%s)' % assumed)
  variants = []
  for sc in safe_classes:
    fc = sc.methods.get('find_class')
    if fc is None:
      r_g.violate('find_class missing', sc.key, None, 'SafeUnpickler (variant under `%s`) has no find_class' % sc.guard,
                  construct='def find_class')
      continue
    variants.append((sc, fc))
    check.analysed(fc)
    gf = cx.cfg(fc)
    params = fc.params[1:] if fc.params and fc.params[0] in ('self', 'cls') else fc.params
    if len(params) != 2:
      r_g.cannot_decide('find_class signature is not (module, name)')
      continue
    pm, pn = params
    own = fc.params[0]
    label = 'find_class[%s]' % (sc.guard or 'py3')
    PM, PN = ('param', pm), ('param', pn)
    safe_terms = _allowlist_terms(sc, own)

    def is_safe(t):
      return t in safe_terms

    def names_of_module(t):
      """t denotes PICKLE_SAFE[module] / PICKLE_SAFE.get(module) for the module parameter"""
      if not isinstance(t, tuple):
        return False
      if t[0] == 'sub' and is_safe(t[1]) and t[2] == PM:
        return True
      if t[0] == 'meth' and t[1] == 'get' and is_safe(t[2]) and t[3:] in ((PM,), (PM, ('const', None))):
        return True
      if t[0] == 'call' and t[1].endswith('.get') and t[2:] in ((PM,), (PM, ('const', None))) and \
         any(s_[0] == 'attr' and t[1] == '%s.%s.get' % (s_[1][1], s_[2]) for s_ in safe_terms if s_[0] == 'attr' and s_[1][0] == 'param'):
        return True
      return False

    def passed(hit):
      """(module check passed, name check passed) on this path"""
      mod_ok = name_ok = False
      for pol, t, a, n in hit.conds:
        if pol not in ('T', 'F') or not isinstance(t, tuple):
          continue
        if t[0] in ('in', 'notin'):
          isin = (t[0] == 'in') == (pol == 'T')
          if t[1] == PM and is_safe(t[2]) and isin:
            mod_ok = True
          if t[1] == PN and names_of_module(t[2]) and isin:
            name_ok = True
        elif t[0] == 'cmp' and t[1] in ('Is', 'IsNot', 'Eq', 'NotEq') and t[3] == ('const', None) and names_of_module(t[2]):
          # names = PICKLE_SAFE.get(module); names is not None  <=>  module in PICKLE_SAFE
          notnone = (t[1] in ('IsNot', 'NotEq')) == (pol == 'T')
          if notnone:
            mod_ok = True
        elif t[0] == 'truth' and names_of_module(t[1]) and pol == 'T':
          mod_ok = True
      return mod_ok, name_ok

    px = PathExec(cx, fc)
    rets = [n for n in gf.nodes if n.kind == 'stmt' and isinstance(n.ast, ast.Return)]
    imps = [n for n in gf.nodes if any((isinstance(c.func, ast.Name) and c.func.id in ('__import__', 'import_module')) or
                                       (dotted(c.func) or '').endswith('import_module') for c in gf.calls(n))]
    MODS = (('sub', ('attr', ('param', 'sys'), 'modules'), PM), ('call', '__import__', PM), ('call', 'importlib.import_module', PM),
            ('call', 'import_module', PM))
    seen_ret = 0
    for hit in px.run(set(rets) | set(imps)):
      mod_ok, name_ok = passed(hit)
      n = hit.node
      if n in imps and not mod_ok:
        c = [c for c in gf.calls(n) if 'import' in unparse(c.func)][0]
        r_g.violate('%s imports an unchecked module' % label, fc, c, 'find_class imports `%s` before the module passed the '
                    'allow-list check' % unparse(c))
      elif n in imps and n not in rets:
        c = [c for c in gf.calls(n) if 'import' in unparse(c.func)][0]
        arg = hit.term(c.args[0], px) if c.args else None
        if arg == PM:
          r_g.ok('%s: import only after the module check' % label, fc.loc(c))
        else:
          r_g.violate('%s imports something else than the checked module' % label, fc, c, 'find_class imports `%s`, which is not the '
                      '`%s` parameter that passed the allow-list' % (unparse(c), pm))
      if n not in rets:
        continue
      seen_ret += 1
      if not (mod_ok and name_ok):
        r_g.violate('%s returns an unchecked global' % label, fc, n.ast, 'find_class can return a global without both '
                    'allow-list membership checks having passed on the module and name *parameters* (module check: %s, name '
                    'check: %s)' % (mod_ok, name_ok))
        continue
      r_g.ok('%s: return only past `module in PICKLE_SAFE` and `name in PICKLE_SAFE[module]`' % label, fc.loc(n.ast))
      t = hit.term(n.ast.value, px) if n.ast.value is not None else ('const', None)
      if isinstance(t, tuple) and t[0] == 'call' and t[1] == 'getattr' and len(t) == 4 and t[3] == PN and t[2] in MODS:
        r_g.ok('%s: returns getattr(sys.modules[module], name) for the checked pair' % label, fc.loc(n.ast))
      else:
        r_g.violate('%s returns something else than the checked global' % label, fc, n.ast, 'find_class returns `%s`: not '
                    'getattr(sys.modules[module], name) of exactly the (module, name) that passed the allow-list (e.g. a dotted '
                    'path walked attribute by attribute reaches object.__subclasses__)' % show(t))
    if px.truncated:
      r_g.cannot_decide('%s: too many paths' % label)
    if not seen_ret:
      r_g.violate('%s never returns a global' % label, fc, None, 'no path through find_class returns', construct='return getattr')
    # a path that falls off the end returns None instead of rejecting
    for hit in px.run([gf.exit]):
      last = [x for x in hit.trail if x.ast is not None]
      if last and not isinstance(last[-1].ast, ast.Return):
        r_g.violate('%s: failed check does not reject' % label, fc, last[-1].ast, 'find_class can end without returning a checked '
                    'global or raising UnpicklingError')
        break
  if len(variants) == 2:
    a, b = variants
    na = [norm(s) for s in a[1].node.body]
    nb = [norm(s) for s in b[1].node.body]
    if [x.replace('cls.', 'self.') for x in na] == [x.replace('cls.', 'self.') for x in nb]:
      r_g.ok('sibling agreement: both SafeUnpickler.find_class variants are the same code', a[1].loc())
    else:
      check.notes.append('the two SafeUnpickler.find_class variants differ textually; each was checked on its own')

  # ------------------------------------------------------------------ allow-list
  r_a = check.rule('R-C13-allowlist-frozen', 2, 'PICKLE_SAFE is a literal, never modified, within the documented allow-list')
  alias_names = {'PICKLE_SAFE'}
  for sc in safe_classes:
    lit = sc.attrs.get('PICKLE_SAFE')
    if isinstance(lit, ast.Name):
      # the class attribute is bound to a module-level literal: judge that literal (and watch its name for writes)
      gvals = util.globals.get(lit.id, [])
      alias_names.add(lit.id)
      lit = gvals[0] if len(gvals) == 1 else None
    if not isinstance(lit, ast.Dict):
      r_a.violate('allow-list not literal', sc.key, lit, 'SafeUnpickler.PICKLE_SAFE is not a literal dict', construct='PICKLE_SAFE')
      continue
    got = {}
    okl = True
    for k, v in zip(lit.keys, lit.values):
      if not isinstance(k, ast.Constant):
        okl = False
        continue
      names = None
      if isinstance(v, ast.Call) and isinstance(v.func, ast.Name) and v.func.id in ('set', 'frozenset') and len(v.args) == 1 and \
         isinstance(v.args[0], (ast.List, ast.Tuple, ast.Set)):
        names = [e.value for e in v.args[0].elts if isinstance(e, ast.Constant)]
        okl = okl and len(names) == len(v.args[0].elts)
      elif isinstance(v, ast.Set):
        names = [e.value for e in v.elts if isinstance(e, ast.Constant)]
        okl = okl and len(names) == len(v.elts)
      else:
        okl = False
      got[k.value] = set(names or [])
    extra = {m: sorted(ns - DOCUMENTED.get(m, set())) for m, ns in got.items() if ns - DOCUMENTED.get(m, set())}
    if not okl:
      r_a.violate('allow-list not literal', sc.key, lit, 'PICKLE_SAFE contains non-literal entries', construct='PICKLE_SAFE')
    elif extra:
      r_a.violate('allow-list widened', sc.key, lit, 'PICKLE_SAFE allows %s beyond the documented copy_reg._reconstructor and '
                  '__builtin__.object' % extra, construct='PICKLE_SAFE %s' % sorted(extra))
    else:
      r_a.ok('PICKLE_SAFE[%s] = %s' % (sc.guard or 'py3', {k: sorted(v) for k, v in got.items()}),
             '%s:%d' % (util.relpath, lit.lineno))
  writes = []
  for m in repo.modules.values():
    for n in ast.walk(m.tree):
      tgt = None
      if isinstance(n, (ast.Assign, ast.AugAssign)):
        for t in (n.targets if isinstance(n, ast.Assign) else [n.target]):
          for x in ast.walk(t):
            if isinstance(x, ast.Attribute) and x.attr in alias_names:
              tgt = n
            if isinstance(x, ast.Name) and x.id in alias_names and isinstance(x.ctx, ast.Store):
              par_ = getattr(n, '_parent', None)
              first_def = (isinstance(par_, ast.ClassDef) and x.id == 'PICKLE_SAFE') or \
                (isinstance(par_, ast.Module) and m is util and x.id != 'PICKLE_SAFE' and x is t)
              if not first_def:
                tgt = n
            if isinstance(x, ast.Name) and x.id in alias_names and isinstance(x.ctx, ast.Load) and x is not t:
              tgt = n           # PICKLE_SAFE[...] = ... / PICKLE_SAFE[m].x = ...
      elif isinstance(n, ast.Call) and isinstance(n.func, ast.Attribute) and n.func.attr in (
          'add', 'update', 'setdefault', 'pop', 'clear', '__setitem__', 'discard', 'remove', 'popitem', 'append', 'extend') and \
          any((isinstance(x, ast.Name) and x.id in alias_names) or (isinstance(x, ast.Attribute) and x.attr in alias_names)
              for x in ast.walk(n.func.value)):
        tgt = n
      elif isinstance(n, ast.Delete) and any((isinstance(x, ast.Name) and x.id in alias_names) or
                                             (isinstance(x, ast.Attribute) and x.attr in alias_names) for x in ast.walk(n)):
        tgt = n
      if tgt is not None:
        writes.append((m, tgt))
  if writes:
    m, n = writes[0]
    f = repo.enclosing_function(m, n)
    r_a.violate('allow-list modified at run time', f if f is not None else m.name + ':<module>', n, '`%s` modifies PICKLE_SAFE'
                % short(n))
  else:
    r_a.ok('PICKLE_SAFE is never written outside its definition', util.relpath)

  # ------------------------------------------------------------------ hooked
  r_h = check.rule('R-C13-hooked', 1, 'the safe class really routes global lookups through its find_class')
  for sc in safe_classes:
    loads = sc.methods.get('loads')
    if loads is None:
      r_h.violate('loads missing', sc.key, None, 'SafeUnpickler has no loads()', construct='def loads')
      continue
    is_sub = any(b.split('.')[-1] in ('Unpickler', '_Unpickler') for b in sc.base_names)
    body = unparse(loads.node)
    if is_sub:
      inst = [c for c in walk_no_nested(loads.node, include_self=False) if isinstance(c, ast.Call) and isinstance(c.func, ast.Name)
              and c.func.id == (loads.params[0] if loads.params else 'cls')]
      raw = [c for c in walk_no_nested(loads.node, include_self=False) if isinstance(c, ast.Call) and
             isinstance(c.func, ast.Attribute) and c.func.attr in UNPICKLE_NAMES and _is_pickle_module(T, c.func.value, loads.module, loads)]
      if inst and not raw and 'find_class' in sc.methods:
        r_h.ok('py3 variant: loads() instantiates the subclass that overrides find_class', loads.loc())
      else:
        r_h.violate('safe class not used by loads()', loads, (raw or [None])[0], 'SafeUnpickler.loads does not unpickle through an '
                    'instance of the class itself (which overrides find_class)', construct='cls(...).load()')
      for bad in ('persistent_load', 'find_global', 'dispatch_table', 'dispatch'):
        if bad in sc.methods or bad in sc.attrs:
          r_h.violate('extra unpickler hook', sc.key, None, 'SafeUnpickler defines %s, an additional way for pickled data to reach '
                      'code' % bad, construct=bad)
    else:
      if 'find_global=cls.find_class' in body.replace(' ', '') or 'find_global=self.find_class' in body.replace(' ', ''):
        r_h.ok('cPickle variant: find_global hooked to find_class', loads.loc())
      else:
        r_h.violate('find_global not hooked', loads, None, 'the cPickle SafeUnpickler.loads does not set find_global to find_class',
                    construct='pickle_obj.find_global = cls.find_class')
  rule_sections_direct(check, cx, check.rule('R-C13-sections-direct', 2, 'the program and the instance section are read straight into the settings object that is returned'))


def _allowlist_terms(sc, own):
  """terms (sa/symeval.py) that denote the allow-list inside find_class of class ``sc``."""
  out = {('attr', ('param', own), 'PICKLE_SAFE'), ('attr', ('param', sc.name), 'PICKLE_SAFE'),
         ('attr', ('param', 'self'), 'PICKLE_SAFE'), ('attr', ('param', 'cls'), 'PICKLE_SAFE')}
  lit = sc.attrs.get('PICKLE_SAFE')
  if isinstance(lit, ast.Name):
    out.add(('param', lit.id))        # class attribute bound to a module-level allow-list
  return out


def rule_sections_direct(check, cx, rule):
  """every configuration section read_config() reads - the program's and the instance's - is read straight into the settings
  object it returns: an instance override such as `[cache:b] USE_INSECURE_UNPICKLER = False` reaches the daemon whatever its
  value.  Reading a section into a scratch object and merging 'what differs from the defaults' drops an override that equals
  the built-in default and therefore cannot undo what the main section set."""
  fn = cx.fn('carbon.conf', 'read_config')
  if not rule.require(fn is not None, 'carbon.conf.read_config not found'):
    return
  returned = {r.value.id for r in walk_no_nested(fn.node, include_self=False) if isinstance(r, ast.Return) and isinstance(r.value, ast.Name)}
  reads = [c for c in walk_no_nested(fn.node, include_self=False) if isinstance(c, ast.Call) and isinstance(c.func, ast.Attribute) and
           c.func.attr == 'readFrom']
  if not rule.require(len(reads) >= 2 and len(returned) == 1, 'expected read_config to return one settings object and to read the '
                      'program and the instance section (found %d readFrom call(s))' % len(reads)):
    return
  for c in reads:
    if isinstance(c.func.value, ast.Name) and c.func.value.id in returned:
      rule.ok('section read into the returned settings', fn.loc(c), short(c, 60))
    else:
      rule.violate('section read into a scratch object', fn, c, '`%s` reads a configuration section into `%s`, not into the settings '
                   'object read_config() returns (`%s`): what reaches the daemon is whatever the later merge lets through, and an '
                   'instance override equal to the built-in default (USE_INSECURE_UNPICKLER = False) is lost'
                   % (short(c, 50), unparse(c.func.value), ', '.join(sorted(returned))))
