"""C13 - The default unpickler cannot be made to load or call arbitrary globals.

Decided: single door to unpickling; every global is returned only past both
allow-list membership checks on the exact (module, name) pair and is looked up
by exactly that pair; the allow-list is a frozen literal within the documented
one; the safe class really hooks find_class.  Trusted: CPython's unpickler
resolves every global through find_class.
"""
import ast

from ..model import dotted, unparse, norm, walk_no_nested
from ..rulelib import Ctx, reaching_defs, value_assigned, short

DOCUMENTED = {'copy_reg': {'_reconstructor'}, '__builtin__': {'object'}}
UNPICKLE_NAMES = {'loads', 'load', 'Unpickler', '_Unpickler', '_loads', '_load'}
PICKLE_MODULES = {'pickle', 'cPickle', '_pickle', 'six.moves.cPickle', 'dill', 'marshal', 'shelve'}


def _is_pickle_module(T, e, module, fn):
  for t in T.expr_types(e, module, fn):
    if t[0] == 'mod' and t[1] in PICKLE_MODULES:
      return True
  return False


def run(check):
  cx = Ctx(check)
  repo, T = check.repo, check.types
  check.explanation = (
    'Who-may-deserialise (every use of pickle.loads/load/Unpickler or of the pickle module as an unpickler object in the '
    'repository is inside SafeUnpickler or is the value get_unpickler returns on its `insecure` branch, and both '
    'pickle-speaking protocols take their unpickler from get_unpickler(insecure=settings.USE_INSECURE_UNPICKLER), default '
    'False); dominance in find_class (every return and the import are dominated by the pass outcome of `module in '
    'PICKLE_SAFE`, every return also by `name in PICKLE_SAFE[module]` on the *parameters themselves*, and what is returned '
    'is getattr(sys.modules[module], name) for exactly those parameters); the allow-list is a literal dict of literal sets, '
    'never written elsewhere and within the documented list. Universality over all pickle programs then follows from the '
    'trusted fact that CPython resolves every global opcode through find_class.')
  check.not_decided = ['CPython\'s unpickler itself (that GLOBAL/STACK_GLOBAL/INST/OBJ/NEWOBJ/REDUCE only reach objects obtained '
                       'through find_class)']
  check.trusted_base = ['CPython pickle.Unpickler']
  util = repo.module('carbon.util')

  # ------------------------------------------------------------------ single door
  r_d = check.rule('R-C13-single-door', 4, 'unpickling happens only behind get_unpickler / SafeUnpickler')
  gu = cx.fn('carbon.util', 'get_unpickler')
  safe_classes = util.classes.get('SafeUnpickler', [])
  r_d.require(safe_classes, 'carbon.util.SafeUnpickler not found')
  uses = 0
  for m in repo.modules.values():
    pk_names = {name for name in m.imports
                if any(t[0] == 'mod' and t[1] in PICKLE_MODULES for t in T.module_attr(m.name, name))}
    if not pk_names:
      continue
    for n in ast.walk(m.tree):
      if not (isinstance(n, ast.Name) and n.id in pk_names and isinstance(n.ctx, ast.Load)):
        continue
      f = repo.enclosing_function(m, n)
      if f is not None and n.id in f.params:
        continue
      par = getattr(n, '_parent', None)
      where = f.key if f is not None else m.name + ':<module>'
      if isinstance(par, ast.Attribute) and par.value is n:
        if par.attr not in UNPICKLE_NAMES:
          continue        # pickle.dumps, pickle.UnpicklingError ...
        uses += 1
        inside_safe = f is not None and f.cls is not None and f.cls.name == 'SafeUnpickler'
        gp = getattr(par, '_parent', None)
        cls_base = isinstance(gp, ast.ClassDef) and gp.name == 'SafeUnpickler' and par in gp.bases
        if inside_safe or cls_base:
          r_d.ok('pickle.%s used inside SafeUnpickler' % par.attr, '%s:%d' % (m.relpath, n.lineno))
        else:
          r_d.violate('raw unpickler', f if f is not None else where, par, '`%s` is used in %s, outside SafeUnpickler: data '
                      'reaching it is unpickled without the allow-list (arbitrary globals can be imported and called)'
                      % (unparse(par), where))
        continue
      # the pickle module itself handed out as an unpickler object
      if f is gu and isinstance(par, ast.Return):
        continue          # judged by R-C13-guarded-return
      r_d.violate('pickle module used as an unpickler object', f if f is not None else where, par if par is not None else n,
                  'the pickle module is passed around as a value in %s (`%s`): whoever calls .loads on it bypasses the '
                  'allow-list' % (where, short(par) if par is not None else n.id))
  # who obtains an unpickler, and how
  getters = 0
  for f in repo.all_functions():
    for c in [n for n in walk_no_nested(f.node, include_self=False) if isinstance(n, ast.Call)]:
      if cx.calls_function(c, f, 'carbon.util', 'get_unpickler'):
        getters += 1
        arg = None
        if c.args:
          arg = c.args[0]
        for kw in c.keywords:
          if kw.arg == 'insecure':
            arg = kw.value
        if arg is None:
          r_d.ok('%s: get_unpickler() with the secure default' % f.qualname, f.loc(c))
        elif (dotted(arg) or '').endswith('settings.USE_INSECURE_UNPICKLER') or dotted(arg) == 'settings.USE_INSECURE_UNPICKLER':
          r_d.ok('%s: insecure=settings.USE_INSECURE_UNPICKLER' % f.qualname, f.loc(c))
        elif isinstance(arg, ast.Constant) and arg.value in (False, None, 0):
          r_d.ok('%s: insecure=False' % f.qualname, f.loc(c))
        else:
          r_d.violate('insecure unpickler requested', f, c, 'get_unpickler is called with insecure=`%s`, not with the '
                      'USE_INSECURE_UNPICKLER setting' % unparse(arg))
  r_d.require(getters >= 2, 'expected the pickle listener and the cache query port to call get_unpickler, found %d call(s)' % getters)
  # every .loads() on wire data in the protocol modules goes through an attribute assigned from get_unpickler
  for modname in ('carbon.protocols', 'carbon.amqp_listener', 'carbon.protobuf'):
    m = repo.modules.get(modname)
    if m is None:
      continue
    for f in m.all_functions():
      for c in [n for n in walk_no_nested(f.node, include_self=False) if isinstance(n, ast.Call)]:
        if isinstance(c.func, ast.Attribute) and c.func.attr in ('loads', 'load') and not isinstance(c.func.value, ast.Name):
          recv = c.func.value
          if isinstance(recv, ast.Attribute) and isinstance(recv.value, ast.Name) and recv.value.id == 'self' and f.cls is not None:
            srcs = [rhs for (am, af, tgt, rhs) in T.attr_assigns.get(recv.attr, [])
                    if af is not None and af.cls is not None and repo.is_subclass(f.cls, af.cls) or
                    (af is not None and af.cls is f.cls)]
            good = srcs and all(isinstance(r, ast.Call) and (dotted(r.func) or '').split('.')[-1] == 'get_unpickler' for r in srcs)
            if good:
              r_d.ok('%s: %s comes from get_unpickler()' % (f.qualname, unparse(recv)), f.loc(c))
            else:
              r_d.violate('unpickler of unknown origin', f, c, '`%s` is not (only) assigned from get_unpickler(...)' % unparse(recv))
  conf = repo.module('carbon.conf')
  dflt = None
  for v in conf.globals.get('defaults', []):
    if isinstance(v, ast.Call):
      for kw in v.keywords:
        if kw.arg == 'USE_INSECURE_UNPICKLER':
          dflt = kw.value
  if isinstance(dflt, ast.Constant) and dflt.value is False:
    r_d.ok('USE_INSECURE_UNPICKLER defaults to False', '%s:%d' % (conf.relpath, dflt.lineno))
  else:
    r_d.violate('insecure by default', 'carbon.conf:<module>', dflt, 'the default of USE_INSECURE_UNPICKLER is `%s`'
                % (unparse(dflt) if dflt is not None else 'missing'), construct='USE_INSECURE_UNPICKLER default')

  # ------------------------------------------------------------------ guarded returns
  r_g = check.rule('R-C13-guarded-return', 5, 'globals are returned only past both allow-list checks, by exactly the checked names')
  g = cx.cfg(gu)
  p_ins = gu.params[0] if gu.params else 'insecure'
  for rn in [n for n in g.nodes if n.kind == 'stmt' and isinstance(n.ast, ast.Return)]:
    v = rn.ast.value
    if v is not None and _is_pickle_module(T, v, gu.module, gu):
      ok = rn not in g.reach([g.entry], normal_only=True, removed_edge=lambda a, lab, b: isinstance(lab, tuple) and lab[0] == 'T'
                             and isinstance(lab[1], ast.Name) and lab[1].id == p_ins)
      if ok and reaching_defs(g, p_ins, rn) == [g.entry]:
        r_g.ok('get_unpickler returns the raw pickle module only when `insecure` is true', gu.loc(rn.ast))
      else:
        r_g.violate('raw pickle returned unconditionally', gu, rn.ast, 'get_unpickler can return the raw pickle module although '
                    '`insecure` is false')
    elif v is not None and dotted(v) == 'SafeUnpickler':
      r_g.ok('get_unpickler returns SafeUnpickler otherwise', gu.loc(rn.ast))
    else:
      r_g.violate('unknown unpickler returned', gu, rn.ast, 'get_unpickler returns `%s`' % (unparse(v) if v is not None else 'None'))
  variants = []
  for sc in safe_classes:
    fc = sc.methods.get('find_class')
    if fc is None:
      r_g.violate('find_class missing', sc.key, None, 'SafeUnpickler (variant under `%s`) has no find_class' % sc.guard,
                  construct='def find_class')
      continue
    variants.append((sc, fc))
    check.analysed(fc)
    gf = cx.cfg(fc)
    params = fc.params[1:] if fc.params and fc.params[0] in ('self', 'cls') else fc.params
    if len(params) != 2:
      r_g.cannot_decide('find_class signature is not (module, name)')
      continue
    pm, pn = params
    own = fc.params[0]

    def mod_pass(a, lab, b, pm=pm, own=own):
      if not isinstance(lab, tuple):
        return False
      pol, t = lab
      if isinstance(t, ast.Compare) and len(t.ops) == 1 and isinstance(t.left, ast.Name) and t.left.id == pm and \
         (dotted(t.comparators[0]) or '').endswith('PICKLE_SAFE'):
        return (isinstance(t.ops[0], ast.NotIn) and pol == 'F') or (isinstance(t.ops[0], ast.In) and pol == 'T')
      return False

    def name_pass(a, lab, b, pm=pm, pn=pn):
      if not isinstance(lab, tuple):
        return False
      pol, t = lab
      if isinstance(t, ast.Compare) and len(t.ops) == 1 and isinstance(t.left, ast.Name) and t.left.id == pn:
        c = t.comparators[0]
        if isinstance(c, ast.Subscript) and (dotted(c.value) or '').endswith('PICKLE_SAFE') and isinstance(c.slice, ast.Name) \
           and c.slice.id == pm:
          return (isinstance(t.ops[0], ast.NotIn) and pol == 'F') or (isinstance(t.ops[0], ast.In) and pol == 'T')
      return False
    label = 'find_class[%s]' % (sc.guard or 'py3')
    for rn in [n for n in gf.nodes if n.kind == 'stmt' and isinstance(n.ast, ast.Return)]:
      by_mod = rn not in gf.reach([gf.entry], removed_edge=mod_pass, normal_only=True)
      by_name = rn not in gf.reach([gf.entry], removed_edge=name_pass, normal_only=True)
      params_intact = reaching_defs(gf, pm, rn) == [gf.entry] and reaching_defs(gf, pn, rn) == [gf.entry]
      if by_mod and by_name and params_intact:
        r_g.ok('%s: return dominated by `module in PICKLE_SAFE` and `name in PICKLE_SAFE[module]`' % label, fc.loc(rn.ast))
      else:
        r_g.violate('%s returns an unchecked global' % label, fc, rn.ast, 'find_class can return a global without both '
                    'allow-list membership checks having passed on the module and name *parameters* (module check: %s, name '
                    'check: %s, parameters unmodified: %s)' % (by_mod, by_name, params_intact))
      # what is returned is getattr(sys.modules[module], name)
      v = rn.ast.value
      shape_ok = False
      if isinstance(v, ast.Call) and isinstance(v.func, ast.Name) and v.func.id == 'getattr' and len(v.args) == 2 and \
         isinstance(v.args[1], ast.Name) and v.args[1].id == pn:
        base = v.args[0]
        if isinstance(base, ast.Name):
          rds = reaching_defs(gf, base.id, rn)
          vals = [value_assigned(d, base.id) for d in rds if d is not gf.entry]
          shape_ok = bool(vals) and len(vals) == len(rds) and all(
            isinstance(x, ast.AST) and unparse(x).replace(' ', '') in ('sys.modules[%s]' % pm, '__import__(%s)' % pm,
                                                                       'importlib.import_module(%s)' % pm) for x in vals)
        else:
          shape_ok = unparse(base).replace(' ', '') == 'sys.modules[%s]' % pm
      if shape_ok:
        r_g.ok('%s: returns getattr(sys.modules[module], name) for the checked pair' % label, fc.loc(rn.ast))
      else:
        r_g.violate('%s returns something else than the checked global' % label, fc, rn.ast, 'find_class returns `%s`: not '
                    'getattr(sys.modules[module], name) of exactly the (module, name) that passed the allow-list (e.g. a dotted '
                    'path walked attribute by attribute reaches object.__subclasses__)' % (unparse(v) if v is not None else 'None'))
    for n in gf.nodes:
      for c in gf.calls(n):
        if isinstance(c.func, ast.Name) and c.func.id in ('__import__', 'import_module') or \
           (dotted(c.func) or '').endswith('import_module'):
          if n in gf.reach([gf.entry], removed_edge=mod_pass, normal_only=True):
            r_g.violate('%s imports an unchecked module' % label, fc, c, 'find_class imports `%s` before the module passed the '
                        'allow-list check' % unparse(c))
          else:
            r_g.ok('%s: import only after the module check' % label, fc.loc(c))
    # fail outcomes raise UnpicklingError
    for (a, lab, b) in gf.test_edges(lambda pol, t, n: True):
      if isinstance(lab[1], ast.Compare) and 'PICKLE_SAFE' in unparse(lab[1]):
        fail = not (mod_pass(a, lab, b) or name_pass(a, lab, b))
        if fail:
          reach_ret = [rn for rn in gf.nodes if rn.kind == 'stmt' and isinstance(rn.ast, ast.Return) and
                       rn in gf.reach([b], normal_only=True)]
          raises = [rn for rn in gf.reach([b], normal_only=True) if rn.kind == 'stmt' and isinstance(rn.ast, ast.Raise)]
          if reach_ret or not raises:
            r_g.violate('%s: failed check does not reject' % label, fc, lab[1], 'when `%s` fails, find_class does not raise'
                        % unparse(lab[1]))
  if len(variants) == 2:
    a, b = variants
    na = [norm(s) for s in a[1].node.body]
    nb = [norm(s) for s in b[1].node.body]
    if [x.replace('cls.', 'self.') for x in na] == [x.replace('cls.', 'self.') for x in nb]:
      r_g.ok('sibling agreement: both SafeUnpickler.find_class variants are the same code', a[1].loc())
    else:
      check.notes.append('the two SafeUnpickler.find_class variants differ textually; each was checked on its own')

  # ------------------------------------------------------------------ allow-list
  r_a = check.rule('R-C13-allowlist-frozen', 2, 'PICKLE_SAFE is a literal, never modified, within the documented allow-list')
  for sc in safe_classes:
    lit = sc.attrs.get('PICKLE_SAFE')
    if not isinstance(lit, ast.Dict):
      r_a.violate('allow-list not literal', sc.key, lit, 'SafeUnpickler.PICKLE_SAFE is not a literal dict', construct='PICKLE_SAFE')
      continue
    got = {}
    okl = True
    for k, v in zip(lit.keys, lit.values):
      if not isinstance(k, ast.Constant):
        okl = False
        continue
      names = None
      if isinstance(v, ast.Call) and isinstance(v.func, ast.Name) and v.func.id in ('set', 'frozenset') and len(v.args) == 1 and \
         isinstance(v.args[0], (ast.List, ast.Tuple, ast.Set)):
        names = [e.value for e in v.args[0].elts if isinstance(e, ast.Constant)]
        okl = okl and len(names) == len(v.args[0].elts)
      elif isinstance(v, ast.Set):
        names = [e.value for e in v.elts if isinstance(e, ast.Constant)]
        okl = okl and len(names) == len(v.elts)
      else:
        okl = False
      got[k.value] = set(names or [])
    extra = {m: sorted(ns - DOCUMENTED.get(m, set())) for m, ns in got.items() if ns - DOCUMENTED.get(m, set())}
    if not okl:
      r_a.violate('allow-list not literal', sc.key, lit, 'PICKLE_SAFE contains non-literal entries', construct='PICKLE_SAFE')
    elif extra:
      r_a.violate('allow-list widened', sc.key, lit, 'PICKLE_SAFE allows %s beyond the documented copy_reg._reconstructor and '
                  '__builtin__.object' % extra, construct='PICKLE_SAFE %s' % sorted(extra))
    else:
      r_a.ok('PICKLE_SAFE[%s] = %s' % (sc.guard or 'py3', {k: sorted(v) for k, v in got.items()}),
             '%s:%d' % (util.relpath, lit.lineno))
  writes = []
  for m in repo.modules.values():
    for n in ast.walk(m.tree):
      tgt = None
      if isinstance(n, (ast.Assign, ast.AugAssign)):
        for t in (n.targets if isinstance(n, ast.Assign) else [n.target]):
          for x in ast.walk(t):
            if isinstance(x, ast.Attribute) and x.attr == 'PICKLE_SAFE':
              tgt = n
            if isinstance(x, ast.Name) and x.id == 'PICKLE_SAFE' and not isinstance(getattr(n, '_parent', None), ast.ClassDef):
              tgt = n
      elif isinstance(n, ast.Call) and isinstance(n.func, ast.Attribute) and n.func.attr in (
          'add', 'update', 'setdefault', 'pop', 'clear', '__setitem__', 'discard', 'remove') and 'PICKLE_SAFE' in unparse(n.func.value):
        tgt = n
      elif isinstance(n, ast.Delete) and 'PICKLE_SAFE' in unparse(n):
        tgt = n
      if tgt is not None:
        writes.append((m, tgt))
  if writes:
    m, n = writes[0]
    f = repo.enclosing_function(m, n)
    r_a.violate('allow-list modified at run time', f if f is not None else m.name + ':<module>', n, '`%s` modifies PICKLE_SAFE'
                % short(n))
  else:
    r_a.ok('PICKLE_SAFE is never written outside its definition', util.relpath)

  # ------------------------------------------------------------------ hooked
  r_h = check.rule('R-C13-hooked', 2, 'the safe class really routes global lookups through its find_class')
  for sc in safe_classes:
    loads = sc.methods.get('loads')
    if loads is None:
      r_h.violate('loads missing', sc.key, None, 'SafeUnpickler has no loads()', construct='def loads')
      continue
    is_sub = any(b.split('.')[-1] in ('Unpickler', '_Unpickler') for b in sc.base_names)
    body = unparse(loads.node)
    if is_sub:
      inst = [c for c in walk_no_nested(loads.node, include_self=False) if isinstance(c, ast.Call) and isinstance(c.func, ast.Name)
              and c.func.id == (loads.params[0] if loads.params else 'cls')]
      raw = [c for c in walk_no_nested(loads.node, include_self=False) if isinstance(c, ast.Call) and
             isinstance(c.func, ast.Attribute) and c.func.attr in UNPICKLE_NAMES and _is_pickle_module(T, c.func.value, loads.module, loads)]
      if inst and not raw and 'find_class' in sc.methods:
        r_h.ok('py3 variant: loads() instantiates the subclass that overrides find_class', loads.loc())
      else:
        r_h.violate('safe class not used by loads()', loads, (raw or [None])[0], 'SafeUnpickler.loads does not unpickle through an '
                    'instance of the class itself (which overrides find_class)', construct='cls(...).load()')
      for bad in ('persistent_load', 'find_global', 'dispatch_table', 'dispatch'):
        if bad in sc.methods or bad in sc.attrs:
          r_h.violate('extra unpickler hook', sc.key, None, 'SafeUnpickler defines %s, an additional way for pickled data to reach '
                      'code' % bad, construct=bad)
    else:
      if 'find_global=cls.find_class' in body.replace(' ', '') or 'find_global=self.find_class' in body.replace(' ', ''):
        r_h.ok('cPickle variant: find_global hooked to find_class', loads.loc())
      else:
        r_h.violate('find_global not hooked', loads, None, 'the cPickle SafeUnpickler.loads does not set find_global to find_class',
                    construct='pickle_obj.find_global = cls.find_class')
