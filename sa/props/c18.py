"""C18 - Tagged series names normalise to one canonical form.

Decided: tag order is erased by sorting before the name is formatted; both
parsers build a dict keyed by tag, validate every tag before storing it and set
the `name` entry last (so the two syntaxes agree); the processors attempt the
normalisation for every name, inside a try whose handler keeps the name exactly
as received.  Not decided: idempotence / syntax equivalence as string functions.
"""
import ast

from ..model import dotted, unparse, norm, walk_no_nested
from ..rulelib import Ctx, nodes_calling, reaching_defs, short, resolve_copies

PARSERS = ('parse_openmetrics', 'parse_carbon')


def _tags_var(m):
  """name of the dict that becomes the series' tags: second argument of the returned cls(metric, <tags>)"""
  for r in walk_no_nested(m.node, include_self=False):
    if isinstance(r, ast.Return) and isinstance(r.value, ast.Call) and len(r.value.args) >= 2 and isinstance(r.value.args[1], ast.Name):
      return r.value.args[1].id
  return 'tags'


def _copy_without_name(fm, local, p):
  """`local` is a private copy of the tags mapping p (dict(p) / p.copy()) from which only the 'name' entry is removed
  (local.pop('name', ...)): iterating it is iterating every tag but the name."""
  if fm is None:
    return False
  defs = [s_ for s_ in walk_no_nested(fm.node, include_self=False) if isinstance(s_, ast.Assign) and
          any(isinstance(t, ast.Name) and t.id == local for t in s_.targets)]
  if len(defs) != 1:
    return False
  v = defs[0].value
  is_copy = (isinstance(v, ast.Call) and isinstance(v.func, ast.Name) and v.func.id == 'dict' and len(v.args) == 1 and not v.keywords and
             dotted(v.args[0]) == p) or \
            (isinstance(v, ast.Call) and isinstance(v.func, ast.Attribute) and v.func.attr == 'copy' and dotted(v.func.value) == p and not v.args)
  if not is_copy:
    return False
  muts = [c for c in walk_no_nested(fm.node, include_self=False) if isinstance(c, ast.Call) and isinstance(c.func, ast.Attribute) and
          dotted(c.func.value) == local and c.func.attr in ('pop', 'popitem', 'clear', 'update', 'setdefault', '__delitem__', '__setitem__')]
  subs = [x for x in walk_no_nested(fm.node, include_self=False) if isinstance(x, ast.Subscript) and dotted(x.value) == local and
          isinstance(x.ctx, (ast.Store, ast.Del))]
  pops = [c for c in muts if c.func.attr == 'pop' and c.args and isinstance(c.args[0], ast.Constant) and c.args[0].value == 'name']
  return len(pops) == 1 and len(muts) == 1 and not subs


def _pieces_of_tags(e, p, fm=None):
  """(iterates all of tags.items(), excludes name) for a comprehension  [<piece> for tag, value in tags.items() if tag != 'name']"""
  if isinstance(e, (ast.ListComp, ast.GeneratorExp, ast.SetComp)) and len(e.generators) == 1:
    g_ = e.generators[0]
    it = g_.iter
    if isinstance(it, ast.Call) and isinstance(it.func, ast.Attribute) and it.func.attr == 'items' and isinstance(it.func.value, ast.Name) and \
       it.func.value.id != p and _copy_without_name(fm, it.func.value.id, p):
      return not g_.ifs, True
    if isinstance(it, ast.Call) and isinstance(it.func, ast.Attribute) and it.func.attr == 'items' and dotted(it.func.value) == p:
      excl = any(isinstance(c, ast.Compare) and len(c.ops) == 1 and isinstance(c.ops[0], ast.NotEq) and
                 "'name'" in unparse(c).replace('"', "'") for i_ in g_.ifs for c in ast.walk(i_))
      only_name_filter = all(isinstance(i_, ast.Compare) and "'name'" in unparse(i_).replace('"', "'") for i_ in g_.ifs)
      return only_name_filter, excl
  return False, False


def _sorted_pieces(cx, fm, g, seq, ret, p):
  """is the sequence handed to ''.join() sorted, and built from every tag but `name`?  -> (ok, name excluded, why not)"""
  # sorted(<comprehension over tags.items()>)
  if isinstance(seq, ast.Call) and isinstance(seq.func, ast.Name) and seq.func.id == 'sorted' and seq.args and not seq.keywords:
    inner = seq.args[0]
    if isinstance(inner, ast.Name):
      srcs = [x for x in resolve_copies(fm, inner) if isinstance(x, ast.AST)]
      inner = srcs[0] if len(srcs) == 1 else inner
    full, excl = _pieces_of_tags(inner, p, fm)
    if full:
      return True, excl, ''
    return False, False, '`%s` is not built from every entry of the tags' % short(inner)
  # a local list: filled in one loop over tags.items(), sorted in place on every path before it is joined
  if isinstance(seq, ast.Name):
    L = seq.id
    srcs = [x for x in resolve_copies(fm, seq) if isinstance(x, ast.AST)]
    if len(srcs) == 1 and isinstance(srcs[0], ast.Call) and isinstance(srcs[0].func, ast.Name) and srcs[0].func.id == 'sorted':
      return _sorted_pieces(cx, fm, g, srcs[0], ret, p)
    sorts = [n for n in g.nodes if n.kind == 'stmt' and any(
      isinstance(c.func, ast.Attribute) and c.func.attr == 'sort' and dotted(c.func.value) == L and not c.keywords and not c.args
      for c in g.calls(n))]
    appends = [n for n in g.nodes if n.kind == 'stmt' and any(
      isinstance(c.func, ast.Attribute) and c.func.attr in ('append', 'extend', 'insert') and dotted(c.func.value) == L for c in g.calls(n))]
    rn = g.nodes_of(ret)
    if sorts and rn and not appends and len(srcs) == 1:
      # pieces = [<comprehension over every tag>]; pieces.sort(); return ... join(pieces)
      full, excl = _pieces_of_tags(srcs[0], p, fm)
      if full and rn[0] not in g.reach([g.entry], removed_nodes=set(sorts), normal_only=True):
        return True, excl, ''
    if sorts and rn:
      sorted_before = rn[0] not in g.reach([g.entry], removed_nodes=set(sorts), normal_only=True)
      grows_after = any(a in g.reach(g.after(s_), normal_only=True) for s_ in sorts for a in appends)
      loops = [n for n in g.nodes if n.kind == 'loop' and isinstance(n.owner, ast.For) and isinstance(n.owner.iter, ast.Call) and
               isinstance(n.owner.iter.func, ast.Attribute) and n.owner.iter.func.attr == 'items' and dotted(n.owner.iter.func.value) == p]
      in_loop = loops and all(a in g.in_loop_nodes(loops[0].owner) for a in appends)
      # inside the loop only the `name` entry is skipped
      excl = bool(loops) and any(isinstance(c, ast.Compare) and "'name'" in unparse(c).replace('"', "'")
                                 for c in ast.walk(loops[0].owner) if isinstance(c, ast.Compare))
      other_tests = [t_ for t_ in ast.walk(loops[0].owner) if isinstance(t_, ast.If) and
                     "'name'" not in unparse(t_.test).replace('"', "'")] if loops else [1]
      if sorted_before and not grows_after and in_loop and not other_tests and appends:
        return True, excl, ''
      return False, False, 'the list `%s` is not (always) sorted after its last append, or is not filled from every tag' % L
    return False, False, 'the list `%s` is never sorted' % L
  return False, False, '`%s` is not sorted' % short(seq)


def run(check):
  cx = Ctx(check)
  repo = check.repo
  check.explanation = (
    'Order-erasure dataflow in TaggedSeries.format (the iteration over tags.items() reaches the result only through sorted(); '
    'the name comes first and is excluded from the sorted part), sibling agreement of the two parsers (tags are stored in a dict '
    'keyed by tag after validateTagAndValue, the name entry is written after every tag store, every rejecting branch raises), '
    'and the CFG of the two processors (the parse is attempted on every path to store/sendDatapoint except a configuration '
    'switch, inside a try whose catch-all handler does not re-raise, so that on the handler path the original name reaches the '
    'sink). Structural clauses; the string-level idempotence is not decided.')
  check.not_decided = ['idempotence of normalisation as a string function', 'equality of the OpenMetrics and carbon parse results '
                       'for every input (regex/escaping details)']
  check.trusted_base = ['sorted() on str', 're.match']
  ts = repo.cls('carbon.util', 'TaggedSeries')

  # ------------------------------------------------------------------ order erased
  r_o = check.rule('R-C18-order-erased', 3, 'the canonical form does not depend on tag order or syntax')
  fm = ts.methods.get('format')
  if fm is None:
    r_o.cannot_decide('TaggedSeries.format not found')
  else:
    check.analysed(fm)
    rets = [n for n in walk_no_nested(fm.node, include_self=False) if isinstance(n, ast.Return) and n.value is not None]
    p = fm.params[0] if fm.params else 'tags'
    gfm = cx.cfg(fm)
    for r in rets:
      v = r.value
      # the tag part of the result is ''.join(<sequence>): the sequence must be sorted, and must hold one ';tag=value' piece
      # for every entry of the tags mapping except `name`
      joins = [c for c in ast.walk(v) if isinstance(c, ast.Call) and isinstance(c.func, ast.Attribute) and c.func.attr == 'join' and
               len(c.args) == 1]
      verdict = None
      excl = False
      for jn in joins:
        ok_sorted, src, why = _sorted_pieces(cx, fm, gfm, jn.args[0], r, p)
        if ok_sorted:
          verdict = 'ok'
          excl = excl or src
        else:
          verdict = verdict or why
      if verdict == 'ok':
        r_o.ok('format(): the ";tag=value" pieces are sorted before they are joined', fm.loc(r))
      else:
        r_o.violate('tag order leaks into the name', fm, r, 'format() does not sort the tags before they are joined (%s): the result '
                    'depends on the order in which the tags were written' % (verdict or 'no join of tag pieces found'))
      # name first, and excluded from the sorted part
      first = v
      while isinstance(first, ast.BinOp) and isinstance(first.op, ast.Add):
        first = first.left
      ftxt = unparse(first).replace(' ', '').replace('"', "'")
      popped = False
      if isinstance(first, ast.Name):
        fd = [s_ for s_ in walk_no_nested(fm.node, include_self=False) if isinstance(s_, ast.Assign) and
              any(isinstance(t, ast.Name) and t.id == first.id for t in s_.targets)]
        if len(fd) == 1:
          fv = fd[0].value
          ftxt = unparse(fv).replace(' ', '').replace('"', "'")
          if isinstance(fv, ast.Call) and isinstance(fv.func, ast.Attribute) and fv.func.attr == 'pop' and isinstance(fv.func.value, ast.Name) and \
             fv.args and isinstance(fv.args[0], ast.Constant) and fv.args[0].value == 'name' and _copy_without_name(fm, fv.func.value.id, p):
            popped = True
      if popped or ftxt.startswith("%s.get('name'" % p) or ftxt == "%s['name']" % p:
        if excl:
          r_o.ok('format(): name first, excluded from the sorted tags', fm.loc(r))
        else:
          r_o.violate('name repeated among the tags', fm, r, 'format() does not exclude the `name` entry from the sorted tag list')
      else:
        r_o.violate('name not first', fm, r, 'the canonical form does not start with the series name (`%s`)' % unparse(first))
    pth = ts.methods.get('path')
    if pth is not None and pth.is_property and 'format(self.tags)' in unparse(pth.node).replace(' ', ''):
      r_o.ok('path = format(self.tags)', pth.loc())
    else:
      r_o.violate('path is not the canonical form', ts.key, None, 'TaggedSeries.path is not format(self.tags)', construct='path property')
  # parsers: dict keyed by tag, name written last, both agree
  shapes = {}
  for pn in PARSERS:
    m = ts.methods.get(pn)
    if m is None:
      r_o.cannot_decide('TaggedSeries.%s not found' % pn)
      continue
    check.analysed(m)
    g = cx.cfg(m)
    tv = _tags_var(m)
    tag_stores = [n for n in g.nodes if n.kind == 'stmt' and isinstance(n.ast, ast.Assign) and any(
      isinstance(t, ast.Subscript) and dotted(t.value) == tv and not (isinstance(t.slice, ast.Constant) and t.slice.value == 'name')
      for t in n.ast.targets)]
    name_stores = [n for n in g.nodes if n.kind == 'stmt' and isinstance(n.ast, ast.Assign) and any(
      isinstance(t, ast.Subscript) and dotted(t.value) == tv and isinstance(t.slice, ast.Constant) and t.slice.value == 'name'
      for t in n.ast.targets)]
    init_with_name = [n for n in g.nodes if n.kind == 'stmt' and isinstance(n.ast, ast.Assign) and any(
      isinstance(t, ast.Name) and t.id == tv for t in n.ast.targets) and isinstance(n.ast.value, ast.Dict) and any(
      isinstance(k, ast.Constant) and k.value == 'name' for k in n.ast.value.keys)]
    if not tag_stores:
      # without a store of its own the parser must at least validate every extracted pair as a pair before handing it on;
      # one that re-serialises the pairs and parses the text again loses the boundaries between them
      vcalls = [c for c in walk_no_nested(m.node, include_self=False) if isinstance(c, ast.Call) and isinstance(c.func, ast.Attribute) and
                c.func.attr == 'validateTagAndValue' and len(c.args) == 2]
      if not vcalls:
        r_o.violate('%s: pairs are not validated as extracted' % pn, m, None, '%s neither stores `tags[tag] = value` nor calls '
                    'validateTagAndValue(tag, value) on the pairs it extracts: a value containing the separator of whatever it '
                    'hands them to is split again, so a name that violates the tag rules is accepted and rewritten' % pn,
                    construct='%s: validateTagAndValue(tag, value)' % pn)
      else:
        r_o.cannot_decide('%s: no `tags[tag] = value` store recognised' % pn)
      continue
    late = [ns for ns in name_stores + init_with_name if any(t in g.reach(g.after(ns), normal_only=True) for t in tag_stores)]
    reaches_ret = name_stores and all(
      g.exit not in g.reach([g.entry], removed_nodes=set(name_stores), normal_only=True) for _ in [0])
    if late:
      r_o.violate('%s: a tag can overwrite the series name' % pn, m, late[0].ast, 'in %s the `name` entry is set before tags are '
                  'stored, so a tag literally called "name" replaces the series name - the other syntax sets it last, so the two '
                  'spellings of one series normalise differently' % pn)
    elif not name_stores or not reaches_ret:
      r_o.violate('%s: name entry missing' % pn, m, None, '%s can return without setting tags["name"] from the series name' % pn,
                  construct="tags['name'] = ...")
    else:
      r_o.ok('%s: tags stored in a dict, name entry written last' % pn, m.loc(name_stores[0].ast))
    src = [unparse(n.ast.value).replace(' ', '') for n in name_stores]
    shapes[pn] = src
  if len(shapes) == 2 and len({tuple(v) for v in shapes.values()}) != 1:
    r_o.violate('parsers disagree on the name entry', ts.key, None, 'the two parsers compute the `name` entry differently: %s' % shapes,
                construct='name entry')
  prs = ts.methods.get('parse')
  if prs is not None:
    calls = {c.func.attr for c in ast.walk(prs.node) if isinstance(c, ast.Call) and isinstance(c.func, ast.Attribute)}
    if set(PARSERS) <= calls:
      r_o.ok('parse() dispatches to both syntax parsers', prs.loc())
    else:
      r_o.violate('a syntax is not parsed', prs, None, 'TaggedSeries.parse does not dispatch to %s' % sorted(set(PARSERS) - calls),
                  construct='parse dispatch')

  po = ts.methods.get('parse_openmetrics')
  if po is not None:
    # the OpenMetrics value is unescaped ( \\" -> " and \\\\ -> \\ ): a replace whose two arguments are the same string does nothing,
    # and the two syntaxes then disagree on values containing a backslash
    for c in walk_no_nested(po.node, include_self=False):
      if isinstance(c, ast.Call) and isinstance(c.func, ast.Attribute) and c.func.attr == 'replace' and len(c.args) == 2 and \
         all(isinstance(a, ast.Constant) and isinstance(a.value, str) for a in c.args):
        if c.args[0].value == c.args[1].value:
          r_o.violate('unescape does nothing', po, c, '`.replace(%r, %r)` replaces a string by itself: the escape sequence is left in the tag '
                      'value, so the OpenMetrics spelling of a value normalises differently from the carbon spelling'
                      % (c.args[0].value, c.args[1].value), construct='replace(%r, %r)' % (c.args[0].value, c.args[1].value))
        elif len(c.args[1].value) >= len(c.args[0].value):
          r_o.violate('unescape does not shorten', po, c, '`.replace(%r, %r)` does not turn an escape sequence into the character it stands '
                      'for' % (c.args[0].value, c.args[1].value))
        else:
          r_o.ok('OpenMetrics unescape %r -> %r' % (c.args[0].value, c.args[1].value), po.loc(c))
  pc = ts.methods.get('parse_carbon')
  if pc is not None:
    splits = [c for c in walk_no_nested(pc.node, include_self=False) if isinstance(c, ast.Call) and isinstance(c.func, ast.Attribute)
              and c.func.attr in ('split', 'partition', 'rsplit', 'rpartition') and c.args and isinstance(c.args[0], ast.Constant)
              and c.args[0].value == '=']
    for c in splits:
      first = (c.func.attr == 'partition') or (c.func.attr == 'split' and len(c.args) == 2 and isinstance(c.args[1], ast.Constant)
                                                and c.args[1].value == 1)
      if first:
        r_o.ok('carbon syntax: a tag segment is split at its first "=" (values may contain "=")', pc.loc(c))
      else:
        r_o.violate('tag segment split at the wrong "="', pc, c, '`%s` does not split `tag=value` at the first "=": a value containing "=" '
                    '(accepted in OpenMetrics syntax and by the tag rules) is cut in the wrong place, the name is rejected and the two '
                    'syntaxes no longer normalise alike' % unparse(c))
    if not splits:
      r_o.cannot_decide('parse_carbon: splitting of `tag=value` not recognised')

  # ------------------------------------------------------------------ validation
  r_v = check.rule('R-C18-validation', 3, 'every tag is validated before it is stored; every rejecting branch raises')
  for pn in PARSERS:
    m = ts.methods.get(pn)
    if m is None:
      continue
    g = cx.cfg(m)
    vals = set(nodes_calling(g, lambda c: isinstance(c.func, ast.Attribute) and c.func.attr == 'validateTagAndValue'))
    tv = _tags_var(m)
    tag_stores = [n for n in g.nodes if n.kind == 'stmt' and isinstance(n.ast, ast.Assign) and any(
      isinstance(t, ast.Subscript) and dotted(t.value) == tv and not (isinstance(t.slice, ast.Constant) and t.slice.value == 'name')
      for t in n.ast.targets)]
    for tsn in tag_stores:
      loops = [n for n in g.nodes if n.kind == 'loop' and n.owner is not None and tsn in g.in_loop_nodes(n.owner)]
      starts = [y for y, lab in loops[-1].succ if isinstance(lab, tuple) and lab[0] == 'T'] if loops else [g.entry]
      if loops and isinstance(loops[-1].owner, ast.While):
        starts = [loops[-1]]
      if tsn in g.reach(starts, removed_nodes=vals, normal_only=True):
        r_v.violate('%s stores an unvalidated tag' % pn, m, tsn.ast, 'a tag can be stored by %s without validateTagAndValue having '
                    'been called for it in this iteration' % pn)
      else:
        r_v.ok('%s: validateTagAndValue before every tag store' % pn, m.loc(tsn.ast))
  vm = ts.methods.get('validateTagAndValue')
  if vm is None:
    r_v.cannot_decide('validateTagAndValue not found')
  else:
    ifs = [n for n in walk_no_nested(vm.node, include_self=False) if isinstance(n, ast.If)]
    soft = [i for i in ifs if not any(isinstance(x, ast.Raise) for x in ast.walk(i))]
    if ifs and not soft:
      r_v.ok('validateTagAndValue: %d rejecting branches, all raise' % len(ifs), vm.loc())
    else:
      r_v.violate('a rejecting branch does not raise', vm, (soft or [None])[0], 'validateTagAndValue has a check that does not '
                  'raise' if soft else 'validateTagAndValue has no checks', construct='validateTagAndValue checks')
    txt = unparse(vm.node)
    for what, needle in (('empty tag', 'len(tag) == 0'), ('empty value', 'len(value) == 0'), ('";" in value', "';' in value"),
                         ('leading "~"', "value[0] == '~'"), ('prohibited characters', 'prohibitedTagChars')):
      if needle.replace(' ', '') not in txt.replace(' ', '').replace('"', "'"):
        check.notes.append('validateTagAndValue: check for %s not found in its usual spelling' % what)

  # ------------------------------------------------------------------ fallback
  r_f = check.rule('R-C18-fallback', 2, 'names that do not parse are stored and relayed exactly as received; every name is offered '
                   'to the parser')
  for modname, q, sinkname in (('carbon.cache', 'CacheFeedingProcessor.process', 'store'),
                               ('carbon.client', 'RelayProcessor.process', 'sendDatapoint')):
    fn = cx.fn(modname, q)
    g = cx.cfg(fn)
    mvar = fn.params[1]
    parses = nodes_calling(g, lambda c: isinstance(c.func, ast.Attribute) and c.func.attr == 'parse' and
                           (dotted(c.func.value) or '').endswith('TaggedSeries'))
    sinks = nodes_calling(g, lambda c: isinstance(c.func, ast.Attribute) and c.func.attr == sinkname)
    if not parses or not sinks:
      r_f.violate('%s does not normalise' % q, fn, None, '%s no longer calls TaggedSeries.parse before %s()' % (q, sinkname),
                  construct='TaggedSeries.parse(metric)')
      continue
    # the parse is attempted on every path to the sink, except under a configuration switch
    def config_edge(a, lab, b):
      # the side of a configuration switch on which normalisation is switched off altogether
      if not (isinstance(lab, tuple) and 'settings.' in unparse(lab[1]) and
              mvar not in {x.id for x in ast.walk(lab[1]) if isinstance(x, ast.Name)}):
        return False
      return not any(pn in g.reach([b], normal_only=True) for pn in parses)
    for s in sinks:
      if s in g.reach([g.entry], removed_nodes=set(parses), removed_edge=config_edge, normal_only=True):
        p = g.path([g.entry], s, removed_nodes=set(parses), removed_edge=config_edge, normal_only=True)
        tests = [x for x in (p or []) if x.kind == 'test']
        r_f.violate('%s skips normalisation for some names' % q, fn, tests[-1].ast if tests else s.ast,
                    '%s() can be reached without TaggedSeries.parse having been attempted (guard `%s` depends on the name): names in '
                    'the syntax the guard does not recognise are stored un-normalised, so one series gets several names'
                    % (sinkname, short(tests[-1].ast) if tests else '?'), path=g.describe_path(p))
      else:
        r_f.ok('%s: parse attempted on every path to %s()' % (q, sinkname), fn.loc(s.ast))
    # try / catch-all / no re-raise, and the handler path keeps the original name (decided per path: sa/paths.py)
    from ..paths import PathExec
    for pnode in parses:
      hs = [y for y, lab in pnode.succ if lab == 'exc']
      if not hs or any(h is g.raise_exit for h in hs):
        r_f.violate('%s: parse failure escapes' % q, fn, pnode.ast, 'an exception from TaggedSeries.parse is not caught by a catch-all '
                    'handler: a name that violates the tag rules is dropped instead of being passed on as received')
        continue
      okh = True
      px = PathExec(cx, fn, unroll=0)
      RAW = ('param', mvar)
      seen_fail = seen_ok = False
      for hit in px.run(set(sinks) | {g.exit, g.raise_exit}):
        failed = any(pol == 'X' and n in hs and a is pnode.ast for pol, t, a, n in hit.conds)
        parsed = pnode in hit.trail and not failed
        if hit.node in sinks:
          call = [c for c in g.calls(hit.node) if isinstance(c.func, ast.Attribute) and c.func.attr == sinkname][0]
          a0 = hit.term(call.args[0], px) if call.args else None
          if failed:
            seen_fail = True
            if a0 != RAW:
              okh = False
          elif parsed:
            seen_ok = True
        elif failed and not any(n in sinks for n in hit.trail):
          # the function ends (return / raise) after a failed parse without having passed the name on
          if hit.node is g.exit or any(n.kind == 'stmt' and isinstance(n.ast, ast.Raise) for n in hit.trail):
            okh = False
      if not seen_fail or px.truncated:
        okh = False
      if okh:
        r_f.ok('%s: parse failure -> original name reaches %s()' % (q, sinkname), fn.loc(pnode.ast))
      else:
        r_f.violate('%s: rejected names are not passed on as received' % q, fn, pnode.ast, 'when TaggedSeries.parse rejects a name, '
                    '%s does not go on to %s() with the unmodified `%s`' % (q, sinkname, mvar))
  rule_tag_chars_scanned(check, cx, check.rule('R-C18-tag-chars-scanned', 1, 'the prohibited-character test covers every position of a tag'))


def rule_tag_chars_scanned(check, cx, rule):
  """the prohibited-character test of validateTagAndValue looks at EVERY position of the tag: a loop / any() over the characters
  with `in`, or a regex used through .search().  A character class used through .match() is anchored at position 0 and accepts
  `i!f` or `if^`; such names are then normalised (reordered, syntax-converted) instead of being stored and relayed verbatim."""
  fn = cx.fn('carbon.util', 'TaggedSeries.validateTagAndValue')
  if not rule.require(fn is not None, 'TaggedSeries.validateTagAndValue not found'):
    return
  cls = fn.cls
  pv = cls.attrs.get('prohibitedTagChars')
  ptext = pv.value if isinstance(pv, ast.Constant) and isinstance(pv.value, str) else None     # the normal form has the constant folded in

  def mentions(v):
    return 'prohibitedTagChars' in unparse(v) or (ptext is not None and any(isinstance(x, ast.Constant) and x.value == ptext for x in ast.walk(v)))
  derived = {k for k, v in cls.attrs.items() if v is not None and k != 'prohibitedTagChars' and mentions(v)}
  derived |= {k for k, vals in fn.module.globals.items() if any(mentions(v) for v in vals)}
  uses = [x for x in ast.walk(fn.node) if (isinstance(x, ast.Attribute) and x.attr in derived | {'prohibitedTagChars'}) or
          (isinstance(x, ast.Name) and x.id in derived | {'prohibitedTagChars'}) or
          (ptext is not None and isinstance(x, ast.Constant) and x.value == ptext)]
  if not rule.require(bool(uses), 'validateTagAndValue does not consult prohibitedTagChars (directly or through a derived constant)'):
    return
  bad = []
  for c in ast.walk(fn.node):
    if isinstance(c, ast.Call) and isinstance(c.func, ast.Attribute) and c.func.attr in ('match', 'fullmatch'):
      recv = c.func.value
      rn = recv.attr if isinstance(recv, ast.Attribute) else (recv.id if isinstance(recv, ast.Name) else None)
      if rn in derived or (rn == 're' and c.args and any(isinstance(x, (ast.Name, ast.Attribute)) and
                                                          (getattr(x, 'attr', None) or getattr(x, 'id', None)) in derived | {'prohibitedTagChars'}
                                                          for x in ast.walk(c.args[0]))):
        bad.append(c)
  if bad:
    rule.violate('prohibited characters tested at position 0 only', fn, bad[0], '`%s` applies the prohibited-character class through '
                 '.%s(), which only looks at the start of the tag: a forbidden character further in is accepted, and the name is '
                 'normalised instead of being kept verbatim' % (short(bad[0], 50), bad[0].func.attr))
  else:
    rule.ok('prohibited characters are looked for at every position of the tag', fn.loc(uses[0]))
